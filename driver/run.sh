#!/bin/bash
# usage: run.sh <repo dir> <out dir> [extra cargo args]   -- dumps facts JSON for rml_amf0 and rml_rtmp
set -e
REPO=$1; OUT=$2; shift 2
T=$(mktemp -d /tmp/mirfacts-target.XXXXXX)
trap 'rm -rf "$T"' EXIT
mkdir -p "$OUT"
cd "$REPO"
SYSROOT=$(rustc +nightly --print sysroot)
LD_LIBRARY_PATH=$SYSROOT/lib MIRFACTS_OUT=$OUT RUSTFLAGS="-Zmir-opt-level=0 -Awarnings" \
RUSTC_WORKSPACE_WRAPPER=/verif/driver/target/debug/mirfacts CARGO_TARGET_DIR=$T CARGO_NET_OFFLINE=true \
cargo +nightly check --offline -q -p rml_amf0 -p rml_rtmp --lib "$@" 2>&1 | grep -v 'package.edition' | head -40
