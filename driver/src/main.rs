// mirfacts: a rustc_private driver that dumps the type-checked program (MIR at
// mir-opt-level=0 plus ADT / impl / visibility tables) of each crate it compiles as one JSON
// facts file.  It is injected with RUSTC_WORKSPACE_WRAPPER under `cargo +nightly check`; it
// never executes library code.  One write per process (parallel crates never interleave).
#![feature(rustc_private)]
extern crate rustc_abi;
extern crate rustc_driver;
extern crate rustc_hir;
extern crate rustc_interface;
extern crate rustc_middle;
extern crate rustc_span;

use rustc_driver::Callbacks;
use rustc_hir::def::DefKind;
use rustc_hir::def_id::DefId;
use rustc_interface::interface::Compiler;
use rustc_middle::mir::{
    self, AggregateKind, AssertKind, BinOp, Body, Const, Operand, Place, ProjectionElem, Rvalue,
    StatementKind, TerminatorKind, UnOp,
};
use rustc_middle::ty::{self, Ty, TyCtxt};
use rustc_span::Span;
use std::fmt::Write as _;

// ---------------------------------------------------------------- JSON helpers
fn jstr(s: &str) -> String {
    let mut o = String::with_capacity(s.len() + 2);
    o.push('"');
    for c in s.chars() {
        match c {
            '"' => o.push_str("\\\""),
            '\\' => o.push_str("\\\\"),
            '\n' => o.push_str("\\n"),
            '\r' => o.push_str("\\r"),
            '\t' => o.push_str("\\t"),
            c if (c as u32) < 0x20 => {
                let _ = write!(o, "\\u{:04x}", c as u32);
            }
            c => o.push(c),
        }
    }
    o.push('"');
    o
}
fn jlist(items: Vec<String>) -> String {
    format!("[{}]", items.join(","))
}
fn jobj(items: Vec<(&str, String)>) -> String {
    let v: Vec<String> = items.into_iter().map(|(k, v)| format!("{}:{}", jstr(k), v)).collect();
    format!("{{{}}}", v.join(","))
}
fn jbool(b: bool) -> String {
    if b { "true".into() } else { "false".into() }
}
fn jnull() -> String {
    "null".into()
}

// ---------------------------------------------------------------- naming
fn def_key<'tcx>(tcx: TyCtxt<'tcx>, did: DefId) -> String {
    // canonical, crate-qualified, independent of re-exports: crate::mod::{impl#n}::name
    format!("{}{}", tcx.crate_name(did.krate), tcx.def_path(did).to_string_no_crate_verbose())
}
fn def_pretty<'tcx>(tcx: TyCtxt<'tcx>, did: DefId) -> String {
    ty::print::with_no_trimmed_paths!(ty::print::with_no_visible_paths!(tcx.def_path_str(did)))
}
fn ty_str<'tcx>(t: Ty<'tcx>) -> String {
    ty::print::with_no_trimmed_paths!(ty::print::with_no_visible_paths!(format!("{}", t)))
}

fn span_json<'tcx>(tcx: TyCtxt<'tcx>, sp: Span) -> String {
    let sm = tcx.sess.source_map();
    let root = sp.source_callsite();
    let lo = sm.lookup_char_pos(root.lo());
    let exp = if sp.from_expansion() {
        let d = sp.ctxt().outer_expn_data();
        let k = format!("{:?}", d.kind);
        // also the outermost macro (root) expansion kind
        let mut cur = sp;
        let mut rootk = k.clone();
        while cur.from_expansion() {
            let dd = cur.ctxt().outer_expn_data();
            rootk = format!("{:?}", dd.kind);
            cur = dd.call_site;
        }
        jobj(vec![("inner", jstr(&k)), ("root", jstr(&rootk))])
    } else {
        jnull()
    };
    let file = format!("{}", lo.file.name.prefer_local_unconditionally());
    jobj(vec![
        ("f", jstr(&file)),
        ("l", format!("{}", lo.line)),
        ("c", format!("{}", lo.col.0 + 1)),
        ("x", exp),
    ])
}

// ---------------------------------------------------------------- types
fn ty_info<'tcx>(tcx: TyCtxt<'tcx>, t: Ty<'tcx>) -> String {
    let mut items: Vec<(&str, String)> = vec![("s", jstr(&ty_str(t)))];
    match t.kind() {
        ty::Bool => items.push(("k", jstr("bool"))),
        ty::Int(i) => {
            items.push(("k", jstr("int")));
            items.push(("bits", format!("{}", i.bit_width().unwrap_or(64))));
        }
        ty::Uint(u) => {
            items.push(("k", jstr("uint")));
            items.push(("bits", format!("{}", u.bit_width().unwrap_or(64))));
        }
        ty::Float(_) => items.push(("k", jstr("float"))),
        ty::Char => items.push(("k", jstr("char"))),
        ty::Str => items.push(("k", jstr("str"))),
        ty::Adt(adt, _) => {
            items.push(("k", jstr("adt")));
            items.push(("adt", jstr(&def_key(tcx, adt.did()))));
        }
        ty::Ref(_, inner, m) => {
            items.push(("k", jstr("ref")));
            items.push(("mut", jbool(m.is_mut())));
            items.push(("to", ty_info(tcx, *inner)));
        }
        ty::RawPtr(inner, m) => {
            items.push(("k", jstr("ptr")));
            items.push(("mut", jbool(m.is_mut())));
            items.push(("to", ty_info(tcx, *inner)));
        }
        ty::Array(elem, len) => {
            items.push(("k", jstr("array")));
            items.push(("elem", ty_info(tcx, *elem)));
            let n = len.try_to_target_usize(tcx);
            items.push(("len", n.map(|x| format!("{}", x)).unwrap_or(jnull())));
        }
        ty::Slice(elem) => {
            items.push(("k", jstr("slice")));
            items.push(("elem", ty_info(tcx, *elem)));
        }
        ty::Tuple(ts) => {
            items.push(("k", jstr("tuple")));
            items.push(("elems", jlist(ts.iter().map(|x| ty_info(tcx, x)).collect())));
        }
        ty::Closure(d, _) => {
            items.push(("k", jstr("closure")));
            items.push(("def", jstr(&def_key(tcx, *d))));
        }
        ty::FnDef(d, _) => {
            items.push(("k", jstr("fndef")));
            items.push(("def", jstr(&def_key(tcx, *d))));
        }
        ty::Param(_) => items.push(("k", jstr("param"))),
        ty::Dynamic(..) => items.push(("k", jstr("dyn"))),
        ty::Never => items.push(("k", jstr("never"))),
        _ => items.push(("k", jstr("other"))),
    }
    jobj(items)
}

// ---------------------------------------------------------------- places / operands
fn place_json<'tcx>(tcx: TyCtxt<'tcx>, body: &Body<'tcx>, p: &Place<'tcx>) -> String {
    let mut proj: Vec<String> = vec![];
    let mut pty = mir::PlaceTy::from_ty(body.local_decls[p.local].ty);
    for elem in p.projection.iter() {
        match elem {
            ProjectionElem::Deref => proj.push(jstr("*")),
            ProjectionElem::Field(f, _) => {
                let name = match pty.ty.kind() {
                    ty::Adt(adt, _) => {
                        let v = match pty.variant_index {
                            Some(v) => v,
                            None => rustc_abi::FIRST_VARIANT,
                        };
                        if adt.is_union() || adt.variants().is_empty() {
                            format!("{}", f.as_u32())
                        } else {
                            adt.variant(v).fields[f].name.to_string()
                        }
                    }
                    _ => format!("{}", f.as_u32()),
                };
                let adt_key = match pty.ty.kind() {
                    ty::Adt(adt, _) => jstr(&def_key(tcx, adt.did())),
                    _ => jnull(),
                };
                proj.push(jobj(vec![("f", format!("{}", f.as_u32())), ("n", jstr(&name)), ("a", adt_key)]));
            }
            ProjectionElem::Downcast(name, idx) => {
                let n = name.map(|s| s.to_string()).unwrap_or_default();
                proj.push(jobj(vec![("dc", jstr(&n)), ("vi", format!("{}", idx.as_u32()))]));
            }
            ProjectionElem::Index(l) => proj.push(jobj(vec![("ix", format!("{}", l.as_u32()))])),
            ProjectionElem::ConstantIndex { offset, min_length, from_end } => proj.push(jobj(vec![
                ("ci", format!("{}", offset)),
                ("min", format!("{}", min_length)),
                ("from_end", jbool(from_end)),
            ])),
            ProjectionElem::Subslice { from, to, from_end } => proj.push(jobj(vec![
                ("sub_from", format!("{}", from)),
                ("sub_to", format!("{}", to)),
                ("from_end", jbool(from_end)),
            ])),
            _ => proj.push(jstr("opaque")),
        }
        pty = pty.projection_ty(tcx, elem);
    }
    jobj(vec![
        ("l", format!("{}", p.local.as_u32())),
        ("p", jlist(proj)),
        ("t", ty_info(tcx, pty.ty)),
    ])
}

fn const_json<'tcx>(tcx: TyCtxt<'tcx>, env: ty::TypingEnv<'tcx>, c: &Const<'tcx>) -> String {
    let t = c.ty();
    let mut items: Vec<(&str, String)> = vec![("t", ty_info(tcx, t))];
    if let ty::FnDef(d, a) = t.kind() {
        items.push(("fn", jstr(&def_key(tcx, *d))));
        items.push(("fn_pretty", jstr(&def_pretty(tcx, *d))));
        items.push(("generics", jlist(a.iter().map(|x| jstr(&ty::print::with_no_trimmed_paths!(format!("{}", x)))).collect())));
        return jobj(items);
    }
    if let Const::Unevaluated(u, _) = c {
        if u.promoted.is_some() {
            items.push(("promoted", format!("{}", u.promoted.unwrap().as_u32())));
            items.push(("promoted_of", jstr(&def_key(tcx, u.def))));
            return jobj(items);
        }
        items.push(("named", jstr(&def_key(tcx, u.def))));
    }
    if matches!(t.kind(), ty::Bool | ty::Int(_) | ty::Uint(_) | ty::Char | ty::Float(_)) {
        if let Some(si) = c.try_eval_scalar_int(tcx, env) {
            let bits = si.to_bits_unchecked();
            match t.kind() {
                ty::Bool => items.push(("bool", jbool(bits != 0))),
                ty::Float(_) => items.push(("float_bits", format!("{}", bits))),
                _ => items.push(("int", format!("{}", bits))),
            }
            return jobj(items);
        }
    }
    match c.eval(tcx, env, rustc_span::DUMMY_SP) {
        Ok(val) => {
            let is_slice_ref = match t.kind() {
                ty::Ref(_, inner, _) => {
                    matches!(inner.kind(), ty::Str)
                        || matches!(inner.kind(), ty::Slice(e) if *e == tcx.types.u8)
                }
                _ => false,
            };
            if is_slice_ref {
                if let Some(bytes) = val.try_get_slice_bytes_for_diagnostics(tcx) {
                    let is_str = matches!(t.kind(), ty::Ref(_, inner, _) if matches!(inner.kind(), ty::Str));
                    if is_str {
                        items.push(("str", jstr(&String::from_utf8_lossy(bytes))));
                    }
                    items.push(("bytes", jlist(bytes.iter().map(|b| format!("{}", b)).collect())));
                    return jobj(items);
                }
            }
            match val {
                mir::ConstValue::ZeroSized => items.push(("zst", jbool(true))),
                mir::ConstValue::Indirect { alloc_id, offset } => {
                    let arr_u8 = match t.kind() {
                        ty::Array(e, _) => *e == tcx.types.u8,
                        _ => false,
                    };
                    if arr_u8 {
                        if let Some(n) = match t.kind() { ty::Array(_, l) => l.try_to_target_usize(tcx), _ => None } {
                            let a = tcx.global_alloc(alloc_id).unwrap_memory().inner();
                            let start = offset.bytes_usize();
                            let bytes = a.inspect_with_uninit_and_ptr_outside_interpreter(start..start + n as usize);
                            items.push(("bytes", jlist(bytes.iter().map(|b| format!("{}", b)).collect())));
                        }
                    } else {
                        items.push(("indirect", jbool(true)));
                    }
                }
                other => {
                    // a pointer to a static item: name it, and say whether it can be written through (static mut / interior mutability)
                    if let mir::ConstValue::Scalar(mir::interpret::Scalar::Ptr(ptr, _)) = other {
                        if let rustc_middle::mir::interpret::GlobalAlloc::Static(did) = tcx.global_alloc(ptr.provenance.alloc_id()) {
                            items.push(("static", jstr(&def_key(tcx, did))));
                            let sty = tcx.type_of(did).instantiate_identity().skip_norm_wip();
                            let writable = tcx.is_mutable_static(did) || !sty.is_freeze(tcx, env);
                            items.push(("static_writable", jbool(writable)));
                        }
                    }
                    items.push(("val", jstr(&format!("{:?}", other))))
                }
            }
        }
        Err(_) => items.push(("uneval", jstr(&format!("{:?}", c)))),
    }
    jobj(items)
}

fn op_json<'tcx>(tcx: TyCtxt<'tcx>, env: ty::TypingEnv<'tcx>, body: &Body<'tcx>, o: &Operand<'tcx>) -> String {
    match o {
        Operand::Copy(p) => jobj(vec![("c", place_json(tcx, body, p))]),
        Operand::Move(p) => jobj(vec![("m", place_json(tcx, body, p))]),
        Operand::Constant(c) => jobj(vec![("k", const_json(tcx, env, &c.const_))]),
        #[allow(unreachable_patterns)]
        _ => jobj(vec![("unknown_operand", jbool(true))]),
    }
}

fn binop_name(op: BinOp) -> &'static str {
    match op {
        BinOp::Add => "Add",
        BinOp::AddUnchecked => "AddUnchecked",
        BinOp::AddWithOverflow => "AddWithOverflow",
        BinOp::Sub => "Sub",
        BinOp::SubUnchecked => "SubUnchecked",
        BinOp::SubWithOverflow => "SubWithOverflow",
        BinOp::Mul => "Mul",
        BinOp::MulUnchecked => "MulUnchecked",
        BinOp::MulWithOverflow => "MulWithOverflow",
        BinOp::Div => "Div",
        BinOp::Rem => "Rem",
        BinOp::BitXor => "BitXor",
        BinOp::BitAnd => "BitAnd",
        BinOp::BitOr => "BitOr",
        BinOp::Shl => "Shl",
        BinOp::ShlUnchecked => "ShlUnchecked",
        BinOp::Shr => "Shr",
        BinOp::ShrUnchecked => "ShrUnchecked",
        BinOp::Eq => "Eq",
        BinOp::Lt => "Lt",
        BinOp::Le => "Le",
        BinOp::Ne => "Ne",
        BinOp::Ge => "Ge",
        BinOp::Gt => "Gt",
        BinOp::Cmp => "Cmp",
        BinOp::Offset => "Offset",
    }
}

fn rvalue_json<'tcx>(tcx: TyCtxt<'tcx>, env: ty::TypingEnv<'tcx>, body: &Body<'tcx>, rv: &Rvalue<'tcx>) -> String {
    match rv {
        Rvalue::Use(o, _) => jobj(vec![("k", jstr("use")), ("a", op_json(tcx, env, body, o))]),
        Rvalue::CopyForDeref(p) => jobj(vec![("k", jstr("use")), ("a", jobj(vec![("c", place_json(tcx, body, p))]))]),
        Rvalue::Ref(_, bk, pl) => jobj(vec![
            ("k", jstr("ref")),
            ("mut", jbool(matches!(bk, mir::BorrowKind::Mut { .. }))),
            ("place", place_json(tcx, body, pl)),
        ]),
        Rvalue::RawPtr(kind, pl) => jobj(vec![
            ("k", jstr("rawptr")),
            ("mut", jbool(format!("{:?}", kind).contains("Mut"))),
            ("place", place_json(tcx, body, pl)),
        ]),
        Rvalue::BinaryOp(op, ops) => jobj(vec![
            ("k", jstr("bin")),
            ("op", jstr(binop_name(*op))),
            ("a", op_json(tcx, env, body, &ops.0)),
            ("b", op_json(tcx, env, body, &ops.1)),
        ]),
        Rvalue::UnaryOp(op, o) => jobj(vec![
            ("k", jstr("un")),
            ("op", jstr(match op { UnOp::Not => "Not", UnOp::Neg => "Neg", UnOp::PtrMetadata => "PtrMetadata" })),
            ("a", op_json(tcx, env, body, o)),
        ]),
        Rvalue::Cast(k, o, t) => jobj(vec![
            ("k", jstr("cast")),
            ("ck", jstr(&format!("{:?}", k))),
            ("a", op_json(tcx, env, body, o)),
            ("to", ty_info(tcx, *t)),
        ]),
        Rvalue::Discriminant(pl) => jobj(vec![("k", jstr("discr")), ("place", place_json(tcx, body, pl))]),
        Rvalue::Aggregate(k, ops) => {
            let mut items: Vec<(&str, String)> = vec![("k", jstr("agg"))];
            match &**k {
                AggregateKind::Adt(d, v, _, _, _) => {
                    let adt = tcx.adt_def(*d);
                    items.push(("ak", jstr("adt")));
                    items.push(("adt", jstr(&def_key(tcx, *d))));
                    items.push(("variant", jstr(&adt.variant(*v).name.to_string())));
                    items.push(("vi", format!("{}", v.as_u32())));
                    items.push(("fields", jlist(adt.variant(*v).fields.iter().map(|f| jstr(&f.name.to_string())).collect())));
                }
                AggregateKind::Array(_) => items.push(("ak", jstr("array"))),
                AggregateKind::Tuple => items.push(("ak", jstr("tuple"))),
                AggregateKind::Closure(d, _) => {
                    items.push(("ak", jstr("closure")));
                    items.push(("closure", jstr(&def_key(tcx, *d))));
                }
                other => {
                    items.push(("ak", jstr("other")));
                    items.push(("dbg", jstr(&format!("{:?}", other))));
                }
            }
            items.push(("ops", jlist(ops.iter().map(|o| op_json(tcx, env, body, o)).collect())));
            jobj(items)
        }
        Rvalue::Repeat(o, n) => jobj(vec![
            ("k", jstr("repeat")),
            ("a", op_json(tcx, env, body, o)),
            ("n", n.try_to_target_usize(tcx).map(|x| format!("{}", x)).unwrap_or(jnull())),
        ]),
        other => jobj(vec![("k", jstr("other")), ("dbg", jstr(&format!("{:?}", other)))]),
    }
}

fn callee_json<'tcx>(tcx: TyCtxt<'tcx>, env: ty::TypingEnv<'tcx>, body: &Body<'tcx>, func: &Operand<'tcx>) -> String {
    match func {
        Operand::Constant(c) => match c.const_.ty().kind() {
            ty::FnDef(cd, ga) => {
                let mut items: Vec<(&str, String)> = vec![
                    ("orig", jstr(&def_key(tcx, *cd))),
                    ("orig_pretty", jstr(&def_pretty(tcx, *cd))),
                    ("generics", jlist(ga.iter().map(|x| jstr(&ty::print::with_no_trimmed_paths!(format!("{}", x)))).collect())),
                ];
                // is the original a trait item?
                if let Some(tr) = tcx.trait_of_assoc(*cd) {
                    items.push(("trait", jstr(&def_key(tcx, tr))));
                    items.push(("trait_pretty", jstr(&def_pretty(tcx, tr))));
                }
                let r = ty::Instance::try_resolve(tcx, env, *cd, ga);
                match r {
                    Ok(Some(i)) => {
                        let rd = i.def_id();
                        let is_virtual = matches!(i.def, ty::InstanceKind::Virtual(..));
                        items.push(("resolved", jbool(!is_virtual)));
                        items.push(("virtual", jbool(is_virtual)));
                        items.push(("path", jstr(&def_key(tcx, rd))));
                        items.push(("pretty", jstr(&def_pretty(tcx, rd))));
                        items.push(("local", jbool(rd.is_local())));
                        items.push(("inst", jstr(&format!("{:?}", std::mem::discriminant(&i.def)))));
                        // self type of the impl the resolved item belongs to
                        if let Some(imp) = tcx.impl_of_assoc(rd) {
                            items.push(("impl_self", jstr(&ty_str(tcx.type_of(imp).skip_binder()))));
                        }
                    }
                    _ => {
                        items.push(("resolved", jbool(false)));
                        items.push(("virtual", jbool(false)));
                        items.push(("path", jstr(&def_key(tcx, *cd))));
                        items.push(("pretty", jstr(&def_pretty(tcx, *cd))));
                        items.push(("local", jbool(cd.is_local())));
                    }
                }
                jobj(items)
            }
            _ => jobj(vec![("fnptr", jbool(true)), ("op", op_json(tcx, env, body, func))]),
        },
        _ => jobj(vec![("indirect", jbool(true)), ("op", op_json(tcx, env, body, func))]),
    }
}

fn body_json<'tcx>(tcx: TyCtxt<'tcx>, did: DefId, body: &Body<'tcx>, promoted: Option<u32>) -> String {
    let env = ty::TypingEnv::post_analysis(tcx, did);
    let kind = tcx.def_kind(did);
    let mut items: Vec<(&str, String)> = vec![];
    let key = def_key(tcx, did);
    items.push(("key", jstr(&match promoted { Some(i) => format!("{}::promoted[{}]", key, i), None => key.clone() })));
    items.push(("owner", jstr(&key)));
    items.push(("pretty", jstr(&def_pretty(tcx, did))));
    items.push(("kind", jstr(match (promoted, kind) {
        (Some(_), _) => "promoted",
        (None, DefKind::Closure) => "closure",
        (None, DefKind::AssocFn) => "assoc",
        _ => "fn",
    })));
    items.push(("promoted", promoted.map(|x| format!("{}", x)).unwrap_or(jnull())));
    if matches!(kind, DefKind::Closure) {
        items.push(("parent", jstr(&def_key(tcx, tcx.typeck_root_def_id(did)))));
    } else {
        items.push(("parent", jnull()));
    }
    if matches!(kind, DefKind::Fn | DefKind::AssocFn) {
        let vis = tcx.visibility(did);
        items.push(("pub", jbool(vis.is_public())));
        let reach = did.as_local().map(|l| tcx.effective_visibilities(()).is_reachable(l)).unwrap_or(false);
        items.push(("reachable", jbool(reach)));
        items.push(("name", jstr(&tcx.item_name(did).to_string())));
    } else {
        items.push(("pub", jbool(false)));
        items.push(("reachable", jbool(false)));
        items.push(("name", jstr("")));
    }
    // impl info
    if matches!(kind, DefKind::AssocFn) {
        if let Some(imp) = tcx.impl_of_assoc(did) {
            let tr = tcx.impl_opt_trait_ref(imp).map(|t| t.skip_binder());
            items.push(("impl", jobj(vec![
                ("self_ty", jstr(&ty_str(tcx.type_of(imp).skip_binder()))),
                ("self_info", ty_info(tcx, tcx.type_of(imp).skip_binder())),
                ("trait", tr.map(|t| jstr(&def_key(tcx, t.def_id))).unwrap_or(jnull())),
                ("trait_ref", tr.map(|t| jstr(&ty::print::with_no_trimmed_paths!(format!("{}", t)))).unwrap_or(jnull())),
                ("derived", jbool(tcx.is_automatically_derived(imp))),
            ])));
        } else {
            items.push(("impl", jnull()));
        }
    } else {
        items.push(("impl", jnull()));
    }
    items.push(("span", span_json(tcx, body.span)));
    items.push(("arg_count", format!("{}", body.arg_count)));
    // locals
    let mut names: Vec<Option<String>> = vec![None; body.local_decls.len()];
    for vdi in &body.var_debug_info {
        if let mir::VarDebugInfoContents::Place(p) = &vdi.value {
            if p.projection.is_empty() {
                names[p.local.as_usize()] = Some(vdi.name.to_string());
            }
        }
    }
    let locals: Vec<String> = body.local_decls.iter_enumerated().map(|(l, d)| {
        jobj(vec![
            ("t", ty_info(tcx, d.ty)),
            ("name", names[l.as_usize()].as_ref().map(|n| jstr(n)).unwrap_or(jnull())),
        ])
    }).collect();
    items.push(("locals", jlist(locals)));
    // closure captures debug info (names of upvars): var_debug_info with projections on _1
    let mut upvars: Vec<String> = vec![];
    for vdi in &body.var_debug_info {
        if let mir::VarDebugInfoContents::Place(p) = &vdi.value {
            if !p.projection.is_empty() {
                upvars.push(jobj(vec![("name", jstr(&vdi.name.to_string())), ("place", place_json(tcx, body, p))]));
            }
        }
    }
    items.push(("debug_places", jlist(upvars)));
    // blocks
    let mut blocks: Vec<String> = vec![];
    for (_bb, data) in body.basic_blocks.iter_enumerated() {
        let mut stmts: Vec<String> = vec![];
        for st in &data.statements {
            match &st.kind {
                StatementKind::Assign(b) => {
                    let (p, rv) = &**b;
                    stmts.push(jobj(vec![
                        ("place", place_json(tcx, body, p)),
                        ("rv", rvalue_json(tcx, env, body, rv)),
                        ("span", span_json(tcx, st.source_info.span)),
                    ]));
                }
                StatementKind::SetDiscriminant { place, variant_index } => {
                    stmts.push(jobj(vec![
                        ("place", place_json(tcx, body, place)),
                        ("rv", jobj(vec![("k", jstr("setdiscr")), ("vi", format!("{}", variant_index.as_u32()))])),
                        ("span", span_json(tcx, st.source_info.span)),
                    ]));
                }
                _ => {}
            }
        }
        let t = data.terminator();
        let tspan = span_json(tcx, t.source_info.span);
        let term = match &t.kind {
            TerminatorKind::Goto { target } => jobj(vec![("k", jstr("goto")), ("t", format!("{}", target.as_u32())), ("span", tspan)]),
            TerminatorKind::SwitchInt { discr, targets } => jobj(vec![
                ("k", jstr("switch")),
                ("discr", op_json(tcx, env, body, discr)),
                ("targets", jlist(targets.iter().map(|(v, bb)| format!("[{},{}]", v, bb.as_u32())).collect())),
                ("otherwise", format!("{}", targets.otherwise().as_u32())),
                ("span", tspan),
            ]),
            TerminatorKind::Call { func, args, destination, target, .. } => jobj(vec![
                ("k", jstr("call")),
                ("callee", callee_json(tcx, env, body, func)),
                ("args", jlist(args.iter().map(|a| op_json(tcx, env, body, &a.node)).collect())),
                ("dest", place_json(tcx, body, destination)),
                ("t", target.map(|b| format!("{}", b.as_u32())).unwrap_or(jnull())),
                ("span", tspan),
            ]),
            TerminatorKind::Assert { cond, expected, msg, target, .. } => {
                let (kind, ops): (String, Vec<String>) = match &**msg {
                    AssertKind::BoundsCheck { len, index } => ("bounds".into(), vec![op_json(tcx, env, body, len), op_json(tcx, env, body, index)]),
                    AssertKind::Overflow(op, a, b) => (format!("overflow:{}", binop_name(*op)), vec![op_json(tcx, env, body, a), op_json(tcx, env, body, b)]),
                    AssertKind::OverflowNeg(a) => ("overflow:Neg".into(), vec![op_json(tcx, env, body, a)]),
                    AssertKind::DivisionByZero(a) => ("div0".into(), vec![op_json(tcx, env, body, a)]),
                    AssertKind::RemainderByZero(a) => ("rem0".into(), vec![op_json(tcx, env, body, a)]),
                    AssertKind::MisalignedPointerDereference { .. } => ("ub:misaligned".into(), vec![]),
                    AssertKind::NullPointerDereference => ("ub:null".into(), vec![]),
                    other => (format!("other:{:?}", std::mem::discriminant(other)), vec![]),
                };
                jobj(vec![
                    ("k", jstr("assert")),
                    ("cond", op_json(tcx, env, body, cond)),
                    ("expected", jbool(*expected)),
                    ("akind", jstr(&kind)),
                    ("ops", jlist(ops)),
                    ("t", format!("{}", target.as_u32())),
                    ("span", tspan),
                ])
            }
            TerminatorKind::Return => jobj(vec![("k", jstr("return")), ("span", tspan)]),
            TerminatorKind::Unreachable => jobj(vec![("k", jstr("unreachable")), ("span", tspan)]),
            TerminatorKind::Drop { place, target, .. } => jobj(vec![
                ("k", jstr("drop")),
                ("place", place_json(tcx, body, place)),
                ("t", format!("{}", target.as_u32())),
                ("span", tspan),
            ]),
            TerminatorKind::UnwindResume => jobj(vec![("k", jstr("resume")), ("span", tspan)]),
            TerminatorKind::FalseEdge { real_target, .. } => jobj(vec![("k", jstr("goto")), ("t", format!("{}", real_target.as_u32())), ("span", tspan)]),
            TerminatorKind::FalseUnwind { real_target, .. } => jobj(vec![("k", jstr("goto")), ("t", format!("{}", real_target.as_u32())), ("span", tspan)]),
            other => jobj(vec![("k", jstr("other")), ("dbg", jstr(&format!("{:?}", std::mem::discriminant(other)))), ("span", tspan)]),
        };
        blocks.push(jobj(vec![("cleanup", jbool(data.is_cleanup)), ("stmts", jlist(stmts)), ("term", term)]));
    }
    items.push(("blocks", jlist(blocks)));
    jobj(items)
}

struct Cb;

impl Callbacks for Cb {
    fn after_analysis<'tcx>(&mut self, _c: &Compiler, tcx: TyCtxt<'tcx>) -> rustc_driver::Compilation {
        let out_dir = match std::env::var("MIRFACTS_OUT") {
            Ok(d) => d,
            Err(_) => return rustc_driver::Compilation::Continue,
        };
        let crate_name = tcx.crate_name(rustc_hir::def_id::LOCAL_CRATE).to_string();
        // bodies
        let mut bodies: Vec<String> = vec![];
        for def in tcx.hir_body_owners() {
            let did = def.to_def_id();
            let kind = tcx.def_kind(did);
            if !matches!(kind, DefKind::Fn | DefKind::AssocFn | DefKind::Closure) {
                continue;
            }
            let body = tcx.optimized_mir(did);
            bodies.push(body_json(tcx, did, body, None));
            for (i, p) in tcx.promoted_mir(did).iter_enumerated() {
                bodies.push(body_json(tcx, did, p, Some(i.as_u32())));
            }
        }
        // ADTs
        let mut adts: Vec<String> = vec![];
        for id in tcx.hir_free_items() {
            let did = id.owner_id.to_def_id();
            if !matches!(tcx.def_kind(did), DefKind::Enum | DefKind::Struct) {
                continue;
            }
            let adt = tcx.adt_def(did);
            let mut variants: Vec<String> = vec![];
            for (vi, v) in adt.variants().iter_enumerated() {
                let d = if adt.is_enum() { format!("{}", adt.discriminant_for_variant(tcx, vi).val) } else { jnull() };
                let fields: Vec<String> = v.fields.iter().map(|f| {
                    let vis = if f.vis.is_public() { "pub" } else { "restricted" };
                    jobj(vec![
                        ("name", jstr(&f.name.to_string())),
                        ("t", ty_info(tcx, tcx.type_of(f.did).skip_binder())),
                        ("vis", jstr(vis)),
                    ])
                }).collect();
                variants.push(jobj(vec![
                    ("name", jstr(&v.name.to_string())),
                    ("vi", format!("{}", vi.as_u32())),
                    ("discr", d),
                    ("fields", jlist(fields)),
                ]));
            }
            let reach = did.as_local().map(|l| tcx.effective_visibilities(()).is_reachable(l)).unwrap_or(false);
            adts.push(jobj(vec![
                ("key", jstr(&def_key(tcx, did))),
                ("pretty", jstr(&def_pretty(tcx, did))),
                ("kind", jstr(if adt.is_enum() { "enum" } else { "struct" })),
                ("pub", jbool(tcx.visibility(did).is_public())),
                ("reachable", jbool(reach)),
                ("variants", jlist(variants)),
                ("span", span_json(tcx, tcx.def_span(did))),
            ]));
        }
        // named constants (value tables for spec comparison)
        let mut consts: Vec<String> = vec![];
        for id in tcx.hir_free_items() {
            let did = id.owner_id.to_def_id();
            if !matches!(tcx.def_kind(did), DefKind::Const { .. }) {
                continue;
            }
            consts.push(jobj(vec![
                ("key", jstr(&def_key(tcx, did))),
                ("t", ty_info(tcx, tcx.type_of(did).skip_binder())),
            ]));
        }
        let doc = jobj(vec![
            ("crate", jstr(&crate_name)),
            ("rustc", jstr(&format!("{}", rustc_interface::util::rustc_version_str().unwrap_or("?")))),
            ("bodies", jlist(bodies)),
            ("adts", jlist(adts)),
            ("consts", jlist(consts)),
        ]);
        let path = format!("{}/{}.json", out_dir, crate_name);
        std::fs::write(&path, doc).expect("mirfacts: cannot write facts file");
        rustc_driver::Compilation::Continue
    }
}

fn main() {
    let mut args: Vec<String> = std::env::args().collect();
    // RUSTC_WORKSPACE_WRAPPER passes the real rustc as argv[1]
    if args.len() > 1 && (args[1].ends_with("rustc") || args[1].contains("/rustc")) {
        args.remove(1);
    }
    rustc_driver::run_compiler(&args, &mut Cb);
}
