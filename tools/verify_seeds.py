#!/usr/bin/env python3
"""Confirm each candidate seeded change in a scratch worktree: applies, compiles, the unedited suite
passes with it, the demonstration fails with it and passes without it.  Confirmed ones are copied to
/verif/seeded/<id>/ with meta.json.   usage: verify_seeds.py <results dir> [ids...]"""
import json, os, re, shutil, subprocess, sys, time

RES = sys.argv[1]
ONLY = sys.argv[2:]
LETTERS = os.environ.get("LETTERS", "ab").split(",") if "," in os.environ.get("LETTERS", "") else list(os.environ.get("LETTERS", "ab"))
WT = "/tmp/seedverify_wt"
OUT = "/verif/seeded"


def sh(cmd, cwd=None, timeout=1800):
    p = subprocess.run(cmd, shell=True, cwd=cwd, stdout=subprocess.PIPE, stderr=subprocess.STDOUT, timeout=timeout, text=True)
    return p.returncode, p.stdout


def tests_summary(out):
    passed = sum(int(m.group(1)) for m in re.finditer(r"test result: \w+\. (\d+) passed", out))
    failed = sum(int(m.group(1)) for m in re.finditer(r"test result: \w+\. \d+ passed; (\d+) failed", out))
    return passed, failed


if not os.path.exists(WT):
    sh("git -C /repo worktree add --detach %s HEAD -q" % WT)
    sh("cp -r /repo/target %s/target" % WT)
head = sh("git -C /repo rev-parse HEAD")[1].strip()
props = {}
for l in open("/verif/properties.jsonl"):
    d = json.loads(l)
    props[d["id"]] = d["title"]
for pid in sorted(os.listdir(RES)):
    if ONLY and pid not in ONLY:
        continue
    d = os.path.join(RES, pid)
    readme = open(os.path.join(d, "README.md")).read() if os.path.exists(os.path.join(d, "README.md")) else ""
    for m in LETTERS:
        patch = os.path.join(d, "%s.patch.diff" % m)
        demo = os.path.join(d, "%s.demo.rs" % m)
        if not (os.path.exists(patch) and os.path.exists(demo)):
            continue
        sid = "%s-%s" % (pid, m)
        crate = "amf0" if ("amf0/tests/seed_demo_%s.rs" % m) in readme else "rtmp"
        pkg = "rml_amf0" if crate == "amf0" else "rml_rtmp"
        sh("git checkout -q -- . && git clean -fdq -e target", cwd=WT)
        os.makedirs(os.path.join(WT, crate, "tests"), exist_ok=True)
        shutil.copy(demo, os.path.join(WT, crate, "tests", "seed_demo_%s.rs" % m))
        t0 = time.time()
        rc0, out0 = sh("cargo test --offline -p %s --test seed_demo_%s 2>&1 | tail -40" % (pkg, m), cwd=WT)
        p0, f0 = tests_summary(out0)
        clean_ok = p0 > 0 and f0 == 0 and "error" not in out0.split("test result")[0][-2000:].lower().replace("errors", "") or (p0 > 0 and f0 == 0)
        rc, outp = sh("git apply %s" % patch, cwd=WT)
        applies = rc == 0
        res = {"id": sid, "property": pid, "applies": applies, "demo_without_patch": {"passed": p0, "failed": f0}}
        if applies:
            rc1, out1 = sh("cargo test --workspace --no-fail-fast --offline 2>&1 | grep -E '^test result|^error|could not compile' ", cwd=WT)
            # the workspace run includes the demo; count it separately
            rc2, out2 = sh("cargo test --offline -p %s --test seed_demo_%s 2>&1 | tail -60" % (pkg, m), cwd=WT, timeout=900)
            p2, f2 = tests_summary(out2)
            # suite without the demo file
            os.remove(os.path.join(WT, crate, "tests", "seed_demo_%s.rs" % m))
            rc3, out3 = sh("cargo test --workspace --no-fail-fast --offline 2>&1 | grep -E '^test result|^error|could not compile' ", cwd=WT)
            p3, f3 = tests_summary(out3)
            res["suite_with_patch"] = {"passed": p3, "failed": f3, "compiles": "could not compile" not in out3}
            res["demo_with_patch"] = {"passed": p2, "failed": f2, "tail": out2[-600:]}
            demo_fails = f2 > 0 or ("test result" not in out2 and ("panicked" in out2 or "SIGABRT" in out2 or "signal" in out2 or "overflow" in out2))
            res["confirmed"] = bool(p0 > 0 and f0 == 0 and p3 == 193 and f3 == 0 and demo_fails)
        else:
            res["confirmed"] = False
            res["apply_error"] = outp[-400:]
        res["wall_s"] = round(time.time() - t0, 1)
        print(json.dumps({k: v for k, v in res.items() if k != "demo_with_patch"}), flush=True)
        if res["confirmed"]:
            od = os.path.join(OUT, sid)
            os.makedirs(od, exist_ok=True)
            shutil.copy(patch, os.path.join(od, "patch.diff"))
            shutil.copy(demo, os.path.join(od, "demo.rs"))
            # the part of the agent's README describing this mutant
            meta = {
                "id": sid, "breaks_property": pid, "property_title": props.get(pid),
                "demo_placement": "%s/tests/seed_demo_%s.rs" % (crate, m),
                "demo_command": "cargo test --offline -p %s --test seed_demo_%s" % (pkg, m),
                "repo_commit": head,
                "confirmed_by": "tools/verify_seeds.py in a scratch worktree of /repo (removed afterwards)",
                "ran": ["demo on unchanged tree: %d passed, %d failed" % (p0, f0),
                        "git apply patch.diff: ok",
                        "cargo test --workspace --no-fail-fast --offline (without the demo file): %d passed, %d failed" % (res["suite_with_patch"]["passed"], res["suite_with_patch"]["failed"]),
                        "demo with patch: %d passed, %d failed" % (res["demo_with_patch"]["passed"], res["demo_with_patch"]["failed"])],
                "source": "written by an independent sub-agent that saw only the property text and a scratch worktree",
            }
            json.dump(meta, open(os.path.join(od, "meta.json"), "w"), indent=1)
            with open(os.path.join(od, "README.agent.md"), "w") as f:
                f.write(readme)
sh("git -C /repo worktree remove --force %s" % WT)
sh("git -C /repo worktree prune")
