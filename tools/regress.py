#!/usr/bin/env python3
"""(development) Fast regression of the checker against every recorded variant of the tree:
  seeded/<id>/patch.diff            -> the check of the property the change was written against must fire
  selftest/break/*.fixdiff (-R)     -> the property in the file name must fire
  selftest/benign/*.diff|*.patch    -> every check must stay silent
The driver runs once per variant on a scratch copy of /repo (facts cached under /tmp/rml-regress, keyed by patch content,
/repo HEAD and driver); the python rules then run on the cached facts in parallel.
usage: regress.py [--props C01,C07] [--only substr,...] [--jobs N] [--write]   (--write updates MATRIX.json / RESULTS.json)"""
import argparse, hashlib, json, os, re, shutil, subprocess, sys, tempfile
from concurrent.futures import ThreadPoolExecutor

V = "/verif"
CACHE = "/tmp/rml-regress"
SNAP = V


def sh(cmd, cwd=None):
    p = subprocess.run(cmd, shell=True, cwd=cwd, stdout=subprocess.PIPE, stderr=subprocess.STDOUT, text=True)
    return p.returncode, p.stdout


def variants():
    out = []
    sd = os.path.join(V, "seeded")
    for d in sorted(os.listdir(sd)):
        p = os.path.join(sd, d, "patch.diff")
        if os.path.exists(p):
            out.append(("seeded", d, p, False, d.split("-")[0]))
    bd = os.path.join(V, "selftest", "break")
    for f in sorted(os.listdir(bd)):
        if f.endswith(".fixdiff"):
            m = re.search(r"-(C\d\d)\.fixdiff$", f)
            out.append(("revert", f, os.path.join(bd, f), True, m.group(1) if m else None))
        elif f.endswith(".patch") and re.match(r"^C\d\d-", f):
            out.append(("revert", f, os.path.join(bd, f), False, f[:3]))
    gd = os.path.join(V, "selftest", "benign")
    for f in sorted(os.listdir(gd)):
        if f.endswith((".diff", ".patch")):
            out.append(("benign", f, os.path.join(gd, f), False, None))
    return out


def base_key():
    head = sh("git -C /repo rev-parse HEAD")[1].strip()
    dirty = hashlib.sha1(sh("git -C /repo diff")[1].encode()).hexdigest()[:8]
    drv = str(int(os.path.getmtime(os.path.join(V, "driver", "src", "main.rs"))))
    return head[:12] + "-" + dirty + "-" + drv


def facts_for(var, bk):
    kind, name, path, reverse, prop = var
    h = hashlib.sha1((open(path).read() + bk + str(reverse)).encode()).hexdigest()[:16]
    d = os.path.join(CACHE, "facts", "%s-%s" % (re.sub(r"[^A-Za-z0-9_.-]", "_", name), h))
    if os.path.exists(os.path.join(d, "rml_rtmp.json")) and os.path.exists(os.path.join(d, "rml_amf0.json")):
        return d, None
    w = tempfile.mkdtemp(prefix="rml-regress-w.")
    try:
        sh("rsync -a --exclude target --exclude .git /repo/ %s/" % w)
        sh("git init -q", cwd=w)
        rc, out = sh("git apply %s %s" % ("-R" if reverse else "", path), cwd=w)
        if rc != 0:
            return None, "patch does not apply: " + out[-200:]
        os.makedirs(d, exist_ok=True)
        rc, out = sh("%s/check C01 --repo %s --dump-facts %s" % (V, w, d))
        if rc != 0:
            shutil.rmtree(d, ignore_errors=True)
            return None, "driver failed: " + out[-300:]
        return d, None
    finally:
        shutil.rmtree(w, ignore_errors=True)


def run_variant(var, props, bk):
    kind, name, path, reverse, prop = var
    d, err = facts_for(var, bk)
    if d is None:
        return var, {"error": err}
    which = props if props else ["all"]
    fired, crashed, tail = {}, False, ""
    for p in which:
        pr = subprocess.run([os.path.join(SNAP, "check"), p, "--facts", d, "--no-evidence"], cwd=SNAP, stdout=subprocess.PIPE, stderr=subprocess.STDOUT, text=True)
        for m in re.finditer(r"^  rule (C\d+)\.(\S+) at", pr.stdout, re.M):
            fired.setdefault(m.group(1), set()).add(m.group(1) + "." + m.group(2))
        if "Traceback" in pr.stdout:
            crashed = True
            tail = pr.stdout[-600:]
    return var, {"fired": {k: sorted(v) for k, v in sorted(fired.items())}, "crashed": crashed, "tail": tail}


def main():
    ap = argparse.ArgumentParser()
    ap.add_argument("--props", default="")
    ap.add_argument("--only", default="")
    ap.add_argument("--kinds", default="seeded,revert,benign")
    ap.add_argument("--jobs", type=int, default=14)
    ap.add_argument("--write", action="store_true")
    a = ap.parse_args()
    props = [p for p in a.props.split(",") if p]
    only = [o for o in a.only.split(",") if o]
    vs = [v for v in variants() if v[0] in a.kinds.split(",") and (not only or any(o in v[1] for o in only))]
    if props:
        # with a property filter: breaking variants of other properties are only interesting if they are expected to fire there
        vs = [v for v in vs if v[0] == "benign" or v[4] in props or only]
    subprocess.run([os.path.join(V, "check"), "C01", "--facts", "/nonexistent", "--no-evidence"], stdout=subprocess.DEVNULL, stderr=subprocess.DEVNULL)  # builds the driver if stale
    bk = base_key()
    os.makedirs(os.path.join(CACHE, "facts"), exist_ok=True)
    # run the rules from a snapshot of the checker, so that editing /verif while this runs does not disturb the run
    global SNAP
    SNAP = tempfile.mkdtemp(prefix="rml-regress-snap.")
    for name in ("check", "rmlsa", "spec", "reviewed_sites.json", "known_findings.json"):
        src = os.path.join(V, name)
        if os.path.isdir(src):
            shutil.copytree(src, os.path.join(SNAP, name), ignore=shutil.ignore_patterns("__pycache__"))
        else:
            shutil.copy(src, os.path.join(SNAP, name))
    os.symlink(os.path.join(V, "driver"), os.path.join(SNAP, "driver"))
    results = {}
    with ThreadPoolExecutor(max_workers=a.jobs) as ex:
        for var, res in ex.map(lambda v: run_variant(v, props, bk), vs):
            results[var[1]] = (var, res)
    miss, alarm, errs, crash = [], [], [], []
    for name in sorted(results):
        var, res = results[name]
        kind, _, _, _, prop = var
        if "error" in res:
            errs.append((name, res["error"]))
            continue
        if res["crashed"]:
            crash.append((name, res["tail"]))
        if kind in ("seeded", "revert"):
            if (not props or prop in props) and prop not in res["fired"]:
                miss.append((name, res["fired"]))
        else:
            if res["fired"]:
                alarm.append((name, res["fired"]))
    if SNAP != V:
        shutil.rmtree(SNAP, ignore_errors=True)
    print("variants: %d   misses: %d   false alarms: %d   errors: %d   crashes: %d" % (len(results), len(miss), len(alarm), len(errs), len(crash)))
    for n, f in miss:
        print("MISS       ", n, {k: v for k, v in f.items()})
    for n, f in alarm:
        print("FALSE-ALARM", n, f)
    for n, e in errs:
        print("ERROR      ", n, e)
    for n, t in crash:
        print("CRASH      ", n, t[-300:].replace("\n", " | "))
    if a.write and not props:
        mp = os.path.join(V, "seeded", "MATRIX.json")
        matrix = json.load(open(mp)) if os.path.exists(mp) else {}
        rp = os.path.join(V, "selftest", "benign", "RESULTS.json")
        sp = os.path.join(V, "selftest", "benign", "SUMMARIES.json")
        summ = json.load(open(sp)) if os.path.exists(sp) else {}
        ben = json.load(open(rp)) if os.path.exists(rp) else {}
        for name, (var, res) in results.items():
            if "error" in res:
                continue
            if var[0] == "seeded":
                matrix[name] = {"fired": res["fired"], "own_property_fires": var[4] in res["fired"], "crashed": res["crashed"]}
            elif var[0] == "benign":
                ben[name] = {"fired": res["fired"], "crashed": res["crashed"], "summary": summ.get(name, "")}
        json.dump(matrix, open(mp, "w"), indent=1, sort_keys=True)
        json.dump(ben, open(rp, "w"), indent=1, sort_keys=True)
    return 1 if (miss or alarm or errs or crash) else 0


if __name__ == "__main__":
    sys.exit(main())
