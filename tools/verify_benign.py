#!/usr/bin/env python3
"""Confirm behaviour-preserving variants in a scratch worktree: each applies on its own, compiles, and the unedited
suite passes with it.  Confirmed ones are copied to /verif/selftest/benign/<prop>-<letter>.diff.
usage: verify_benign.py <results dir> [ids...]   (results dir holds <Cxx>/{x,y,z}.benign.diff)"""
import json, os, re, shutil, subprocess, sys

RES = sys.argv[1]
ONLY = sys.argv[2:]
WT = "/tmp/benignverify_wt"
OUT = "/verif/selftest/benign"


def sh(cmd, cwd=None, timeout=1800):
    p = subprocess.run(cmd, shell=True, cwd=cwd, stdout=subprocess.PIPE, stderr=subprocess.STDOUT, timeout=timeout, text=True)
    return p.returncode, p.stdout


def tests_summary(out):
    passed = sum(int(m.group(1)) for m in re.finditer(r"test result: \w+\. (\d+) passed", out))
    failed = sum(int(m.group(1)) for m in re.finditer(r"test result: \w+\. \d+ passed; (\d+) failed", out))
    return passed, failed


if not os.path.exists(WT):
    sh("git -C /repo worktree add --detach %s HEAD -q" % WT)
    sh("cp -r /repo/target %s/target" % WT)
os.makedirs(OUT, exist_ok=True)
for pid in sorted(os.listdir(RES)):
    if ONLY and pid not in ONLY:
        continue
    for m in os.environ.get("LETTERS", "xyz"):
        patch = os.path.join(RES, pid, "%s.benign.diff" % m)
        if not os.path.exists(patch):
            continue
        sh("git checkout -q -- . && git clean -fdq -e target", cwd=WT)
        rc, out = sh("git apply %s" % patch, cwd=WT)
        if rc != 0:
            print(pid, m, "does not apply", out[-300:])
            continue
        rc, out = sh("cargo test --workspace --no-fail-fast --offline 2>&1 | grep -E '^test result|^error|could not compile'", cwd=WT)
        p, f = tests_summary(out)
        ok = p == 193 and f == 0
        print(pid, m, "suite: %d passed %d failed" % (p, f), "OK" if ok else "REJECTED", flush=True)
        if ok:
            shutil.copy(patch, os.path.join(OUT, "%s-%s.diff" % (pid, m)))
sh("git -C /repo worktree remove --force %s" % WT)
sh("git -C /repo worktree prune")
