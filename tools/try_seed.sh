#!/bin/bash
# usage: try_seed.sh <seed-id> [property ...]   apply a seeded change to /repo, run the checks, undo it
set -u
SEED=$1; shift
PROPS=${@:-all}
cd /verif
git -C /repo apply /verif/seeded/$SEED/patch.diff || { echo "patch does not apply"; exit 2; }
trap 'git -C /repo checkout -- . ' EXIT
for p in $PROPS; do
  ./check $p 2>&1 | grep -E "^VIOLATION|^  rule|^C[0-9]+:|^check:|Traceback|Error" | head -${LINES_MAX:-12}
done
