#!/usr/bin/env python3
"""Regenerates /verif/MANIFEST.json from the rule modules present (one check per property with a module)."""
import json, os, re, sys
V = "/verif"
props = [json.loads(l) for l in open(os.path.join(V, "properties.jsonl"))]
TECH = {
    "C01": "MIR abstract interpretation; per-format writer/reader grammar agreement; path enumeration",
    "C02": "match-table and string-provenance extraction over MIR; writer/reader table agreement",
    "C03": "MIR abstract interpretation (intervals, difference constraints, lengths); panic-site discharge; loop-idiom and allocation-size rules",
    "C04": "interval check of narrowing casts; encoder/decoder grammar agreement from MIR; who-may-touch rule for statics / thread-locals; classification of decoder error paths",
    "C05": "stage-graph extraction; guard/effect analysis of suspend paths; taint of left-over bytes",
    "C06": "typed-read extraction per header format vs specification table; interval analysis and linear byte-weight forms of the basic-header variants; per-path discharge of payload-size and suspend-gate obligations",
    "C07": "output-grammar extraction per header format vs specification table; path-condition analysis of format choice; slice-length obligation at the splitting construct",
    "C08": "exhaustive path-sensitive tabulation of the format decision; flag provenance",
    "C09": "typestate facts at event construction sites (path replay with probes on entry values); provenance and effect analysis per transition",
    "C10": "typestate facts at request/event sites (path replay with probes on entry values); transaction consume/apply effect analysis; counter freshness",
    "C11": "constant/key table extraction; interval arithmetic of digest offsets; argument provenance",
    "C12": "encoder grammar and decoder typed-read extraction vs AMF0 specification table; error-propagation path rule; classification of encoder refusal paths",
    "C13": "finite table extraction (type ids, event codes, layouts) vs specification table; interval bound on chunk size",
    "C14": "call-graph SCC depth-parameter analysis; allocation-size taint rule; loop progress idioms",
    "C15": "effect analysis of suspend paths (no observable effect); single-feed dataflow rule; loop-exit classification of the driver loops",
    "C16": "keyed-state rule: no un-keyed reassembly state across a chunk boundary (provenance + abstract length); key provenance; payload-size obligation per path",
    "C17": "path-sensitive replay of handle_input up to the message loop with helpers followed in place; probe facts (difference constraints window vs counter); single-writer analysis; sibling cross-check",
    "C18": "producer/position order analysis (dominance vs aggregate index); single-funnel who-may-call rule; must-not-follow path rule (no error exit after a successful serialize)",
    "C19": "private-field interval invariant (assume-guarantee); loop stride rule; API-wide panic-site discharge",
    "C20": "abstract evaluation on a finite partition of the input space (order x distance cells as difference constraints, all callees followed in place); linear normal forms modulo 2^32; panic-site discharge",
}
checks = []
na = []
for p in props:
    pid = p["id"]
    if os.path.exists(os.path.join(V, "rmlsa", "rules", pid + ".py")):
        src = open(os.path.join(V, "rmlsa", "rules", pid + ".py")).read()
        m = re.search(r'rep\.explanation = \(\s*((?:"[^"]*"\s*)+)\)', src)
        expl = "".join(re.findall(r'"([^"]*)"', m.group(1))) if m else ""
        decided, _, notdec = expl.partition("Not decided:")
        checks.append({
            "property_id": pid,
            "quick_cmd": "./check %s --tier quick" % pid,
            "thorough_cmd": "./check %s --tier thorough" % pid,
            "evidence_file": "/verif/evidence/%s.json" % pid,
            "replay_cmd_template": "./check %s --explain {path}" % pid,
            "engine": "rmlsa",
            "level_claimed": {
                "category": "other",
                "text": "Static analysis of the type-checked program (rustc MIR facts of the current /repo tree, no execution, no solver): "
                        "the structural necessary conditions listed hold on every path / for every row of the finite tables they range over. "
                        + decided.strip() + " The behaviour as a whole is NOT claimed" + ((": not decided: " + notdec.strip()) if notdec else "."),
                "design_ref": "DESIGN.md section 5, %s" % pid,
            },
            "level_note": "Trusted base: rustc's MIR (nightly, mir-opt-level=0) and the mirfacts driver; the model table of std/bytes/byteorder functions "
                          "(rmlsa/models.py); the specification tables under /verif/spec; the arguments in reviewed_sites.json (tags A-MEM, A-TIME, A-LIB, A-XFN). "
                          "Open entries of known_findings.json are printed as KNOWN-FINDING and do not fail the check.",
            "technique": "static analysis: " + TECH[pid],
        })
    else:
        na.append({"property_id": pid, "reason": "check not built yet (see DESIGN.md section 8); no verdict is claimed"})
man = {
    "version": 1,
    "setup_cmd": "cd /verif/driver && CARGO_NET_OFFLINE=true cargo +nightly build --offline -q",
    "hooks": {
        "guard": "rml_verif",
        "enable": "none needed: the static analysis reads the unmodified program (no hook or instrumentation is compiled into /repo)",
        "baseline_off_cmd": "cd /repo && cargo test --workspace --no-fail-fast --offline",
        "source_commits": [],
        "add_only": True,
    },
    "engines": [{"name": "rmlsa", "path": "/verif/rmlsa", "serves_properties": [c["property_id"] for c in checks],
                 "kind_free_text": "rustc_private MIR facts driver (/verif/driver) + python abstract interpreter, grammar/table extractors and repository-specific rules; decides from source without running it"}],
    "checks": checks,
    "not_applicable": na,
    "notes": "fix: commits in /repo repair defects D1-D9, D11-D13, D15, D17 found by these rules; D10, D14, D16, D18 are open known findings (see known_findings.json, DESIGN.md section 6). "
             "Thorough tier = quick tier plus checker self-tests on a scratch copy (reverted fixes and the seeded changes of the property must fire, the behaviour-preserving variants written for the property must stay silent) whose outcome never changes the exit status.",
}
json.dump(man, open(os.path.join(V, "MANIFEST.json"), "w"), indent=1)
print("checks:", [c["property_id"] for c in checks], "n/a:", [x["property_id"] for x in na])
