#!/usr/bin/env python3
"""(development) print the path-sensitive traces of functions: trace.py <facts dir> <r|w> <pretty-name suffix...>"""
import sys
sys.path.insert(0,'/verif')
from rmlsa.loader import Program
from rmlsa.interp import Ctx
from rmlsa import summaries, grammar
grammar.VERBOSE_CALLS=True
class E: pass
FACTS=sys.argv[1]; sys.argv=sys.argv[1:]
env=E(); env.prog=Program(FACTS); env.ctx=Ctx(env.prog)
summaries.compute_entry_states(env.ctx); summaries.compute_field_invariants(env.ctx); summaries.compute_entry_states(env.ctx)
for name in sys.argv[2:]:
    b=[x for x in env.prog.bodies.values() if x.pretty.endswith(name) and x.kind!='promoted']
    for bb in b:
        ex = grammar.trace(env,bb.key,sys.argv[1])
        print("==",bb.pretty, len(ex.paths), 'truncated' if ex.truncated else '')
        for p in ex.paths[:40]: print("   ", grammar.fmt_path(p))
