#!/usr/bin/env python3
"""(development) facts directory of one recorded variant (cached like regress.py does): vfacts.py <name substring>  -> prints the directory"""
import sys, os
sys.path.insert(0, os.path.dirname(os.path.abspath(__file__)))
import regress
bk = regress.base_key()
os.makedirs(os.path.join(regress.CACHE, "facts"), exist_ok=True)
for v in regress.variants():
    if sys.argv[1] in v[1]:
        d, err = regress.facts_for(v, bk)
        print(d or ("ERROR " + err))
