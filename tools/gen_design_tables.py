#!/usr/bin/env python3
"""Fills the generated tables of DESIGN.md (between BEGIN/END markers) from seeded/MATRIX.json, seeded/*/meta.json and
selftest/benign/RESULTS.json."""
import json, os, re
V = "/verif"
matrix = json.load(open(os.path.join(V, "seeded", "MATRIX.json")))
rows = ["| change | what it does | reported by (rule) |", "|---|---|---|"]
n_own = 0
for s in sorted(matrix):
    mp = os.path.join(V, "seeded", s, "meta.json")
    if not os.path.exists(mp):
        continue
    meta = json.load(open(mp))
    e = matrix[s]
    own = s.split("-")[0]
    fired = e.get("fired", {})
    parts = []
    for p in sorted(fired, key=lambda p: (p != own, p)):
        txt = ", ".join(r.split(".", 1)[1] for r in fired[p])
        parts.append(("**%s** %s" if p == own else "%s %s") % (p, txt))
    if own in fired:
        n_own += 1
    rows.append("| %s | %s | %s |" % (s, meta.get("summary", "").replace("|", "\\|"), "; ".join(parts) if parts else "**not reported**"))
rows.append("")
rows.append("%d changes; %d reported by the check of the property they were written against." % (len(rows) - 3, n_own))
mt = "\n".join(rows)

bp = os.path.join(V, "selftest", "benign", "RESULTS.json")
bt = ""
if os.path.exists(bp):
    res = json.load(open(bp))
    brow = ["| variant | what it changes | result of `./check all` |", "|---|---|---|"]
    for k in sorted(res):
        e = res[k]
        brow.append("| %s | %s | %s |" % (k, e.get("summary", "").replace("|", "\\|"), "silent" if not e.get("fired") else "FALSE ALARM: " + ", ".join(sorted(sum(e["fired"].values(), [])))))
    silent = sum(1 for e in res.values() if not e.get("fired"))
    brow.append("")
    brow.append("%d variants; %d leave every check silent." % (len(res), silent))
    bt = "\n".join(brow)

st = ["| id | rule instances decided | reviewed sites used | open known findings | violations | quick check wall time |", "|----|-----|----|----|----|----|"]
for i in range(1, 21):
    pid = "C%02d" % i
    ep = os.path.join(V, "evidence", pid + ".json")
    if not os.path.exists(ep):
        continue
    e = json.load(open(ep))
    c = e["coverage"]
    st.append("| %s | %d | %s | %s | %d | %.0f s |" % (pid, c["obligations"], len(c.get("reviewed_sites_used", [])) or "–", len(c.get("known_findings_matched", [])) or "–", e.get("violations", 0), e.get("wall_s", 0)))
stt = "\n".join(st)
d = open(os.path.join(V, "DESIGN.md")).read()
d = re.sub(r"<!-- BEGIN:STATUS -->.*?<!-- END:STATUS -->", lambda m: "<!-- BEGIN:STATUS -->\n" + stt + "\n<!-- END:STATUS -->", d, flags=re.S)
d = re.sub(r"<!-- BEGIN:MATRIX -->.*?<!-- END:MATRIX -->", lambda m: "<!-- BEGIN:MATRIX -->\n" + mt + "\n<!-- END:MATRIX -->", d, flags=re.S)
d = re.sub(r"<!-- BEGIN:BENIGN -->.*?<!-- END:BENIGN -->", lambda m: "<!-- BEGIN:BENIGN -->\n" + bt + "\n<!-- END:BENIGN -->", d, flags=re.S)
open(os.path.join(V, "DESIGN.md"), "w").write(d)
print("matrix rows:", len(rows) - 4, "benign rows:", bt.count("\n"))
