#!/usr/bin/env python3
"""Runs every check against every behaviour-preserving variant (applied to /repo, undone straight afterwards); every
check must stay silent.  usage: benign_matrix.py [names...]   -> /verif/selftest/benign/RESULTS.json"""
import json, os, re, subprocess, sys
V = "/verif"
B = os.path.join(V, "selftest", "benign")
names = sorted(f for f in os.listdir(B) if f.endswith((".diff", ".patch")))
if len(sys.argv) > 1:
    names = [n for n in names if any(n.startswith(a) for a in sys.argv[1:])]
out_path = os.path.join(B, "RESULTS.json")
res = json.load(open(out_path)) if os.path.exists(out_path) else {}
summ = json.load(open(os.path.join(B, "SUMMARIES.json"))) if os.path.exists(os.path.join(B, "SUMMARIES.json")) else {}
for n in names:
    r = subprocess.run(["git", "-C", "/repo", "apply", os.path.join(B, n)])
    if r.returncode != 0:
        res[n] = {"error": "patch does not apply", "summary": summ.get(n, "")}
        continue
    try:
        p = subprocess.run(["./check", "all", "--no-evidence"], cwd=V, stdout=subprocess.PIPE, stderr=subprocess.STDOUT, text=True)
        fired = {}
        for m in re.finditer(r"^  rule (C\d+)\.(\S+) at", p.stdout, re.M):
            fired.setdefault(m.group(1), set()).add(m.group(1) + "." + m.group(2))
        crashed = "Traceback" in p.stdout
        res[n] = {"fired": {k: sorted(v) for k, v in sorted(fired.items())}, "crashed": crashed, "summary": summ.get(n, "")}
        print(n, "silent" if not fired and not crashed else "ALARM %s" % {k: sorted(v) for k, v in fired.items()}, "CRASH" if crashed else "", flush=True)
    finally:
        subprocess.run(["git", "-C", "/repo", "checkout", "--", "."])
    json.dump(res, open(out_path, "w"), indent=1, sort_keys=True)
