#!/usr/bin/env python3
"""Runs every check against every seeded change (applied to /repo, undone straight afterwards) and records
which properties report a violation.  usage: seed_matrix.py [seed ids...]   -> /verif/seeded/MATRIX.json"""
import json, os, re, subprocess, sys
V = "/verif"
seeds = sorted(d for d in os.listdir(os.path.join(V, "seeded")) if os.path.isdir(os.path.join(V, "seeded", d)))
if len(sys.argv) > 1:
    seeds = [s for s in seeds if s in sys.argv[1:]]
out_path = os.path.join(V, "seeded", "MATRIX.json")
matrix = json.load(open(out_path)) if os.path.exists(out_path) else {}
for s in seeds:
    patch = os.path.join(V, "seeded", s, "patch.diff")
    r = subprocess.run(["git", "-C", "/repo", "apply", patch])
    if r.returncode != 0:
        matrix[s] = {"error": "patch does not apply"}
        continue
    try:
        p = subprocess.run(["./check", "all", "--no-evidence"], cwd=V, stdout=subprocess.PIPE, stderr=subprocess.STDOUT, text=True)
        fired = {}
        for m in re.finditer(r"^  rule (C\d+)\.(\S+) at", p.stdout, re.M):
            fired.setdefault(m.group(1), set()).add(m.group(1) + "." + m.group(2))
        crashed = "Traceback" in p.stdout
        matrix[s] = {"fired": {k: sorted(v) for k, v in sorted(fired.items())}, "own_property_fires": s.split("-")[0] in fired, "crashed": crashed}
        print(s, "OWN" if s.split("-")[0] in fired else "own-miss", {k: len(v) for k, v in fired.items()}, "CRASH" if crashed else "", flush=True)
    finally:
        subprocess.run(["git", "-C", "/repo", "checkout", "--", "."])
    json.dump(matrix, open(out_path, "w"), indent=1, sort_keys=True)
