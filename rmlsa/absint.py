"""Abstract interpreter over MIR facts: forward, intraprocedural, with callee summaries.

Domain per program point (see DESIGN.md section 3.2):
  * mem    : location -> symbolic value (SV, a hashable term; global value numbering)
  * epoch  : memory root -> tag of the last havoc (names of never-written locations embed it)
  * doms   : SV -> (lo, hi, excluded points)        non-relational integer / discriminant domain
  * zone   : (a, b) -> k  meaning  a - b <= k        difference constraints between SVs
No path conditions are kept beyond these must-facts and nothing is handed to a solver.
"""
import re
from .loader import Place, op_place, const_int, ty_int_range, span_str

INF = float("inf")

# ------------------------------------------------------------------------------------ types
TYINFO = {}


def tykey(t):
    s = t["s"]
    if s not in TYINFO:
        TYINFO[s] = t
    return s


def ty_range(s):
    t = TYINFO.get(s)
    if t is None:
        return None
    return ty_int_range(t)


SVTY = {}  # sv -> type key (only where known)


def norm_name(p):
    """pretty def path with generic arguments removed: alloc::vec::Vec::<T, A>::push -> alloc::vec::Vec::push"""
    if p is None:
        return ""
    out = []
    depth = 0
    i = 0
    # keep the leading '<' of qualified paths "<X as Y>::m"
    if p.startswith("<"):
        return p
    while i < len(p):
        c = p[i]
        if p.startswith("::<", i) and depth == 0 and not p.startswith("::<impl ", i):
            depth = 1
            i += 3
            continue
        if depth > 0:
            if c == "<":
                depth += 1
            elif c == ">":
                depth -= 1
            i += 1
            continue
        out.append(c)
        i += 1
    return "".join(out)


# ------------------------------------------------------------------------------------ SV helpers
def K(ty, v):
    return ("k", ty, v)


def is_const(sv):
    return isinstance(sv, tuple) and sv and sv[0] == "k"


def const_val(sv):
    if is_const(sv) and isinstance(sv[2], int):
        return sv[2]
    return None


def mk_loc(root, proj=()):
    return (root, tuple(proj))


def sv_type(sv):
    if not isinstance(sv, tuple):
        return None
    h = sv[0]
    if h == "k":
        return sv[1]
    if h in ("bin",):
        return sv[2]
    if h in ("cast", "fcast"):
        return sv[1]
    if h == "cmp" or h == "not" or h == "streq" or h == "seqeq" or h == "ovf":
        return "bool"
    return SVTY.get(sv)


def set_ty(sv, ty):
    if ty is not None and sv not in SVTY:
        SVTY[sv] = ty
    return sv


def subterms(sv, depth=0):
    """all SV subterms (bounded depth)"""
    yield sv
    if depth > 6 or not isinstance(sv, tuple):
        return
    for x in sv[1:]:
        if isinstance(x, tuple):
            if x and isinstance(x[0], str) and x[0] in SV_HEADS:
                yield from subterms(x, depth + 1)
            else:
                for y in x:
                    if isinstance(y, tuple) and y and isinstance(y[0], str) and y[0] in SV_HEADS:
                        yield from subterms(y, depth + 1)
                    elif isinstance(y, tuple):
                        for z in y:
                            if isinstance(z, tuple) and z and isinstance(z[0], str) and z[0] in SV_HEADS:
                                yield from subterms(z, depth + 1)


SV_HEADS = {"vagg", "k", "param", "ld", "call", "bin", "cmp", "not", "neg", "cast", "fcast", "discr", "agg", "ref", "proj", "phi",
            "upd", "try", "elem", "ovf", "streq", "seqeq", "min", "max", "fresh", "model"}


def sv_str(sv, depth=0):
    if not isinstance(sv, tuple) or not sv:
        return repr(sv)
    if depth > 5:
        return "..."
    h = sv[0]
    r = lambda x: sv_str(x, depth + 1)
    if h == "k":
        v = sv[2]
        if isinstance(v, tuple) and v and v[0] == "s":
            return repr(v[1])
        if isinstance(v, tuple) and v and v[0] == "fn":
            return "fn:" + v[1]
        return "%s_%s" % (v, sv[1])
    if h == "param":
        return "arg%d" % sv[1]
    if h == "ld":
        return "load(%s@%s)" % (loc_str(sv[1], depth + 1), epoch_str(sv[2]))
    if h == "call":
        return "call@%s(%s)" % (site_str(sv[1]), short(sv[2]))
    if h == "bin":
        return "(%s %s %s)" % (r(sv[3]), sv[1], r(sv[4]))
    if h == "cmp":
        return "(%s %s %s)" % (r(sv[2]), sv[1], r(sv[3]))
    if h == "not":
        return "!%s" % r(sv[1])
    if h == "cast":
        return "(%s as %s)" % (r(sv[2]), sv[1])
    if h == "fcast":
        return "(%s as~ %s)" % (r(sv[2]), sv[1])
    if h == "discr":
        return "discr(%s)" % r(sv[1])
    if h == "agg":
        kind = sv[1] if isinstance(sv[1], str) else str(sv[1])
        return "%s#%s{%s}" % (short(kind), sv[2], ", ".join(r(x) for x in sv[3]))
    if h == "vagg":
        return "%s{%s}" % (short(sv[1]), " | ".join("#%s(%s)" % (vi, ", ".join(r(x) for x in f)) for vi, f in sv[2]))
    if h == "ref":
        return "&%s" % loc_str(sv[1], depth + 1)
    if h == "proj":
        return "%s%s" % (r(sv[1]), proj_str(sv[2]))
    if h == "phi":
        return "phi(bb%s,%s)" % (sv[1], loc_str(sv[2], depth + 1))
    if h == "upd":
        return "%s with{%s}" % (r(sv[1]), ", ".join("%s=%s" % (proj_str(p), r(v)) for p, v in sv[2]))
    if h == "try":
        return "try(%s)" % r(sv[1])
    if h == "elem":
        return "elem@%s%s" % (site_str(sv[1]), "" if len(sv) < 3 or sv[2] is None else "[%s]" % sv[2])
    if h in ("min", "max"):
        return "%s(%s, %s)" % (h, r(sv[2]), r(sv[3]))
    if h == "streq" or h == "seqeq":
        return "%s(%s, %s)" % (h, r(sv[1]), r(sv[2]))
    if h == "model":
        return "%s(%s)" % (sv[1], ", ".join(r(x) for x in sv[2:]))
    return str(sv)


def short(p):
    if not isinstance(p, str):
        return str(p)
    parts = p.split("::")
    return "::".join(parts[-2:]) if len(parts) > 2 else p


def site_str(s):
    if isinstance(s, tuple):
        return ":".join(str(x) if not isinstance(x, str) else short(x) for x in s)
    return str(s)


def epoch_str(e):
    if e == "entry":
        return "entry"
    return site_str(e)


def proj_str(proj):
    s = ""
    for e in proj:
        if e == "*":
            s += ".*"
        elif e[0] == "f":
            s += ".%s" % e[2]
        elif e[0] == "dc":
            s += " as %s" % e[2]
        elif e[0] == "len":
            s += ".len"
        elif e[0] == "ix":
            s += "[%s]" % (e[1] if len(e) > 1 else "_")
        else:
            s += ".%s" % (e,)
    return s


def loc_str(loc, depth=0):
    root, proj = loc
    if root[0] == "L":
        base = "_%d" % root[1]
    elif root[0] == "P":
        base = "*(%s)" % sv_str(root[1], depth + 1)
    else:
        base = "%s@%s" % (root[0], site_str(root[1]))
    return base + proj_str(proj)


# ------------------------------------------------------------------------------------ domain values
class Dom:
    __slots__ = ("lo", "hi", "excl")

    def __init__(self, lo, hi, excl=frozenset()):
        self.lo = lo
        self.hi = hi
        self.excl = excl
        self._norm()

    def _norm(self):
        if self.excl:
            ex = self.excl
            lo, hi = self.lo, self.hi
            changed = True
            while changed and lo <= hi:
                changed = False
                if lo in ex:
                    lo += 1
                    changed = True
                if hi in ex and hi >= lo:
                    hi -= 1
                    changed = True
            self.lo, self.hi = lo, hi
            self.excl = frozenset(x for x in ex if lo < x < hi)

    def empty(self):
        return self.lo > self.hi

    def meet(self, o):
        return Dom(max(self.lo, o.lo), min(self.hi, o.hi), self.excl | o.excl)

    def hull(self, o):
        if self.empty():
            return o
        if o.empty():
            return self
        lo, hi = min(self.lo, o.lo), max(self.hi, o.hi)
        ex = frozenset(x for x in (self.excl & o.excl)) | frozenset(
            x for x in self.excl if not (o.lo <= x <= o.hi)) | frozenset(x for x in o.excl if not (self.lo <= x <= self.hi))
        return Dom(lo, hi, ex)

    def contains(self, v):
        return self.lo <= v <= self.hi and v not in self.excl

    def values(self, limit=64):
        if self.hi - self.lo + 1 > limit:
            return None
        return [v for v in range(self.lo, self.hi + 1) if v not in self.excl]

    def __eq__(self, o):
        return isinstance(o, Dom) and self.lo == o.lo and self.hi == o.hi and self.excl == o.excl

    def __hash__(self):
        return hash((self.lo, self.hi, self.excl))

    def __repr__(self):
        return "[%s,%s]%s" % (self.lo, self.hi, ("\\%s" % sorted(self.excl)) if self.excl else "")


TOP = Dom(-INF, INF)


def dom_of_type(ty):
    r = ty_range(ty) if ty else None
    if r is None:
        return TOP
    return Dom(r[0], r[1])


# ------------------------------------------------------------------------------------ state
class State:
    __slots__ = ("mem", "epoch", "doms", "zone", "dead", "_prop")

    def __init__(self):
        self.mem = {}
        self.epoch = {}
        self.doms = {}
        self.zone = {}
        self.dead = False
        self._prop = False

    def copy(self):
        s = State()
        s.mem = dict(self.mem)
        s.epoch = dict(self.epoch)
        s.doms = dict(self.doms)
        s.zone = dict(self.zone)
        s.dead = self.dead
        return s

    def same(self, o):
        return self.mem == o.mem and self.epoch == o.epoch and self.doms == o.doms and self.zone == o.zone

    # -------------------------------------------------------------- memory
    def read(self, loc):
        root, proj = loc
        if root[0] == "PR" and loc not in self.mem:
            base = PROMOTED_VALUES.get(root)
            if base is not None and not (isinstance(base, tuple) and base[0] == "deref-of"):
                return project(base, proj) if proj else base
        if root[0] == "V" and not proj:
            # a slice view created by indexing with a range: describe it by what it is a view of
            of = self.mem.get((root, (("of",),)))
            if isinstance(of, tuple) and of[0] == "ref":
                under = self.read(of[1])
                st = self.mem.get((root, (("start",),)), ("k", "usize", 0))
                ln = self.mem.get((root, (("len",),)))
                return ("model", "view", under, st, ln)
        v = self.mem.get(loc)
        if v is None:
            found = False
            for cut in range(len(proj) - 1, -1, -1):
                p = (root, proj[:cut])
                pv = self.mem.get(p)
                if pv is not None:
                    v = project(pv, proj[cut:])
                    found = True
                    break
            if not found:
                v = ("ld", loc, self.epoch_of(loc))
        # fold explicit sub-entries into the value read (whole-aggregate reads)
        subs = None
        n = len(proj)
        for (r2, p2), sv in self.mem.items():
            if r2 == root and len(p2) > n and p2[:n] == proj:
                if subs is None:
                    subs = []
                subs.append((p2[n:], sv))
        if subs:
            v = apply_updates(v, subs)
        return v

    def epoch_of(self, loc):
        root, proj = loc
        r = self.epoch.get(root)
        f = self.epoch.get((root, proj[0])) if proj else None
        if r is None and f is None:
            return "entry"
        if f is None:
            return r
        return (r, f)

    def write(self, loc, v):
        root, proj = loc
        if WRITE_LOG is not None and root[0] == "P":
            WRITE_LOG.add(loc)
        n = len(proj)
        dead = [k for k in self.mem if k[0] == root and len(k[1]) > n and k[1][:n] == proj]
        for k in dead:
            del self.mem[k]
        self.mem[loc] = v

    def havoc(self, loc, tag):
        root, proj = loc
        if WRITE_LOG is not None and root[0] == "P":
            WRITE_LOG.add(loc)
        n = len(proj)
        dead = [k for k in self.mem if k[0] == root and len(k[1]) >= n and k[1][:n] == proj]
        for k in dead:
            del self.mem[k]
        if proj:
            self.epoch[(root, proj[0])] = tag
        else:
            self.epoch[root] = tag
            for k in [k for k in self.epoch if isinstance(k, tuple) and len(k) == 2 and k[0] == root and k != root]:
                del self.epoch[k]
        # shadow any ancestor entry
        for cut in range(len(proj)):
            if (root, proj[:cut]) in self.mem:
                self.mem[loc] = ("ld", loc, tag)
                break

    # -------------------------------------------------------------- integer domain
    def dom(self, sv, depth=0):
        d = self.doms.get(sv)
        base = self._default_dom(sv, depth)
        if d is None:
            return base
        return d.meet(base)

    def _default_dom(self, sv, depth):
        if not isinstance(sv, tuple) or depth > 8:
            return TOP
        h = sv[0]
        if h == "k":
            v = sv[2]
            if isinstance(v, bool):
                v = 1 if v else 0
            if isinstance(v, int):
                return Dom(v, v)
            return TOP
        if h == "cmp" or h == "not" or h == "streq" or h == "seqeq" or h == "ovf":
            return Dom(0, 1)
        if (h == "ld" and sv[1][1] and sv[1][1][-1] == ("len",)) or (h == "proj" and sv[2] and sv[2][-1] == ("len",)):
            # the length of a slice / Vec / String: allocations never exceed isize::MAX bytes (std::alloc / slice documentation)
            return Dom(0, 2 ** 63 - 1)
        if h == "cast":
            inner = self.dom(sv[2], depth + 1)
            tr = dom_of_type(sv[1])
            if inner.lo >= tr.lo and inner.hi <= tr.hi:
                return inner
            # reinterpretation / truncation: exact when the whole interval wraps by the same multiple of the width
            if tr.lo != -INF and tr.hi != INF and inner.lo != -INF and inner.hi != INF:
                width = tr.hi - tr.lo + 1
                q1, q2 = (inner.lo - tr.lo) // width, (inner.hi - tr.lo) // width
                if q1 == q2:
                    return Dom(inner.lo - q1 * width, inner.hi - q1 * width)
            return tr
        if h == "bin":
            op, ty, a, b = sv[1], sv[2], sv[3], sv[4]
            tr = dom_of_type(ty)
            da, db = self.dom(a, depth + 1), self.dom(b, depth + 1)
            m = math_interval(op.rstrip("W"), da, db)
            if m is None:
                return tr
            if op in ("Sub", "SubW") and depth < 3:
                # the difference of two values related by a difference constraint
                hi, lo = self.diff_hi(a, b), self.diff_hi(b, a)
                m = Dom(max(m.lo, -lo) if lo is not None else m.lo, min(m.hi, hi) if hi is not None else m.hi)
                if m.lo > m.hi:
                    return tr
            if op.endswith("W"):
                # wrapping: exact if the mathematical result fits, or lies entirely one wrap away
                if m.lo >= tr.lo and m.hi <= tr.hi:
                    return m
                if tr.lo != -INF and tr.hi != INF and m.lo != -INF and m.hi != INF:
                    width = tr.hi - tr.lo + 1
                    q1, q2 = (m.lo - tr.lo) // width, (m.hi - tr.lo) // width
                    if q1 == q2:
                        return Dom(m.lo - q1 * width, m.hi - q1 * width)
                return tr
            return m.meet(tr)
        if h in ("min", "max"):
            da, db = self.dom(sv[2], depth + 1), self.dom(sv[3], depth + 1)
            if h == "min":
                return Dom(min(da.lo, db.lo), min(da.hi, db.hi))
            return Dom(max(da.lo, db.lo), max(da.hi, db.hi))
        if h == "discr":
            inner = sv[1]
            if isinstance(inner, tuple) and inner[0] == "vagg":
                ds = sorted(DISCR_OF.get((inner[1], vi), vi) for vi, _ in inner[2])
                return Dom(ds[0], ds[-1], frozenset(x for x in range(ds[0], ds[-1] + 1) if x not in ds))
            nv = DISCR_RANGE.get(sv_adt(sv[1]))
            if nv is not None:
                return Dom(nv[0], nv[1])
            return dom_of_type("isize") if "isize" in TYINFO else TOP
        t = sv_type(sv)
        return dom_of_type(t)

    def set_dom(self, sv, d):
        if is_const(sv):
            v = const_val(sv)
            if v is not None and not d.contains(v):
                self.dead = True
            return
        cur = self.dom(sv)
        nd = cur.meet(d)
        if nd.empty():
            self.dead = True
            return
        changed = nd != cur
        if nd != self._default_dom(sv, 0):
            self.doms[sv] = nd
        if changed and self.zone and not getattr(self, "_prop", False):
            # one step of bound propagation along difference constraints
            self._prop = True
            try:
                for (a, b), k in list(self.zone.items()):
                    if a == sv and nd.lo != -INF:
                        self.set_dom(b, Dom(nd.lo - k, INF))          # a - b <= k  =>  b >= a - k
                    elif b == sv and nd.hi != INF:
                        self.set_dom(a, Dom(-INF, nd.hi + k))         # a <= b + k
                    if self.dead:
                        break
            finally:
                self._prop = False
        # propagate through value-preserving wrappers
        if isinstance(sv, tuple) and sv[0] == "cast":
            inner = self.dom(sv[2])
            tr = dom_of_type(sv[1])
            if inner.lo >= tr.lo and inner.hi <= tr.hi:
                self.set_dom(sv[2], nd)
        if isinstance(sv, tuple) and sv[0] == "bin" and sv[1] == "Mul" and nd.lo >= 1:
            # a product of naturals is positive only if both factors are
            a, b = sv[3], sv[4]
            if self.dom(a).lo >= 0 and self.dom(b).lo >= 0:
                self.set_dom(a, Dom(1, INF))
                if not self.dead:
                    self.set_dom(b, Dom(1, INF))
        if isinstance(sv, tuple) and sv[0] == "bin" and not sv[1].endswith("W"):
            # x + c in [lo,hi]  =>  x in [lo-c, hi-c]   (checked ops: mathematical)
            op, a, b = sv[1], sv[3], sv[4]
            cb = const_val(b)
            ca = const_val(a)
            if op == "Add" and cb is not None:
                self.set_dom(a, Dom(nd.lo - cb, nd.hi - cb))
            elif op == "Add" and ca is not None:
                self.set_dom(b, Dom(nd.lo - ca, nd.hi - ca))
            elif op == "Sub" and cb is not None:
                self.set_dom(a, Dom(nd.lo + cb, nd.hi + cb))

    # -------------------------------------------------------------- zone (difference constraints)
    def norm(self, sv):
        """(base, offset): sv == base + offset mathematically in this state; base None for constants"""
        off = 0
        for _ in range(12):
            if not isinstance(sv, tuple):
                break
            h = sv[0]
            if h == "k":
                v = const_val(sv)
                if v is None:
                    break
                return (None, off + v)
            if h == "cast":
                inner = self.dom(sv[2])
                tr = dom_of_type(sv[1])
                if inner.lo >= tr.lo and inner.hi <= tr.hi:
                    sv = sv[2]
                    continue
                break
            if h == "bin" and sv[1] in ("Add", "Sub"):
                a, b = sv[3], sv[4]
                cb, ca = const_val(b), const_val(a)
                if cb is not None:
                    off += cb if sv[1] == "Add" else -cb
                    sv = a
                    continue
                if ca is not None and sv[1] == "Add":
                    off += ca
                    sv = b
                    continue
            break
        return (sv, off)

    def add_le(self, a, b, k):
        """record a - b <= k"""
        (ba, oa), (bb, ob) = self.norm(a), self.norm(b)
        k = k - oa + ob
        if ba is None and bb is None:
            if 0 > k:
                self.dead = True
            return
        if ba is None:
            # -bb <= k  => bb >= -k
            self.set_dom(bb, Dom(-k, INF))
            return
        if bb is None:
            self.set_dom(ba, Dom(-INF, k))
            return
        if ba == bb:
            if 0 > k:
                self.dead = True
            return
        self._zone_add(ba, bb, k)
        # tighten unary bounds
        da, db = self.dom(ba), self.dom(bb)
        if db.hi != INF:
            self.set_dom(ba, Dom(-INF, db.hi + k))
        if da.lo != -INF:
            self.set_dom(bb, Dom(da.lo - k, INF))

    def _zone_add(self, a, b, k):
        cur = self.zone.get((a, b))
        if cur is not None and cur <= k:
            return
        new = {(a, b): k}
        for (x, y), k1 in list(self.zone.items()):
            if y == a and x != b:
                new[(x, b)] = min(new.get((x, b), INF), k1 + k)
            if x == b and y != a:
                new[(a, y)] = min(new.get((a, y), INF), k + k1)
        for key, kk in new.items():
            c = self.zone.get(key)
            if c is None or kk < c:
                self.zone[key] = kk
        # contradiction a-b<=k and b-a<=k' with k+k'<0
        back = self.zone.get((b, a))
        if back is not None and back + self.zone[(a, b)] < 0:
            self.dead = True

    def diff_hi(self, a, b):
        """smallest known k with a - b <= k from the recorded difference constraints (None if there is none)"""
        (ba, oa), (bb, ob) = self.norm(a), self.norm(b)
        if ba is None or bb is None:
            return None
        if ba == bb:
            return oa - ob
        z = self.zone.get((ba, bb))
        return None if z is None else z + oa - ob

    def prove_le(self, a, b, k):
        """is a - b <= k implied?"""
        (ba, oa), (bb, ob) = self.norm(a), self.norm(b)
        k = k - oa + ob
        if ba is None and bb is None:
            return 0 <= k
        if ba is not None and ba == bb:
            return 0 <= k
        da = self.dom(ba) if ba is not None else Dom(0, 0)
        db = self.dom(bb) if bb is not None else Dom(0, 0)
        if da.hi - db.lo <= k:
            return True
        if ba is not None and bb is not None:
            z = self.zone.get((ba, bb))
            if z is not None and z <= k:
                return True
            # structural axioms: min(x,y) <= x,y ; max(x,y) >= x,y ; x - y (checked) <= x
            if self._axiom_le(ba, bb, k):
                return True
            # one-step transitivity through zone
            for (x, y), k1 in self.zone.items():
                if x == ba and y != bb:
                    k2 = self.zone.get((y, bb))
                    if k2 is not None and k1 + k2 <= k:
                        return True
                    # through unary bounds of y / bb
        return False

    def _axiom_le(self, a, b, k, depth=0):
        """a - b <= k from the structure of the terms"""
        if depth > 3:
            return False
        if isinstance(a, tuple) and a[0] == "min":
            for x in (a[2], a[3]):
                if x == b and k >= 0:
                    return True
                if self.prove_le_shallow(x, b, k, depth + 1):
                    return True
        if isinstance(b, tuple) and b[0] == "max":
            for x in (b[2], b[3]):
                if x == a and k >= 0:
                    return True
                if self.prove_le_shallow(a, x, k, depth + 1):
                    return True
        if isinstance(a, tuple) and a[0] == "max":
            if all(self.prove_le_shallow(x, b, k, depth + 1) for x in (a[2], a[3])):
                return True
        if isinstance(b, tuple) and b[0] == "min":
            if all(self.prove_le_shallow(a, x, k, depth + 1) for x in (b[2], b[3])):
                return True
        # (x - y) <= x when y >= 0 ; checked subtraction
        if isinstance(a, tuple) and a[0] == "bin" and a[1] == "Sub":
            if self.dom(a[4]).lo >= 0 and self.prove_le_shallow(a[3], b, k, depth + 1):
                return True
        # a <= (x + y) when y >= 0 and a <= x
        if isinstance(b, tuple) and b[0] == "bin" and b[1] == "Add":
            if self.dom(b[4]).lo >= 0 and self.prove_le_shallow(a, b[3], k, depth + 1):
                return True
            if self.dom(b[3]).lo >= 0 and self.prove_le_shallow(a, b[4], k, depth + 1):
                return True
        return False

    def prove_le_shallow(self, a, b, k, depth):
        (ba, oa), (bb, ob) = self.norm(a), self.norm(b)
        k2 = k - oa + ob
        if ba is None and bb is None:
            return 0 <= k2
        if ba is not None and ba == bb:
            return 0 <= k2
        da = self.dom(ba) if ba is not None else Dom(0, 0)
        db = self.dom(bb) if bb is not None else Dom(0, 0)
        if da.hi - db.lo <= k2:
            return True
        if ba is not None and bb is not None:
            z = self.zone.get((ba, bb))
            if z is not None and z <= k2:
                return True
            return self._axiom_le(ba, bb, k2, depth)
        return False

    def prove_lt(self, a, b):
        return self.prove_le(a, b, -1)

    def prove_eq(self, a, b):
        if a == b:
            return True
        return self.prove_le(a, b, 0) and self.prove_le(b, a, 0)

    # -------------------------------------------------------------- boolean refinement
    def assume(self, sv, val):
        """refine the state with  sv == val  (val an int); sv boolean / integer / discriminant"""
        if self.dead:
            return
        if is_const(sv):
            v = sv[2]
            if isinstance(v, bool):
                v = 1 if v else 0
            if isinstance(v, int) and v != val:
                self.dead = True
            return
        self.set_dom(sv, Dom(val, val))
        if self.dead or not isinstance(sv, tuple):
            return
        h = sv[0]
        if h == "not":
            self.assume(sv[1], 1 - val)
        elif h == "cmp":
            op, a, b = sv[1], sv[2], sv[3]
            if not val:
                op = {"Lt": "Ge", "Le": "Gt", "Gt": "Le", "Ge": "Lt", "Eq": "Ne", "Ne": "Eq"}[op]
            self.assume_cmp(op, a, b)
        elif h == "cast":
            inner = self.dom(sv[2])
            tr = dom_of_type(sv[1])
            if inner.lo >= tr.lo and inner.hi <= tr.hi:
                self.assume(sv[2], val)
        elif h == "bin" and sv[1] in ("BitAnd", "BitOr") and sv[2] == "bool":
            a, b = sv[3], sv[4]
            if sv[1] == "BitAnd" and val == 1:
                self.assume(a, 1)
                self.assume(b, 1)
            if sv[1] == "BitOr" and val == 0:
                self.assume(a, 0)
                self.assume(b, 0)

    def assume_not(self, sv, vals):
        """sv not in vals"""
        if self.dead:
            return
        if is_const(sv):
            v = const_val(sv)
            if v in vals:
                self.dead = True
            return
        self.set_dom(sv, Dom(-INF, INF, frozenset(vals)))
        d = self.dom(sv)
        if d.lo == d.hi:
            self.assume(sv, d.lo)

    def _top_bit_test(self, op, a, b):
        """(x & 2^k) == 0 / != 0 where 2^k is the top bit of x's unsigned type: x < 2^k / x >= 2^k"""
        for m, z in ((a, b), (b, a)):
            if const_val(z) == 0 and isinstance(m, tuple) and m[0] == "bin" and m[1] == "BitAnd":
                for x, k in ((m[3], m[4]), (m[4], m[3])):
                    ck = const_val(k)
                    tr = dom_of_type(m[2])
                    if isinstance(ck, int) and ck > 0 and ck & (ck - 1) == 0 and tr.lo == 0 and tr.hi == 2 * ck - 1 and not is_const(x):
                        if op == "Eq":
                            self.set_dom(x, Dom(0, ck - 1))
                        else:
                            self.set_dom(x, Dom(ck, tr.hi))
                        return True
        return False

    def assume_cmp(self, op, a, b):
        if op in ("Eq", "Ne") and self._top_bit_test(op, a, b):
            return
        if op == "Lt":
            self.add_le(a, b, -1)
        elif op == "Le":
            self.add_le(a, b, 0)
        elif op == "Gt":
            self.add_le(b, a, -1)
        elif op == "Ge":
            self.add_le(b, a, 0)
        elif op == "Eq":
            # discriminant / bool equalities refine both sides
            self.add_le(a, b, 0)
            self.add_le(b, a, 0)
            da, db = self.dom(a), self.dom(b)
            m = da.meet(db)
            self.set_dom(a, m)
            if not self.dead:
                self.set_dom(b, m)
        elif op == "Ne":
            ca, cb = const_val(a), const_val(b)
            da, db = self.dom(a), self.dom(b)
            if da.lo == da.hi and ca is None:
                ca = da.lo
            if db.lo == db.hi and cb is None:
                cb = db.lo
            if cb is not None and not is_const(a):
                self.assume_not(a, [cb])
            if ca is not None and not is_const(b):
                self.assume_not(b, [ca])
            if ca is not None and cb is not None and ca == cb:
                self.dead = True
            if a == b:
                self.dead = True

    def eval_cmp(self, op, a, b):
        """True / False / None"""
        if op == "Lt":
            if self.prove_le(a, b, -1):
                return True
            if self.prove_le(b, a, 0):
                return False
        elif op == "Le":
            if self.prove_le(a, b, 0):
                return True
            if self.prove_le(b, a, -1):
                return False
        elif op == "Gt":
            return self.eval_cmp("Lt", b, a)
        elif op == "Ge":
            return self.eval_cmp("Le", b, a)
        elif op == "Eq":
            if a == b:
                return True
            da, db = self.dom(a), self.dom(b)
            if da.lo == da.hi == db.lo == db.hi:
                return True
            if da.meet(db).empty():
                return False
            if self.prove_le(a, b, -1) or self.prove_le(b, a, -1):
                return False
            if self.prove_eq(a, b):
                return True
        elif op == "Ne":
            r = self.eval_cmp("Eq", a, b)
            return None if r is None else (not r)
        return None


PROMOTED_VALUES = {}   # ("PR", promoted body key) -> value SV of the promoted constant
WRITE_LOG = None   # set of written pointee locations while an Interp runs (write-set summaries)
DISCR_RANGE = {}   # adt key -> (lo, hi) of discriminants
DISCR_OF = {}      # (adt key, variant index) -> discriminant value
ADT_OF_SV = {}


def sv_adt(sv):
    """adt key of the value an SV denotes, if known"""
    t = sv_type(sv)
    if t is None:
        return None
    ti = TYINFO.get(t)
    if ti and ti.get("k") == "adt":
        return ti["adt"]
    return None


def math_interval(op, a, b):
    try:
        if op == "Add":
            return Dom(a.lo + b.lo, a.hi + b.hi)
        if op == "Sub":
            return Dom(a.lo - b.hi, a.hi - b.lo)
        if op == "Mul":
            if INF in (abs(a.lo), abs(a.hi), abs(b.lo), abs(b.hi)):
                if a.lo >= 0 and b.lo >= 0:
                    return Dom(a.lo * b.lo if (a.lo and b.lo) else 0, INF)
                return None
            c = [a.lo * b.lo, a.lo * b.hi, a.hi * b.lo, a.hi * b.hi]
            return Dom(min(c), max(c))
        if op == "Div":
            if b.lo > 0 and a.lo >= 0:
                hi = a.hi // b.lo if a.hi != INF else INF
                lo = a.lo // b.hi if b.hi != INF else 0
                return Dom(lo, hi)
            return None
        if op == "Rem":
            if b.lo > 0 and a.lo >= 0:
                hi = b.hi - 1
                if a.hi != INF and a.hi < hi:
                    hi = a.hi
                return Dom(0, hi)
            return None
        if op == "BitAnd":
            if a.lo >= 0 and b.lo == b.hi and b.lo > 0 and a.hi != INF:
                m_ = int(b.lo)
                low = (m_ & -m_).bit_length() - 1             # index of the lowest set bit of the mask
                if m_ == ((1 << m_.bit_length()) - 1) ^ ((1 << low) - 1) and int(a.hi) < (1 << m_.bit_length()):
                    # contiguous mask reaching the top of the value's range: x & m = (x >> low) << low, monotone in x
                    return Dom(int(a.lo) & m_, int(a.hi) & m_)
                if low == 0 and m_ == (1 << m_.bit_length()) - 1 and (int(a.lo) >> m_.bit_length()) == (int(a.hi) >> m_.bit_length()):
                    return Dom(int(a.lo) & m_, int(a.hi) & m_)       # low-bit mask over a range inside one block
            if a.lo >= 0 and b.lo >= 0:
                return Dom(0, min(a.hi, b.hi))
            if b.lo >= 0:
                return Dom(0, b.hi)
            if a.lo >= 0:
                return Dom(0, a.hi)
            return None
        if op == "BitOr" or op == "BitXor":
            if a.lo >= 0 and b.lo >= 0 and a.hi != INF and b.hi != INF:
                bits = max(int(a.hi).bit_length(), int(b.hi).bit_length())
                return Dom(0, (1 << bits) - 1)
            return None
        if op == "Shr":
            if a.lo >= 0 and b.lo == b.hi and 0 <= b.lo < 128 and a.hi != INF:
                return Dom(int(a.lo) >> int(b.lo), int(a.hi) >> int(b.lo))
            if a.lo >= 0 and b.lo >= 0:
                return Dom(0, a.hi)
            return None
        if op == "Shl":
            if a.lo >= 0 and b.lo >= 0 and a.hi != INF and b.hi != INF and b.hi < 128:
                return Dom(0, int(a.hi) << int(b.hi))
            return None
    except (OverflowError, ValueError):
        return None
    return None


# ------------------------------------------------------------------------------------ projections
def project(v, rest):
    for i, e in enumerate(rest):
        if not isinstance(v, tuple):
            return ("proj", v, tuple(rest[i:]))
        h = v[0]
        if h == "agg":
            kind, vi, fields = v[1], v[2], v[3]
            if e[0] == "dc":
                if vi is not None and e[1] != vi:
                    return ("proj", v, tuple(rest[i:]))   # impossible path
                continue
            if e[0] == "f" and e[1] < len(fields):
                v = fields[e[1]]
                continue
            if e[0] == "len" and kind == "array":
                v = K("usize", len(fields))
                continue
            if e[0] == "ix" and kind == "array" and len(e) > 1 and isinstance(e[1], int) and 0 <= e[1] < len(fields):
                v = fields[e[1]]
                continue
            return ("proj", v, tuple(rest[i:]))
        if h == "model" and len(v) > 2 and v[1] == "array-with" and e[0] == "len":
            return project(v[2], rest[i:])        # element writes do not change the length
        if h == "vagg":
            if e[0] == "dc":
                hit = None
                for vi, fields in v[2]:
                    if vi == e[1]:
                        hit = ("agg", v[1], vi, fields)
                if hit is None:
                    return ("proj", v, tuple(rest[i:]))
                v = hit
                continue
            return ("proj", v, tuple(rest[i:]))
        if h == "ld":
            if e[0] == "ix":
                return ("proj", v, tuple(rest[i:]))
            l = v[1]
            v = ("ld", (l[0], l[1] + (e,)), v[2])
            continue
        if h == "upd":
            base, subs = v[1], v[2]
            hit = None
            inside = []
            for p, sv in subs:
                if p == (e,):
                    hit = sv
                elif p[0] == e:
                    inside.append((p[1:], sv))
            if hit is not None:
                v = hit
                if inside:
                    v = apply_updates(v, inside)
                continue
            nb = project(base, (e,))
            v = apply_updates(nb, inside) if inside else nb
            continue
        if h == "try":
            # ControlFlow returned by Try::branch on Result (kind 'R') / Option (kind 'O')
            if e[0] == "dc":
                if i + 1 < len(rest) and rest[i + 1][0] == "f" and rest[i + 1][1] == 0:
                    if e[1] == 0:   # Continue(payload)
                        okvi = 0 if v[2] == "R" else 1
                        okname = "Ok" if v[2] == "R" else "Some"
                        v = project(v[1], (("dc", okvi, okname), ("f", 0, "0")))
                        return project(v, rest[i + 2:])
                    else:           # Break(residual): provenance of the error is not tracked
                        return ("proj", v, tuple(rest[i:]))
                return ("proj", v, tuple(rest[i:]))
            return ("proj", v, tuple(rest[i:]))
        if h == "proj":
            v = ("proj", v[1], v[2] + (e,))
            continue
        if h == "k" and isinstance(v[2], tuple) and v[2] and v[2][0] in ("s", "b") and e[0] == "len":
            v = K("usize", len(v[2][1].encode()) if v[2][0] == "s" else len(v[2][1]))
            continue
        v = ("proj", v, (e,))
    return v


def apply_updates(v, subs):
    """value v with sub-paths overwritten"""
    subs = sorted(subs, key=lambda x: repr(x[0]))
    if isinstance(v, tuple) and v[0] == "agg" and all(len(p) >= 1 for p, _ in subs):
        kind, vi, fields = v[1], v[2], list(v[3])
        rest = []
        for p, sv in subs:
            q = p
            if q and q[0][0] == "dc":
                if vi is not None and q[0][1] != vi:
                    rest.append((p, sv))
                    continue
                q = q[1:]
            if q and q[0][0] == "f" and q[0][1] < len(fields):
                idx = q[0][1]
                if len(q) == 1:
                    fields[idx] = sv
                else:
                    fields[idx] = apply_updates(fields[idx], [(q[1:], sv)])
            else:
                rest.append((p, sv))
        nv = ("agg", kind, vi, tuple(fields))
        if rest:
            return ("upd", nv, tuple(rest))
        return nv
    if isinstance(v, tuple) and v[0] == "upd":
        d = dict(v[2])
        for p, sv in subs:
            d[p] = sv
        return ("upd", v[1], tuple(sorted(d.items(), key=lambda x: repr(x[0]))))
    return ("upd", v, tuple(subs))


# ------------------------------------------------------------------------------------ join
def _variants_of(v):
    if isinstance(v, tuple) and v[0] == "agg" and isinstance(v[1], str) and v[1] not in ("tuple", "array") and v[2] is not None:
        return v[1], {v[2]: v[3]}
    if isinstance(v, tuple) and v[0] == "vagg":
        return v[1], dict(v[2])
    return None, None


def join_sv(a, b, block, loc, A, B, out):
    if a == b:
        return a
    if isinstance(a, tuple) and isinstance(b, tuple) and a[0] == "agg" and b[0] == "agg" and a[1] == b[1] and a[2] == b[2] and len(a[3]) == len(b[3]):
        fields = []
        for i, (x, y) in enumerate(zip(a[3], b[3])):
            fields.append(join_sv(x, y, block, (loc[0], loc[1] + (("f", i, str(i)),)), A, B, out))
        return ("agg", a[1], a[2], tuple(fields))
    # array-with(X, items): X with some elements possibly overwritten by the listed values (a weak description)
    def aw(v):
        if isinstance(v, tuple) and v[0] == "model" and v[1] == "array-with":
            return v[2], v[3]
        return v, ()
    (xa, ia), (xb, ib) = aw(a), aw(b)
    if (ia or ib) and xa == xb:
        items = ia + tuple(x for x in ib if x not in ia)
        return ("model", "array-with", xa, items[:4])
    ka, va = _variants_of(a)
    kb, vb = _variants_of(b)
    if ka is not None and ka == kb:
        merged = {}
        for vi in set(va) | set(vb):
            fa, fb = va.get(vi), vb.get(vi)
            if fa is None:
                merged[vi] = fb
            elif fb is None:
                merged[vi] = fa
            elif len(fa) == len(fb):
                merged[vi] = tuple(join_sv(x, y, block, (loc[0], loc[1] + (("dc", vi, str(vi)), ("f", i, str(i)))), A, B, out)
                                   for i, (x, y) in enumerate(zip(fa, fb)))
            else:
                merged = None
                break
        if merged is not None:
            if len(merged) == 1:
                (vi, f), = merged.items()
                return ("agg", ka, vi, f)
            return ("vagg", ka, tuple(sorted(merged.items())))
    phi = ("phi", block, loc)
    ta, tb = sv_type(a), sv_type(b)
    if ta is not None and ta == tb:
        set_ty(phi, ta)
    d = A.dom(a).hull(B.dom(b))
    out.append((phi, d, a, b))
    return phi


def join_states(A, B, block, widen_prev=None):
    """least upper bound of A and B at the entry of `block`"""
    if A.dead:
        return B.copy()
    if B.dead:
        return A.copy()
    S = State()
    roots = set(A.epoch) | set(B.epoch)
    for r in roots:
        ea, eb = A.epoch.get(r), B.epoch.get(r)
        if ea == eb:
            if ea is not None:
                S.epoch[r] = ea
        else:
            S.epoch[r] = ("j", block)
    phis = []
    for loc in set(A.mem) | set(B.mem):
        va = A.read(loc)
        vb = B.read(loc)
        S.mem[loc] = join_sv(va, vb, block, loc, A, B, phis)
    # roots whose epoch changed at this join but that have entries only as implicit loads are fine:
    for sv in set(A.doms) & set(B.doms):
        S.doms[sv] = A.doms[sv].hull(B.doms[sv])
    for (phi, d, a, b) in phis:
        cur = S.doms.get(phi)
        S.doms[phi] = d if cur is None else cur.meet(d)
        # relational facts survive on the phi when they hold for both incoming values
    for key in set(A.zone) & set(B.zone):
        S.zone[key] = max(A.zone[key], B.zone[key])
    # relational facts survive on a phi when they hold for both incoming values
    iphis = [x for x in phis if _is_intlike(x[0])]
    if iphis and len(iphis) <= 16:
        candsA = set()
        for (x, y) in A.zone:
            candsA.add(x)
            candsA.add(y)
        candsA.update(k for k in A.doms if not is_const(k))
        candsB = set()
        for (x, y) in B.zone:
            candsB.add(x)
            candsB.add(y)
        candsB.update(k for k in B.doms if not is_const(k))
        others = [y for y in (candsA & candsB) if _is_intlike(y)]
        if len(others) > 40:
            others = sorted(others, key=repr)[:40]
        pairs = []
        for (phi, d, a, b) in iphis:
            for y in others:
                if y == a or y == b or y == phi:
                    continue
                pairs.append((phi, a, b, y, y, y))
        # phi against phi (two values that change together)
        for i, (p1, d1, a1, b1) in enumerate(iphis):
            for (p2, d2, a2, b2) in iphis[i + 1:]:
                pairs.append((p1, a1, b1, p2, a2, b2))
        for (p, a, b, q, ya, yb) in pairs:
            ka = _rel_bound(A, a, ya)
            kb = _rel_bound(B, b, yb)
            if ka is not None and kb is not None:
                k = max(ka, kb)
                if abs(k) < (1 << 33):
                    S.zone[(p, q)] = min(S.zone.get((p, q), INF), k)
            ka = _rel_bound(A, ya, a)
            kb = _rel_bound(B, yb, b)
            if ka is not None and kb is not None:
                k = max(ka, kb)
                if abs(k) < (1 << 33):
                    S.zone[(q, p)] = min(S.zone.get((q, p), INF), k)
    return S


INT_TYPES = {"u8", "u16", "u32", "u64", "u128", "usize", "i8", "i16", "i32", "i64", "i128", "isize"}


def _is_intlike(sv):
    t = sv_type(sv)
    return t in INT_TYPES


def _rel_bound(S, a, b):
    """smallest known k with a - b <= k in S (zone lookup or unary bounds), or None"""
    (ba, oa), (bb, ob) = S.norm(a), S.norm(b)
    if ba is not None and ba == bb:
        return oa - ob
    best = None
    if ba is not None and bb is not None:
        z = S.zone.get((ba, bb))
        if z is not None:
            best = z + oa - ob
    da = S.dom(ba) if ba is not None else Dom(0, 0)
    db = S.dom(bb) if bb is not None else Dom(0, 0)
    if da.hi != INF and db.lo != -INF:
        k = da.hi + oa - db.lo - ob
        if best is None or k < best:
            best = k
    return best


def widen(old, new, visits):
    """widening at loop heads: unstable bounds go to the type limit, unstable differences are dropped"""
    S = new
    for sv, d in list(S.doms.items()):
        od = old.doms.get(sv)
        if od is None:
            # was unconstrained before: stay unconstrained
            del S.doms[sv]
            continue
        lo, hi = d.lo, d.hi
        base = S._default_dom(sv, 0)
        if d.lo < od.lo:
            lo = base.lo
        if d.hi > od.hi:
            hi = base.hi
        S.doms[sv] = Dom(lo, hi, d.excl & od.excl)
    for key, k in list(S.zone.items()):
        ok = old.zone.get(key)
        if ok is None or k > ok:
            del S.zone[key]
    return S
