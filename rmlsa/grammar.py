"""Abstract output grammar of encoders (`emitted`) and typed reads of decoders (`reads`): the token
sequences along every feasible acyclic path of a function (each CFG edge at most once per path, so a
loop body appears once, delimited by ("again",) markers), with constants evaluated and holes carrying
width, byte order and the provenance of the value.  Paths are pruned with the interpreter's dead edges."""
import re
from .query import *
from .absint import *
from .interp import Interp, stable
from .loader import Place, op_place

WRITE_CALLS = {
    "byteorder::io::WriteBytesExt::write_u8": ("u8", 1), "byteorder::io::WriteBytesExt::write_u16": ("u16", 2),
    "byteorder::io::WriteBytesExt::write_u24": ("u24", 3), "byteorder::io::WriteBytesExt::write_u32": ("u32", 4),
    "byteorder::io::WriteBytesExt::write_u64": ("u64", 8), "byteorder::io::WriteBytesExt::write_f64": ("f64", 8),
    "byteorder::io::WriteBytesExt::write_i16": ("i16", 2), "byteorder::io::WriteBytesExt::write_i32": ("i32", 4),
    "byteorder::io::WriteBytesExt::write_f32": ("f32", 4), "byteorder::io::WriteBytesExt::write_u48": ("u48", 6),
    "byteorder::io::WriteBytesExt::write_u128": ("u128", 16), "byteorder::io::WriteBytesExt::write_i8": ("i8", 1),
    "byteorder::io::WriteBytesExt::write_i64": ("i64", 8), "byteorder::io::WriteBytesExt::write_uint": ("uint", None),
}
READ_CALLS = {
    "byteorder::io::ReadBytesExt::read_u8": ("u8", 1), "byteorder::io::ReadBytesExt::read_u16": ("u16", 2),
    "byteorder::io::ReadBytesExt::read_u24": ("u24", 3), "byteorder::io::ReadBytesExt::read_u32": ("u32", 4),
    "byteorder::io::ReadBytesExt::read_u64": ("u64", 8), "byteorder::io::ReadBytesExt::read_f64": ("f64", 8),
    "byteorder::io::ReadBytesExt::read_i16": ("i16", 2), "byteorder::io::ReadBytesExt::read_i32": ("i32", 4),
    "byteorder::io::ReadBytesExt::read_f32": ("f32", 4), "byteorder::io::ReadBytesExt::read_u48": ("u48", 6),
    "byteorder::io::ReadBytesExt::read_i8": ("i8", 1), "byteorder::io::ReadBytesExt::read_i64": ("i64", 8),
    "byteorder::io::ReadBytesExt::read_u128": ("u128", 16), "byteorder::io::ReadBytesExt::read_uint": ("uint", None),
}
BYTE_PUSH = ("alloc::vec::Vec::push",)
BYTES_APPEND = ("alloc::vec::Vec::extend_from_slice", "<alloc::vec::Vec<T, A> as core::iter::traits::collect::Extend<&'a T>>::extend",
                "<alloc::vec::Vec<T, A> as core::iter::traits::collect::Extend<T>>::extend", "std::io::Write::write_all",
                "bytes::bytes_mut::BytesMut::extend_from_slice", "bytes::buf::buf_mut::BufMut::put_slice", "alloc::vec::Vec::append",
                "std::io::Write::write")
OTHER_SINK_WRITERS = ("alloc::vec::Vec::insert", "bytes::buf::buf_mut::BufMut::put_u8", "bytes::buf::buf_mut::BufMut::put_u16",
                      "bytes::buf::buf_mut::BufMut::put_u32", "alloc::vec::Vec::resize", "alloc::vec::Vec::truncate", "alloc::vec::Vec::clear",
                      "alloc::vec::Vec::pop", "alloc::vec::Vec::remove")


def endian(t):
    g = t["callee"].get("generics") or []
    for x in g:
        if "BigEndian" in x or "NetworkEndian" in x:
            return "be"
        if "LittleEndian" in x:
            return "le"
        if "NativeEndian" in x:
            return "ne"
    return ""


def is_u8_sink_type(ty):
    """does a (reference to a) value of this type accept bytes: Vec<u8>, Cursor<Vec<u8>>, dyn Write, W: Write, BytesMut"""
    t = ty
    while t.get("k") in ("ref", "ptr"):
        t = t["to"]
    s = t.get("s", "")
    return s in ("std::vec::Vec<u8>", "alloc::vec::Vec<u8>", "std::io::Cursor<std::vec::Vec<u8>>", "std::io::cursor::Cursor<alloc::vec::Vec<u8>>",
                 "dyn std::io::Write", "bytes::BytesMut", "bytes::bytes_mut::BytesMut") or t.get("k") == "param" or "Cursor<" in s and "Vec<u8>" in s


class Frame:
    """one activation on a replayed path: the outermost function or an inlined local callee"""
    __slots__ = ("body", "it", "ret", "depth", "wrap")

    def __init__(self, body, it, ret, depth, wrap=None):
        self.body, self.it, self.ret, self.depth, self.wrap = body, it, ret, depth, wrap


WRITE_KINDS = ("u8", "u16be", "u16le", "u24be", "u24le", "u32be", "u32le", "u64be", "u64le", "f64be", "f64le", "f32be", "i16be", "i32be", "i64be")


class Extractor:
    """mode 'w': tokens are writes to the sink; mode 'r': tokens are reads from the source.
    sink_pred(it, S, recv_sv, recv_type) decides whether a receiver is the tracked byte stream.
    The traversal is a path-sensitive replay: the abstract state is carried along each path without joins,
    so constants chosen on a branch stay constants and infeasible edges are pruned exactly."""

    def __init__(self, env, key, mode, entry=None, sink_pred=None, max_paths=4000, follow=None):
        self.env = env
        self.prog = env.prog
        self.ctx = env.ctx
        self.body = self.prog.bodies[key]
        self.mode = mode
        self.it = Interp(self.ctx, self.body, entry if entry is not None else self.ctx.entries.get(key))
        if entry is None:
            self.fix = self.ctx.interp(key)
        else:
            self.fix = Interp(self.ctx, self.body, entry)
            self.fix.run()
        self.it.cond = dict(self.fix.cond)
        self.it_cond = self.it.cond
        self.inline = False          # continue paths inside small local callees instead of applying their summaries
        self.inline_depth = 2
        self.inline_blocks = 30
        self.inline_pred = None
        self.sink_pred = sink_pred or (lambda it, S, v, ty: is_u8_sink_type(ty))
        self.max_paths = max_paths
        self.time_budget = float(__import__("os").environ.get("RMLSA_REPLAY_BUDGET", "40"))      # seconds per extraction
        self.paths = []
        self.truncated = False
        self.unmodelled = []
        self.all_local_calls = False
        self.track_takes = False
        self.track_stores = False
        self.track_ext = False
        self.track_local_muts = False
        self.probe = None        # optional f(it, S) -> hashable, evaluated on the path state at every return ("probe" token)
        self.probe3 = None       # optional f(it, S, tokens so far) -> hashable (same, but may look at the path's tokens)
        self.stop_at = None      # optional f(frame, call terminator) -> bool: end the path before this call ("end", "cut")
        self.raw_args = False    # call tokens of local callees carry the argument values as a 4th element
        self.raw_decisions = False   # decision tokens carry the value decided on as a 4th element
        self.call_probe = None   # optional f(extractor, interp, state before the call, terminator, argument values) -> payload of a ("cprobe", payload) token
        self.entered = set()     # keys of the callees whose bodies were followed in place
        self.order = []          # read call result SVs in path order (DFS stack discipline)
        self.read_sites = [(self.body.key, bi) for bi, t in self.body.calls() if callee_name(t) in READ_CALLS or callee_name(t) == "std::io::Read::read"]
        self.follow = follow or (lambda callee_body, t: True)

    def run(self):
        from . import interp as I
        from . import absint as A
        I.CUR_BODY[0] = self.body
        saved = A.WRITE_LOG
        A.WRITE_LOG = None
        self.outer = Frame(self.body, self.it, None, 0)
        self.outer_self = None
        try:
            S0 = self.it.initial_state()
            self.outer_self = S0.read((self.it.L(1), ()))
            self._dfs(self.outer, 0, [], {}, frozenset(), "ret", S0)
        finally:
            A.WRITE_LOG = saved
            self.body, self.it = self.outer.body, self.outer.it
        seen = []
        sset = set()
        for p in self.paths:
            if p not in sset:
                sset.add(p)
                seen.append(p)
        self.paths = seen
        return self

    def _result_of_block(self, bi, res):
        """classification of the function result by the last assignment to _0 on the path"""
        body = self.body
        rt = body.locals[0]["t"]
        if not (rt.get("k") == "adt" and rt.get("adt") == "core::result::Result"):
            return "ret"
        for st in body.blocks[bi]["stmts"]:
            if st["place"]["l"] == 0 and not st["place"]["p"]:
                rv = st["rv"]
                if rv["k"] == "agg" and rv.get("adt") == "core::result::Result":
                    res = "ok" if rv["vi"] == 0 else "err"
                else:
                    res = "ok|err"
        t = body.blocks[bi]["term"]
        if t["k"] == "call" and t["dest"]["l"] == 0 and not t["dest"]["p"]:
            res = "err" if callee_name(t).endswith("::from_residual") else "ok|err"
        return res

    # ---------------------------------------------------------------- inlining of small local callees
    def _should_inline(self, fr, t):
        if not self.inline or t.get("t") is None:
            return False
        cb = self.prog.bodies.get(callee_path(t))
        if cb is None or cb.kind in ("closure", "promoted") or is_derived(cb) or cb.loops or fr.depth >= self.inline_depth:
            return False
        if sum(1 for b in cb.blocks if not b["cleanup"]) > self.inline_blocks:
            return False
        if len(t["args"]) != cb.arg_count:
            return False
        f = fr
        while f is not None:
            if f.body.key == cb.key:
                return False
            f = f.ret[0] if f.ret else None
        return self.inline_pred(cb, t) if self.inline_pred else True

    def _assembled(self, S, loc, out, site):
        """a value just assembled from consecutive bytes of a sequence is a typed read of that sequence"""
        v = S.read(loc)
        if isinstance(v, tuple) and v[0] == "model" and v[1] == "uint-from-bytes" and v not in self.order:
            out.append(("read", "u%d%s" % (8 * v[3], v[2]), site))
            self.order.append(v)

    def _probe_tokens(self, toks, S):
        if self.probe is not None:
            toks = toks + [("probe", self.probe(self.outer.it, S))]
        if self.probe3 is not None:
            toks = toks + [("probe", self.probe3(self.outer.it, S, toks))]
        return toks

    _FWD = re.compile(r"^core::cmp::impls::<impl core::cmp::(PartialEq|PartialOrd|Ord)(?:<&B>)? for &A>::(eq|partial_cmp|cmp)$")

    def _forwarded(self, fr, t):
        """the local trait implementation a by-reference forwarding impl of std (&A == &B, (&A).partial_cmp(&B)) ends up calling"""
        if not self.inline or t.get("t") is None or fr.depth >= self.inline_depth:
            return None
        c = t["callee"]
        m = self._FWD.match(norm_name(c.get("pretty")) or "")
        g = c.get("generics") or []
        if not m or len(g) < 1:
            return None
        a = g[0].lstrip("&")
        bty = (g[1] if len(g) > 1 else g[0]).lstrip("&")
        for cb in self.prog.bodies.values():
            if cb.kind != "assoc" or not cb.impl or cb.name != m.group(2) or is_derived(cb) or cb.loops:
                continue
            if not (cb.impl.get("trait") or "").endswith("::" + m.group(1)) or cb.impl.get("self_ty") != a:
                continue
            tr = cb.impl.get("trait_ref") or ""
            arg = re.search(r"::%s<(.*)>>$" % m.group(1), tr)
            rhs = arg.group(1) if arg else a
            if rhs == bty:
                f = fr
                while f is not None:
                    if f.body.key == cb.key:
                        return None
                    f = f.ret[0] if f.ret else None
                return cb
        return None

    def _enter(self, fr, bi, toks, used, exiting, res, S, cb=None):
        """continue the path inside the callee of block bi's call: parameters are bound to the argument values, memory is shared"""
        body, it = fr.body, fr.it
        t = body.blocks[bi]["term"]
        fwd = cb is not None
        cb = cb or self.prog.bodies[callee_path(t)]
        cit = Interp(self.ctx, cb, None)
        cit.cond = self.it_cond
        cit.site_tag = (fr.it.site_tag, body.key, bi) if getattr(fr.it, "site_tag", None) is not None else (body.key, bi)
        self.entered.add(cb.key)
        it.cur = (bi, len(body.blocks[bi]["stmts"]))
        it.counter = 0
        args = [it.eval_op(S, a) for a in t["args"]]
        if fwd:
            # the forwarding impl passes *self and *other on
            args = [it.deref_value(S, a, 1, it.op_type(o)) for a, o in zip(args, t["args"])]
        S2 = S.copy()
        for i, a in enumerate(args):
            S2.write((cit.L(i + 1), ()), a)
        nfr = Frame(cb, cit, (fr, bi, used, exiting, res), fr.depth + 1)
        self._dfs(nfr, 0, toks, {}, frozenset(), res, S2)

    def _option_map(self, fr, bi, toks, used, exiting, res, S):
        """Option::map(opt, |x| ..) with a small local closure: None stays None, Some(x) continues inside the closure"""
        body, it = fr.body, fr.it
        t = body.blocks[bi]["term"]
        cname = norm_name(t["callee"].get("pretty"))
        if cname not in ("core::option::Option::map", "core::option::Option::and_then") or t.get("t") is None or fr.depth >= self.inline_depth:
            return False
        it.cur = (bi, len(body.blocks[bi]["stmts"]))
        it.counter = 0
        args = [it.eval_op(S, a) for a in t["args"]]
        clo = args[1] if len(args) > 1 else None
        if not (isinstance(clo, tuple) and clo[0] == "agg" and isinstance(clo[1], tuple) and clo[1][0] == "closure" and clo[1][1] in self.prog.bodies):
            return False
        cb = self.prog.bodies[clo[1][1]]
        if cb.loops or sum(1 for b in cb.blocks if not b["cleanup"]) > self.inline_blocks or cb.arg_count != 2:
            return False
        opt = args[0]
        d = it.discr_of(S, opt, it.op_type(t["args"][0]))
        dloc = None
        for val in (0, 1):
            S2 = S.copy()
            it.assume(S2, d, val)
            if S2.dead:
                continue
            tk = [] if is_const(d) else [("when", stable(d), str(val))]
            if val == 0:
                it.cur = (bi, len(body.blocks[bi]["stmts"]))
                S2.write(it.resolve(S2, Place(t["dest"])), ("agg", "core::option::Option", 0, ()))
                self._edge(fr, bi, t["t"], S2, toks + tk, used, exiting, res, [])
                self.body, self.it = fr.body, fr.it
                continue
            cit = Interp(self.ctx, cb, None)
            cit.cond = self.it_cond
            cit.site_tag = (fr.it.site_tag, body.key, bi) if getattr(fr.it, "site_tag", None) is not None else (body.key, bi)
            self.entered.add(cb.key)
            envt = cb.locals[1]["t"]
            if envt.get("k") == "ref":
                holder = (("V", (body.key, bi, "closure-env")), ())
                S2.write(holder, clo)
                S2.write((cit.L(1), ()), ("ref", holder))
            else:
                S2.write((cit.L(1), ()), clo)
            S2.write((cit.L(2), ()), project(opt, (("dc", 1, "Some"), ("f", 0, "0"))))
            # map wraps the closure's result in Some; and_then hands the closure's own Option back
            nfr = Frame(cb, cit, (fr, bi, used, exiting, res), fr.depth + 1,
                        wrap=(lambda v: ("agg", "core::option::Option", 1, (v,))) if cname.endswith("::map") else None)
            self._dfs(nfr, 0, toks + tk, {}, frozenset(), res, S2)
            self.body, self.it = fr.body, fr.it
        return True

    def _leave(self, fr, toks, S):
        """the callee returned: bind the result in the caller and go on after the call"""
        cfr, cbi, cused, cexiting, cres = fr.ret
        v = S.read((fr.it.L(0), ()))
        if fr.wrap is not None:
            v = fr.wrap(v)
        ct = cfr.body.blocks[cbi]["term"]
        self.body, self.it = cfr.body, cfr.it
        cfr.it.cur = (cbi, len(cfr.body.blocks[cbi]["stmts"]))
        cfr.it.counter = 0
        loc = cfr.it.resolve(S, Place(ct["dest"]))
        S.write(loc, v)
        extra = []
        if cfr.ret is None and ct["dest"]["l"] == 0 and not ct["dest"]["p"]:
            extra.append(self.return_token(S))
        self._edge(cfr, cbi, ct["t"], S, toks, cused, cexiting, cres, extra)

    def _edge(self, fr, bi, s, S2, toks, used, exiting, res, extra):
        body = fr.body
        if body.blocks[s]["cleanup"]:
            return
        e = (bi, s)
        n = used.get(e, 0)
        is_back = e in body.back_edges
        if is_back and s in exiting:
            return           # a loop body is traversed once per path
        if n >= (2 if any(bi in body.loops[h] for h in exiting) else 1):
            return
        ex2 = exiting
        if is_back:
            extra = extra + [("again",)]
            ex2 = exiting | {s}
            # values created inside the loop are re-created on the next visit: continue from the
            # (joined) fixpoint state of the loop head instead of the path state
            S2 = self.fix.entry_states.get(s)
            if S2 is None:
                return
        u2 = dict(used)
        u2[e] = n + 1
        self._dfs(fr, s, toks + extra, u2, ex2, res, S2)

    def _dfs(self, fr, bi, toks, used, exiting, res, S_in):
        if len(self.paths) >= self.max_paths:
            self.truncated = True
            return
        # a replay that does not end (deeply nested helpers followed in place, many joins unfolded) is cut off like one with too many
        # paths: the rules treat a truncated extraction as "cannot analyse", never as a pass
        self._steps = getattr(self, "_steps", 0) + 1
        if self._steps % 256 == 0:
            import time as _t
            if getattr(self, "_deadline", None) is None:
                self._deadline = _t.process_time() + self.time_budget
            elif _t.process_time() > self._deadline:
                self.truncated = True
        if self.truncated and getattr(self, "_deadline", None) is not None and self._steps > 256:
            import time as _t
            if _t.process_time() > self._deadline:
                return
        self.body, self.it = fr.body, fr.it
        body, it = fr.body, fr.it
        outer = fr.ret is None
        blk = body.blocks[bi]
        t = blk["term"]
        S = S_in.copy()
        rets = []
        mark = len(self.order)
        for si, st in enumerate(blk["stmts"]):
            it.cur = (bi, si)
            it.counter = 0
            it.transfer_stmt(S, st)
            if S.dead:
                return
            if self.mode == "r" and st["rv"].get("k") == "bin" and st["rv"].get("op") == "BitOr":
                self._assembled(S, it.resolve(S, Place(st["place"])), rets, (body.key, bi, si))
            if st["place"]["l"] == 0 and not st["place"]["p"]:
                if outer:
                    rets.append(self.return_token(S))
            elif self.track_stores and st["place"]["p"] and st["place"]["p"][0] == "*":
                pl = Place(st["place"])
                loc = it.resolve(S, pl)
                if (outer and st["place"]["l"] == 1) or (not outer and loc[0] == ("P", self.outer_self)):
                    fld = ".".join(e[2] for e in loc[1] if e[0] in ("f",))
                    rets.append(("store", fld, render_value(self.prog, S.read(loc), names=self.names())))
                elif loc[0][0] == "P" and not is_param_load(loc[0][1]):
                    from .interp import stable_loc
                    rets.append(("store", "via:" + stable_loc(loc), render_value(self.prog, S.read(loc), names=self.names())))
        it.cur = (bi, len(blk["stmts"]))
        it.counter = 0
        new = self.tokens_of_block(bi, S)
        toks = toks + rets + new
        if outer:
            res = self._result_of_block(bi, res)
        k = t["k"]
        if k == "return":
            if not outer:
                self._leave(fr, toks, S)
                self.body, self.it = fr.body, fr.it
                del self.order[mark:]
                return
            if self.track_stores:
                fin = []
                nm = self.names()
                for (root, proj), v in S.mem.items():
                    if root[0] == "P" and is_param_load(root[1], 1) and proj and all(e[0] in ("f", "len") for e in proj):
                        fld = ".".join(e[2] if e[0] == "f" else "len" for e in proj)
                        fin.append((fld, render_value(self.prog, v, names=nm)))
                        if isinstance(v, tuple) and v[0] == "upd":
                            for pr, lv in v[2]:
                                if pr == (("len",),):
                                    fin.append((fld + ".len", render_value(self.prog, lv, names=nm)))
                toks = toks + [("final", tuple(sorted(fin)))]
            if self.mode == "w" and not any(t[0] in WRITE_KINDS or t[0] in ("bytes", "unmodelled") for t in toks):
                rc = self.returned_content(S)
                if rc:
                    # placed before the return token, where a sink-based encoder has its writes
                    at = max((i for i, t in enumerate(toks) if t[0] == "returns"), default=len(toks))
                    toks = toks[:at] + list(rc) + toks[at:]
            toks = self._probe_tokens(toks, S)
            self.paths.append(tuple(toks + [("end", res)]))
            del self.order[mark:]
            return
        if k == "call" and self.stop_at is not None and self.stop_at(fr, t):
            self.body, self.it = self.outer.body, self.outer.it
            toks = self._probe_tokens(toks, S)
            self.paths.append(tuple(toks + [("end", "cut")]))
            self.body, self.it = fr.body, fr.it
            del self.order[mark:]
            return
        if k == "call" and self._should_inline(fr, t):
            self._enter(fr, bi, toks, used, exiting, res, S)
            self.body, self.it = fr.body, fr.it
            del self.order[mark:]
            return
        if k == "call" and self.inline and self._option_map(fr, bi, toks, used, exiting, res, S):
            self.body, self.it = fr.body, fr.it
            del self.order[mark:]
            return
        if k == "call" and self.inline:
            fcb = self._forwarded(fr, t)
            if fcb is not None:
                self._enter(fr, bi, toks, used, exiting, res, S, cb=fcb)
                self.body, self.it = fr.body, fr.it
                del self.order[mark:]
                return
        dec = it.eval_op(S, t["discr"]) if k == "switch" else None
        it.cur = (bi, len(blk["stmts"]))
        it.counter = 0
        edges = [(s, S2) for (s, S2) in it.flow(S, bi) if not body.blocks[s]["cleanup"]]
        if not edges:
            if k in ("unreachable", "call", "resume", "other"):
                self.paths.append(tuple(toks + [("end", "diverge")]))
            del self.order[mark:]
            return
        for s, S2 in edges:
            self.body, self.it = fr.body, fr.it
            extra = []
            if outer and k == "call" and t["dest"]["l"] == 0 and not t["dest"]["p"]:
                extra.append(self.return_token(S2))
            if k == "switch":
                extra = extra + self.decision_token(bi, s, dec)
            if k == "call" and self.mode == "r" and "_bytes" in callee_name(t) and "::from_" in callee_name(t):
                self._assembled(S2, it.resolve(S2, Place(t["dest"])), extra, (body.key, bi))
            self._edge(fr, bi, s, S2, toks, used, exiting, res, extra)
        self.body, self.it = fr.body, fr.it
        del self.order[mark:]

    def names(self):
        out = {}
        for i, R in enumerate(self.order):
            if isinstance(R, tuple) and R[0] == "model" and R[1] == "uint-from-bytes":
                out[R] = "#%d" % (i + 1)
            else:
                out[("proj", R, (("dc", 0, "Ok"), ("f", 0, "0")))] = "#%d" % (i + 1)
        return out

    def return_token(self, S):
        body = self.body
        v = S.read((self.it.L(0), ()))
        doms = []
        for (rk, rb) in self.read_sites:
            R = ("call", (rk, rb, len(body.blocks[rb]["stmts"])), callee_path(body.blocks[rb]["term"]))
            P = project(R, (("dc", 0, "Ok"), ("f", 0, "0")))
            d = S.dom(P)
            doms.append((rb, d.lo, d.hi, tuple(sorted(d.excl))))
        from .summaries import int_leaves
        leaves = []
        for path, lv in int_leaves(v):
            d = S.dom(lv)
            leaves.append((".".join(e[2] for e in path if e[0] == "f"), d.lo, d.hi, tuple(sorted(d.excl))))
        return ("returns", render_value(self.prog, v, names=self.names()), tuple(doms), tuple(leaves))

    # --------------------------------------------------------------------------------
    def decision_token(self, bi, succ, dv):
        """a token recording a branch on input-derived data (variant of a parameter, constant compared with a read value)"""
        body = self.body
        t = body.blocks[bi]["term"]
        if dv is None or is_const(dv):
            return []
        vals = [v for v, b in t["targets"] if b == succ]
        is_other = (t["otherwise"] == succ) and not vals
        desc = stable(dv)
        if self.interesting(dv):
            raw = (dv,) if self.raw_decisions else ()
            if is_other:
                return [("when", desc, "other:" + ",".join(str(v) for v, _ in t["targets"])) + raw]
            return [("when", desc, ",".join(str(v) for v in vals)) + raw]
        return []

    def interesting(self, sv):
        """discriminants of parameters, values read from the source, comparisons of such values with constants"""
        def leaf(x):
            if x[0] == "discr" or x[0] == "streq" or x[0] == "seqeq":
                return True
            if x[0] == "elem":
                return True
            if x[0] == "model" and x[1] == "option-ref-eq":
                return True
            if x[0] == "proj" and isinstance(x[1], tuple) and x[1][0] == "call":
                return True
            if x[0] == "ld" and x[2] == "entry":
                return True
            return False
        return contains(sv, leaf)

    def tokens_of_block(self, bi, S):
        body, it = self.body, self.it
        t = body.blocks[bi]["term"]
        if t["k"] != "call":
            return []
        name = callee_name(t)
        args = [it.eval_op(S, a) for a in t["args"]]
        toks = []
        if self.call_probe is not None:
            it.cur = (bi, len(body.blocks[bi]["stmts"]))
            it.counter = 0
            r_ = self.call_probe(self, it, S, t, args)
            if r_ is not None:
                toks.append(("cprobe", r_))
        if self.track_ext and args and callee_path(t) not in self.prog.bodies:
            ty0 = it.op_type(t["args"][0])
            a0 = args[0]
            if ty0.get("k") == "ref" and ty0.get("mut") and isinstance(a0, tuple) and not is_const(a0):
                root, proj = it.target(a0)
                short_name = name.split("::")[-1] if not name.startswith("<") else name
                rendered = tuple(self.render_arg(S, x) for x in args[1:])
                if root[0] == "P" and is_param_load(root[1], 1) and proj:
                    toks.append(("mut", short_name, ".".join(e[2] for e in proj if e[0] == "f"), rendered))
                elif root[0] == "P" and self.track_local_muts and body.kind == "closure" and isinstance(root[1], tuple) and root[1][0] == "ld" and root[1][2] == "entry" \
                        and root[1][1][0][0] == "L" and root[1][1][0][1] == 1 and root[1][1][1]:
                    toks.append(("mut", short_name, "upvar:" + ".".join(str(e[1]) for e in root[1][1][1] if e[0] == "f"), rendered))
                elif root[0] == "L" and self.track_local_muts:
                    nm = body.locals[root[1]]["name"] or "_%d" % root[1]
                    toks.append(("mut", short_name, "local:" + nm, rendered))
        if self.mode == "w":
            if name in WRITE_CALLS and args and self.sink_pred(it, S, args[0], it.op_type(t["args"][0])):
                w, n = WRITE_CALLS[name]
                toks.append(self.value_token(w + endian(t), S, args[1]))
            elif name in BYTE_PUSH and args and self._is_byte_vec(it.op_type(t["args"][0])) and self.sink_pred(it, S, args[0], it.op_type(t["args"][0])):
                toks.append(self.value_token("u8", S, args[1]))
            elif name in BYTES_APPEND and args and self.sink_pred(it, S, args[0], it.op_type(t["args"][0])) and is_u8_sink_type(it.op_type(t["args"][0])):
                src = args[1]
                c = const_of(src)
                typed = self.typed_bytes(S, src, it.op_type(t["args"][1])) if not (isinstance(c, tuple) and c and c[0] == "b") else None
                if isinstance(c, tuple) and c and c[0] == "b":
                    for b in c[1]:
                        toks.append(("u8", "const", b))
                elif typed is not None:
                    toks.extend(typed)
                else:
                    toks.append(("bytes", stable(src)))
            elif name in ("core::iter::traits::iterator::Iterator::try_for_each", "core::iter::traits::iterator::Iterator::for_each") and len(args) >= 2 \
                    and isinstance(args[1], tuple) and args[1][0] == "agg" and isinstance(args[1][1], tuple) and args[1][1][0] == "closure" and args[1][1][1] in self.prog.bodies:
                # the closure runs once per item: its output grammar, repeated
                sub = Extractor(self.env, args[1][1][1], "w", None, None, follow=self.follow)
                sub.inline, sub.inline_depth, sub.inline_blocks, sub.inline_pred = self.inline, self.inline_depth, self.inline_blocks, self.inline_pred
                sub.run()
                if sub.entered:
                    followed_ = {self.prog.bodies[k].pretty for k in sub.entered}
                    sub.paths = [tuple(x for x in p if not (x[0] == "call" and x[1] in followed_)) for p in sub.paths]
                    self.entered |= sub.entered
                bodies = {tuple(x for x in p if x[0] not in ("when", "returns", "end", "final", "probe")) for p in ok_paths(sub)}
                bodies = {b for b in bodies if b}
                if sub.unmodelled:
                    self.unmodelled.extend(sub.unmodelled)
                if len(bodies) == 1:
                    toks.append(("loop-open",))
                    toks.extend(next(iter(bodies)))
                    toks.append(("loop-close",))
                elif len(bodies) > 1:
                    self.unmodelled.append((name + " with a closure that writes in more than one way", t["span"]))
                    toks.append(("unmodelled", name))
            elif name in OTHER_SINK_WRITERS and args and self._is_byte_vec(it.op_type(t["args"][0])) and self.sink_pred(it, S, args[0], it.op_type(t["args"][0])):
                self.unmodelled.append((name, t["span"]))
                toks.append(("unmodelled", name))
            elif callee_path(t) in self.prog.bodies:
                cb = self.prog.bodies[callee_path(t)]
                for i, a in enumerate(t["args"]):
                    ty = it.op_type(a)
                    if ty.get("k") == "ref" and ty.get("mut") and is_u8_sink_type(ty) and self.sink_pred(it, S, args[i], ty) and self.follow(cb, t):
                        toks.append(("call", cb.pretty, tuple(self.render_arg(S, x) for j, x in enumerate(args) if j != i)))
                        break
                else:
                    if self.all_local_calls and cb.kind != "closure" and not is_derived(cb) and self.follow(cb, t):
                        toks.append(("call", cb.pretty, tuple(self.render_arg(S, x) for x in args)) + ((tuple(args),) if self.raw_args else ()))
        else:
            if name in READ_CALLS:
                w, n = READ_CALLS[name]
                toks.append(("read", w + endian(t), (body.key, bi)))
                it.cur = (bi, len(body.blocks[bi]["stmts"]))
                self.order.append(("call", it.site(), callee_path(t)))
            elif name in ("bytes::bytes_mut::BytesMut::split_to", "bytes::buf::buf_impl::Buf::advance", "alloc::vec::Vec::drain", "alloc::vec::Vec::remove") and self.track_takes:
                tgt = it.target(args[0])
                fld = ".".join(e[2] for e in tgt[1] if e[0] == "f")
                amount = args[1]
                if name == "alloc::vec::Vec::remove":
                    toks.append(("take", fld, "1@%s" % stable(amount)))
                elif name == "alloc::vec::Vec::drain":
                    from .models import range_bounds
                    ln = it.len_of_ref(S, args[0], it.op_type(t["args"][0]))
                    rb = range_bounds(it, S, amount, ln)
                    toks.append(("take", fld, "%s..%s" % (stable(rb[0]), stable(rb[1])) if rb else "?"))
                else:
                    c = const_val(amount)
                    toks.append(("take", fld, str(c) if c is not None else stable(amount), S.dom(amount).lo, S.dom(amount).hi))
            elif name == "std::io::Read::read_exact":
                ln = it.len_of_ref(S, args[1], it.op_type(t["args"][1]))
                toks.append(("read_exact", stable(ln), (body.key, bi)))
            elif name == "std::io::Read::read":
                ln = it.len_of_ref(S, args[1], it.op_type(t["args"][1]))
                toks.append(("read_upto", stable(ln), (body.key, bi)))
            elif callee_path(t) in self.prog.bodies:
                cb = self.prog.bodies[callee_path(t)]
                for i, a in enumerate(t["args"]):
                    ty = it.op_type(a)
                    if ty.get("k") == "ref" and ty.get("mut") and self._is_source(ty) and self.follow(cb, t):
                        toks.append(("call", cb.pretty, tuple(self.render_arg(S, x) for j, x in enumerate(args) if j != i)))
                        break
                else:
                    if cb.kind != "closure" and not is_derived(cb) and self.follow(cb, t) and self.all_local_calls:
                        toks.append(("call", cb.pretty, tuple(self.render_arg(S, x) for x in args)) + ((tuple(args),) if self.raw_args else ()))
        return toks

    def returned_content(self, S):
        """a function that builds its output as a value (no sink): the typed content of the byte container it returns"""
        v = S.read((self.it.L(0), ()))
        for _ in range(6):
            while isinstance(v, tuple) and v[0] == "upd":
                v = v[1]
            if isinstance(v, tuple) and v[0] == "agg" and v[1] == "core::result::Result" and v[2] == 0 and len(v[3]) == 1:
                v = v[3][0]
            elif isinstance(v, tuple) and v[0] == "model" and v[1] in ("into_bytes", "to_vec"):
                v = v[2]
            else:
                break
        return self.typed_value(S, v)

    def typed_bytes(self, S, src, ty):
        """tokens for appending a byte array that is the big/little-endian image of a number, or an array of known elements"""
        it = self.it
        try:
            v = it.deref_value(S, src, 2, ty)
        except Exception:
            return None
        return self.typed_value(S, v)

    def typed_value(self, S, v):
        for _ in range(4):
            while isinstance(v, tuple) and v[0] == "upd":
                v = v[1]
            if isinstance(v, tuple) and v[0] == "model" and v[1] == "view" and const_val(v[3]) == 0:
                v = v[2]
                continue
            break
        if isinstance(v, tuple) and v[0] == "model" and v[1] == "int-bytes" and v[2] in ("be", "le"):
            order, ity, x = v[2], v[3], v[4]
            if isinstance(x, tuple) and x[0] == "model" and x[1] == "float-bits":
                kind = {"u64": "f64", "u32": "f32"}.get(ity)
                if kind is None:
                    return None
                return [self.value_token(kind + order, S, x[2])]
            if ity == "usize":
                ity = "u64"
            return [self.value_token(ity + order if ity not in ("u8", "i8") else ity, S, x)]
        if isinstance(v, tuple) and v[0] == "agg" and v[1] == "array" and v[3] and len(v[3]) <= 64:
            return [self.value_token("u8", S, e) for e in v[3]]
        # a constant byte array (a named const such as  const END: [u8; 3] = [0, 0, 9]) is its bytes
        c = const_of(v) if is_const(v) else None
        if isinstance(c, tuple) and c and c[0] == "b" and len(c[1]) <= 64:
            return [("u8", "const", b) for b in c[1]]
        return None

    def render_arg(self, S, x):
        """arguments are rendered by value; a reference to a local aggregate is rendered as &<the aggregate>"""
        if isinstance(x, tuple) and x[0] == "ref" and x[1][0][0] in ("L", "PR", "V"):
            v = S.read(x[1])
            from . import interp as I
            if I.root_is_promoted(x[1]):
                v = I.promoted_read(x[1], v)
            if x[1][0][0] == "L" or (isinstance(v, tuple) and v[0] in ("agg", "upd", "k", "vagg", "model")):
                return "&" + render_value(self.prog, v, names=self.names())
        return render_value(self.prog, x, names=self.names()) if isinstance(x, tuple) and x[0] in ("agg", "upd") else stable(x)

    def _is_byte_vec(self, ty):
        t = ty
        while t.get("k") in ("ref", "ptr"):
            t = t["to"]
        return t.get("s") in ("std::vec::Vec<u8>", "alloc::vec::Vec<u8>")

    def _is_source(self, ty):
        t = ty
        while t.get("k") in ("ref", "ptr"):
            t = t["to"]
        s = t.get("s", "")
        return t.get("k") == "param" or "Cursor<" in s or s == "dyn std::io::Read"

    def value_token(self, kind, S, sv):
        c = const_val(sv)
        if c is not None:
            return (kind, "const", c)
        d = S.dom(sv)
        return (kind, "hole", stable(sv), d.lo, d.hi)


def render_value(prog, v, depth=0, names=None):
    """human-readable constructor term: Amf0Value::Boolean(1), Ok(Some(..)), constants as numbers;
    values read from the source are named #k by their position on the path"""
    if depth > 9 or not isinstance(v, tuple):
        return "?"
    if names and v in names:
        return names[v]
    if names and v[0] == "cast" and v[2] in names:
        return "(%s as %s)" % (names[v[2]], v[1])
    h = v[0]
    if h == "k":
        c = const_of(v)
        return repr(c) if isinstance(c, str) else str(c)
    if h == "agg":
        kind, vi, fields = v[1], v[2], v[3]
        if isinstance(kind, str) and kind not in ("tuple", "array"):
            a = prog.adts.get(kind)
            if a is not None:
                vn = a["variants"][vi]["name"] if vi is not None and vi < len(a["variants"]) else "?"
                nm = a["pretty"].split("::")[-1] + ("::" + vn if a["kind"] == "enum" else "")
            elif kind == "core::result::Result":
                nm = ["Ok", "Err"][vi]
            elif kind == "core::option::Option":
                nm = ["None", "Some"][vi]
            else:
                nm = kind.split("::")[-1]
            if not fields:
                return nm
            return "%s(%s)" % (nm, ", ".join(render_value(prog, f, depth + 1, names) for f in fields))
        if kind == "array":
            return "[%s]" % ", ".join(render_value(prog, f, depth + 1, names) for f in fields)
        if kind == "tuple":
            return "(%s)" % ", ".join(render_value(prog, f, depth + 1, names) for f in fields)
        return "%s(%s)" % (kind, ", ".join(render_value(prog, f, depth + 1, names) for f in fields))
    if h == "model" and len(v) > 2 and v[1] == "vec!":
        return "vec!" + render_value(prog, v[2], depth + 1, names)
    if h == "model" and len(v) > 2 and v[1] in ("to_string", "into_bytes", "collect", "to_lowercase"):
        return "%s(%s)" % (v[1], render_value(prog, v[2], depth + 1, names))
    if h == "upd":
        # a vector whose items are known (Vec::new / with_capacity + push / extend) reads like the vec! it is equal to
        from .models import value_items
        its = value_items(v)
        if its is not None and not (isinstance(v[1], tuple) and v[1][0] == "model" and v[1][1] == "vec!" and value_items(v[1]) == its):
            return "vec![%s]" % ", ".join(("..%s" % render_value(prog, e[1], depth + 1, names)) if (isinstance(e, tuple) and e and e[0] == "splice")
                                          else render_value(prog, e, depth + 1, names) for e in its)
        return render_value(prog, v[1], depth, names)
    if h == "bin":
        return "(%s %s %s)" % (render_value(prog, v[3], depth + 1, names), v[1], render_value(prog, v[4], depth + 1, names))
    if h == "cast":
        return "(%s as %s)" % (render_value(prog, v[2], depth + 1, names), v[1])
    if h in ("min", "max"):
        return "%s(%s,%s)" % (h, render_value(prog, v[2], depth + 1, names), render_value(prog, v[3], depth + 1, names))
    if h == "call" and names:
        # a local constructor call wrapping a read value, e.g. RtmpTimestamp::new(#2)
        return stable(v)
    return stable(v)


def emitted(env, key, entry=None, sink_pred=None, follow=None):
    return Extractor(env, key, "w", entry, sink_pred, follow=follow).run()


def reads(env, key, entry=None, follow=None, all_local_calls=False, takes=False, stores=False, ext=False, inline=False, inline_pred=None, call_probe=None):
    ex = Extractor(env, key, "r", entry, follow=follow)
    ex.all_local_calls = all_local_calls
    ex.track_takes = takes
    ex.track_stores = stores
    ex.track_ext = ext
    ex.call_probe = call_probe
    if inline:
        # helpers that no rule names are followed in place; the call token of a followed helper is dropped from the paths
        ex.inline = True
        units = named_units(env.prog)
        ex.inline_pred = inline_pred or (lambda cb, t: cb.pretty.split("::")[-1] not in units)
        ex.run()
        followed = {env.prog.bodies[k].pretty for k in ex.entered}
        ex.paths = [tuple(t for t in p if not (t[0] == "call" and t[1] in followed)) for p in ex.paths]
        return ex
    return ex.run()


_UNITS = {}


def named_units(prog):
    """function names that some rule refers to (string literals in the rule sources that are names of functions of the program):
    these are the units the rules reason about one by one; every other small loop-free local callee is a helper whose paths
    are followed in place, so that moving code into a helper (or back) does not change what a rule sees"""
    if id(prog) in _UNITS:
        return _UNITS[id(prog)]
    import os
    import re as _re
    words = set()
    d = os.path.join(os.path.dirname(os.path.abspath(__file__)), "rules")
    for f in os.listdir(d):
        if f.endswith(".py"):
            for lit in _re.findall(r'"([^"\\]*)"|\'([^\'\\]*)\'', open(os.path.join(d, f)).read()):
                for w in _re.findall(r"[A-Za-z_][A-Za-z0-9_]*", lit[0] or lit[1]):
                    words.add(w)
    fns = {b.pretty.split("::")[-1] for b in prog.bodies.values() if b.kind not in ("closure", "promoted")}
    _UNITS[id(prog)] = fns & words
    return _UNITS[id(prog)]


def trace(env, key, mode="w", entry=None, probe=None, inline=True):
    """everything: sink writes or reads, all local calls with rendered arguments, stores to self, mutating library calls on self;
    paths continue inside small loop-free local callees (the call token is kept as a marker)"""
    ex = Extractor(env, key, mode, entry)
    ex.probe = probe
    ex.inline = inline
    units = named_units(env.prog)
    ex.inline_pred = lambda cb, t: cb.pretty.split("::")[-1] not in units
    ex.all_local_calls = True
    ex.track_takes = True
    ex.track_stores = True
    ex.track_ext = True
    return ex.run()


def ok_paths(ex):
    """paths that end in the success variant; where the function's own code cannot tell (it hands back the Result of a callee that was
    followed in place) the value returned on the path decides: an Err built on the path or an error handed up by `?` is not a success"""
    out = []
    for p in ex.paths:
        if not (p and p[-1][0] == "end" and p[-1][1] in ("ok", "ret", "ok|err")):
            continue
        if p[-1][1] == "ok|err":
            rets = [t for t in p if t[0] == "returns"]
            txt = str(rets[-1][1]) if rets else ""
            if txt.startswith("Err(") or "from_residual" in txt:
                continue
        out.append(p)
    return out


def strip(path, keep=("u8", "u16be", "u24be", "u32be", "u32le", "u16le", "u24le", "f64be", "u64be", "bytes", "call", "again", "read", "read_exact", "read_upto", "when", "unmodelled")):
    return tuple(t for t in path if t[0] in keep or t[0].rstrip("bel") in ("u8", "u16", "u24", "u32", "u64", "f64"))


VERBOSE_CALLS = False


def fmt_tok(t):
    if t[0] == "when":
        return "[%s=%s]" % (t[1], t[2])
    if t[0] == "again":
        return "*"
    if t[0] == "take":
        return "take(%s,%s)" % (t[1], t[2])
    if t[0] == "mut":
        return "MUT[%s.%s(%s)]" % (t[2], t[1], ", ".join(t[3]))
    if t[0] == "call" and len(t) > 2 and t[2] and VERBOSE_CALLS:
        return "<%s(%s)>" % (t[1].split("::")[-1], ", ".join(t[2]))
    if t[0] == "final":
        return "FINAL{%s}" % ", ".join("%s=%s" % x for x in t[1])
    if t[0] == "store":
        return "{%s:=%s}" % (t[1], t[2])
    if t[0] == "returns":
        return "=>%s%s" % (t[1], "".join(" {bb%d:[%s,%s]%s}" % (b, lo, hi, ("\\" + str(list(ex))) if ex else "") for b, lo, hi, ex in t[2]))
    if t[0] == "probe":
        return "PROBE<%s>" % (t[1],)
    if t[0] == "end":
        return "$" + t[1]
    if t[0] == "call":
        return "<%s>" % t[1].split("::")[-1]
    if t[0] == "bytes":
        return "bytes(%s)" % t[1]
    if t[0] in ("read", "read_exact", "read_upto"):
        return "%s:%s" % (t[0], t[1])
    if len(t) >= 3 and t[1] == "const":
        return "%s=%s" % (t[0], t[2])
    if len(t) >= 3 and t[1] == "hole":
        return "%s(%s)" % (t[0], t[2])
    return str(t)


def fmt_path(p):
    return " ".join(fmt_tok(t) for t in p)
