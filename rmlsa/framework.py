"""Rule-instance bookkeeping, known findings / reviewed sites, evidence and verdict output."""
import json, os, sys, time, hashlib
from .loader import span_str

VERIF = os.path.dirname(os.path.dirname(os.path.abspath(__file__)))


class Instance:
    __slots__ = ("rule", "key", "ok", "msg", "span", "status", "nontrivial", "detail", "alt")

    def __init__(self, rule, key, ok, msg, span, nontrivial=True, detail=None, alt=None):
        self.alt = alt
        self.rule = rule
        self.key = key
        self.ok = ok
        self.msg = msg
        self.span = span
        self.status = "discharged" if ok else "open"
        self.nontrivial = nontrivial
        self.detail = detail

    def full_key(self, prop):
        return "%s|%s|%s" % (prop, self.rule, self.key)


class Report:
    def __init__(self, prop, tier="quick"):
        self.prop = prop
        self.tier = tier
        self.instances = []
        self._seen = {}
        self.rule_info = {}       # rule -> {"count": n, "floor": m, "what": text}
        self.functions = set()
        self.call_sites = 0
        self.notes = []
        self.exhaustive = False
        self.assumptions = []
        self.explanation = ""
        self.extra = {}

    # ---------------------------------------------------------------- recording
    def _uniq(self, rule, key):
        n = self._seen.get((rule, key), 0) + 1
        self._seen[(rule, key)] = n
        return key if n == 1 else "%s#%d" % (key, n)

    def ok(self, rule, key, msg, span=None, nontrivial=True, detail=None):
        self.instances.append(Instance(rule, self._uniq(rule, key), True, msg, span, nontrivial, detail))

    def bad(self, rule, key, msg, span=None, detail=None, alt=None):
        self.instances.append(Instance(rule, self._uniq(rule, key), False, msg, span, True, detail, alt))

    def check(self, rule, key, cond, msg_ok, msg_bad=None, span=None, nontrivial=True, detail=None):
        if cond:
            self.ok(rule, key, msg_ok, span, nontrivial, detail)
        else:
            self.bad(rule, key, msg_bad or ("NOT: " + msg_ok), span, detail)
        return cond

    def floor(self, rule, what, count, minimum):
        """a rule that matches fewer instances than were confirmed by hand fails closed"""
        self.rule_info[rule] = {"count": count, "floor": minimum, "what": what}
        if count < minimum:
            self.bad(rule, "anchor-floor", "rule matched %d instance(s) of '%s', expected at least %d (anchor missing or code restructured beyond what the rule recognises)" % (count, what, minimum))

    def anchor_missing(self, rule, what):
        self.bad(rule, "anchor-missing:" + what, "anchor not found: %s" % what)

    def cannot_analyse(self, rule, key, msg, span=None):
        self.bad(rule, "cannot-analyse:" + key, "cannot analyse: " + msg, span)

    def fn(self, key):
        self.functions.add(key)

    # ---------------------------------------------------------------- verdict
    def finish(self, t0, seed=0, write_evidence=True):
        reviewed = load_json(os.path.join(VERIF, "reviewed_sites.json"), {"sites": []})
        known = load_json(os.path.join(VERIF, "known_findings.json"), {"findings": []})
        rev = {}
        for e in reviewed.get("sites", []):
            if "key" in e:
                rev[e["key"]] = e
            for r in e.get("rules", []):
                if "site" in e:
                    rev["%s|%s|%s" % (r.split(".")[0], r, e["site"])] = e
        rev_prefix = []          # (rule, prefix, entry): a reviewed argument about one named function and one kind of site in it
        for e in reviewed.get("sites", []):
            if e.get("site_prefix"):
                for r in e.get("rules", []):
                    rev_prefix.append(("%s|%s|%s" % (r.split(".")[0], r, e["site_prefix"]), e))
        kno = {}
        for e in known.get("findings", []):
            if e.get("status") != "open":
                continue
            if "key" in e:
                kno[e["key"]] = e
            for r in e.get("rules", []):
                kno["%s|%s|%s" % (r.split(".")[0], r, e["site"])] = e
        violations = []
        reviewed_used = []
        known_matched = []
        for inst in self.instances:
            if inst.ok:
                continue
            fk = inst.full_key(self.prop)
            ak = "%s|%s|%s" % (self.prop, inst.rule, inst.alt) if inst.alt else None
            if fk not in rev and fk not in kno and ak is not None and (ak in rev or ak in kno):
                fk = ak
            if fk not in rev and fk not in kno:
                for pre, e in rev_prefix:
                    if fk.startswith(pre):
                        rev[fk] = e
                        break
            if fk in rev:
                inst.status = "reviewed"
                reviewed_used.append({"key": fk, "tag": rev[fk].get("tag"), "argument": rev[fk].get("argument")})
            elif fk in kno:
                inst.status = "known-finding"
                known_matched.append(fk)
                print("KNOWN-FINDING: property=%s %s" % (self.prop, kno[fk].get("what", fk)))
            else:
                inst.status = "violation"
                violations.append(inst)
        vdir = os.path.join(VERIF, "evidence", "violations") if write_evidence else os.path.join(__import__("tempfile").gettempdir(), "rml-selftest-violations")
        os.makedirs(vdir, exist_ok=True)
        for i, v in enumerate(violations):
            path = os.path.join(vdir, "%s-%d.json" % (self.prop, i))
            with open(path, "w") as f:
                json.dump({"property": self.prop, "rule": v.rule, "key": v.full_key(self.prop), "message": v.msg,
                           "location": span_str(v.span) if v.span else None, "detail": v.detail}, f, indent=1)
            print("VIOLATION property=%s replay=%s" % (self.prop, path))
            print("  rule %s at %s: %s" % (v.rule, span_str(v.span) if v.span else "-", v.msg))
            print("  key: %s" % v.full_key(self.prop))
        n = len(self.instances)
        discharged = sum(1 for i in self.instances if i.status in ("discharged", "reviewed"))
        distinct_nt = len({(i.rule, i.key) for i in self.instances if i.nontrivial})
        samples = []
        per_rule_seen = {}
        for inst in self.instances:
            c = per_rule_seen.get(inst.rule, 0)
            if c < 2:
                per_rule_seen[inst.rule] = c + 1
                samples.append({"rule": inst.rule, "instance": inst.key, "status": inst.status, "at": span_str(inst.span) if inst.span else None,
                                "reason": inst.msg[:400]})
        rules = {}
        for inst in self.instances:
            r = rules.setdefault(inst.rule, {"instances": 0, "discharged": 0, "reviewed": 0, "known_findings": 0, "violations": 0})
            r["instances"] += 1
            r[{"discharged": "discharged", "reviewed": "reviewed", "known-finding": "known_findings", "violation": "violations"}[inst.status]] += 1
        for r, info in self.rule_info.items():
            rules.setdefault(r, {"instances": 0, "discharged": 0, "reviewed": 0, "known_findings": 0, "violations": 0}).update(
                {"matched": info["count"], "floor": info["floor"], "what": info["what"]})
        ev = {
            "property_id": self.prop,
            "tier": self.tier,
            "seed": seed,
            "level": "other",
            "coverage": {
                "explanation": self.explanation,
                "obligations": n,
                "discharged": discharged,
                "evaluations": n,
                "distinct_nontrivial": distinct_nt,
                "rule": "one evaluation = one rule instance (obligation) decided from the MIR facts of the current /repo tree; non-trivial = needed a dataflow fact, interval, provenance or table comparison (not a constant-folded check)",
                "samples": samples,
                "functions_analysed": len(self.functions),
                "call_sites": self.call_sites,
                "rule_instances": rules,
                "reviewed_sites_used": reviewed_used,
                "known_findings_matched": known_matched,
                "exhaustive": self.exhaustive,
                "checker_cmd": "./check %s --tier %s" % (self.prop, self.tier),
                "trusted_base": ["rustc MIR (nightly, mir-opt-level=0)", "rmlsa model table (std/bytes/byteorder documentation)",
                                 "spec tables under /verif/spec", "reviewed_sites.json arguments"],
                "notes": self.notes,
            },
            "assumptions": self.assumptions,
            "wall_s": round(time.time() - t0, 2),
            "violations": len(violations),
        }
        ev["coverage"].update(self.extra)
        if write_evidence:
            with open(os.path.join(VERIF, "evidence", "%s.json" % self.prop), "w") as f:
                json.dump(ev, f, indent=1, default=str)
        print("%s: %d rule instances, %d discharged (%d by review), %d known finding(s), %d violation(s), %d functions, %.1fs" % (
            self.prop, n, discharged, len(reviewed_used), len(known_matched), len(violations), len(self.functions), time.time() - t0))
        return 1 if violations else 0


def load_json(path, default):
    try:
        with open(path) as f:
            return json.load(f)
    except FileNotFoundError:
        return default


class PrefixReport:
    """lets one property reuse another property's rule function: instances are recorded in the outer report
    under a different rule prefix (explanation / assumptions of the inner module are ignored)"""

    def __init__(self, outer, old, new, only=None, keys=None):
        object.__setattr__(self, "_keys", keys)      # optional predicate on the instance key (keep only some clauses of a rule)
        object.__setattr__(self, "_o", outer)
        object.__setattr__(self, "_old", old)
        object.__setattr__(self, "_new", new)
        object.__setattr__(self, "_only", only)

    def _r(self, rule):
        return rule.replace(self._old, self._new, 1)

    def _keep(self, rule):
        return self._only is None or any(rule == x or rule.startswith(x + ".") for x in self._only)

    def _keepk(self, rule, key):
        return self._keep(rule) and (self._keys is None or self._keys(key))

    def ok(self, rule, key, *a, **k):
        if self._keepk(rule, key):
            self._o.ok(self._r(rule), key, *a, **k)

    def bad(self, rule, key, *a, **k):
        if self._keepk(rule, key):
            self._o.bad(self._r(rule), key, *a, **k)

    def check(self, rule, key, cond, *a, **k):
        if self._keepk(rule, key):
            return self._o.check(self._r(rule), key, cond, *a, **k)
        return cond

    def floor(self, rule, *a, **k):
        if self._keep(rule):
            self._o.floor(self._r(rule), *a, **k)

    def anchor_missing(self, rule, what):
        self._o.anchor_missing(self._r(rule), what)

    def cannot_analyse(self, rule, *a, **k):
        if self._keep(rule):
            self._o.cannot_analyse(self._r(rule), *a, **k)

    def fn(self, key):
        self._o.fn(key)

    def __getattr__(self, name):
        return getattr(self._o, name)

    def __setattr__(self, name, value):
        if name in ("explanation", "assumptions", "exhaustive"):
            return
        setattr(self._o, name, value)


def wants(rep, rule_prefix):
    """does this report keep instances of rules starting with rule_prefix (False lets a module skip work whose results a
    reusing property would drop anyway)"""
    r = rep
    while isinstance(r, PrefixReport):
        only = object.__getattribute__(r, "_only")
        if only is not None and not any(x == rule_prefix or x.startswith(rule_prefix + ".") or rule_prefix.startswith(x + ".") for x in only):
            return False
        r = object.__getattribute__(r, "_o")
        # the outer report sees the renamed rule; an outer filter applies to the new name, which we cannot know here: keep
        break
    return True
