"""Facts loader: program model (bodies, CFG, dominators, loops, call graph) over the JSON the
mirfacts driver writes.  Nothing here executes library code."""
import json, os, sys
from collections import defaultdict


class Place:
    __slots__ = ("local", "proj", "ty")

    def __init__(self, j):
        self.local = j["l"]
        self.proj = j["p"]
        self.ty = j["t"]

    def is_local(self):
        return not self.proj

    def key(self):
        """hashable access path (local, (proj elems...)) with field indexes only"""
        out = []
        for e in self.proj:
            if e == "*":
                out.append("*")
            elif isinstance(e, dict):
                if "f" in e:
                    out.append(("f", e["f"], e["n"]))
                elif "dc" in e:
                    out.append(("dc", e["vi"], e["dc"]))
                elif "ix" in e:
                    out.append(("ix", e["ix"]))
                elif "ci" in e:
                    out.append(("ci", e["ci"], e["from_end"]))
                else:
                    out.append(("sub",))
            else:
                out.append(("?",))
        return (self.local, tuple(out))

    def __str__(self):
        s = "_%d" % self.local
        for e in self.proj:
            if e == "*":
                s = "(*%s)" % s
            elif isinstance(e, dict):
                if "f" in e:
                    s = "%s.%s" % (s, e["n"])
                elif "dc" in e:
                    s = "(%s as %s)" % (s, e["dc"])
                elif "ix" in e:
                    s = "%s[_%d]" % (s, e["ix"])
                elif "ci" in e:
                    s = "%s[%s%d]" % (s, "-" if e["from_end"] else "", e["ci"])
                else:
                    s = "%s[sub]" % s
            else:
                s = "%s.?" % s
        return s


def op_place(op):
    if "c" in op:
        return Place(op["c"])
    if "m" in op:
        return Place(op["m"])
    return None


def op_const(op):
    return op.get("k")


def const_int(k):
    """value of an integer/bool constant as python int (unsigned bits), else None"""
    if k is None:
        return None
    if "int" in k:
        return k["int"]
    if "bool" in k:
        return 1 if k["bool"] else 0
    return None


def ty_int_range(t):
    """(lo, hi) of an integer/bool type info, else None"""
    k = t.get("k")
    if k == "uint":
        return (0, (1 << t["bits"]) - 1)
    if k == "int":
        return (-(1 << (t["bits"] - 1)), (1 << (t["bits"] - 1)) - 1)
    if k == "bool":
        return (0, 1)
    if k == "char":
        return (0, 0x10FFFF)
    return None


def to_signed(v, t):
    if t.get("k") == "int":
        bits = t["bits"]
        if v >= 1 << (bits - 1):
            return v - (1 << bits)
    return v


def op_str(op):
    p = op_place(op)
    if p is not None:
        return ("copy " if "c" in op else "move ") + str(p)
    k = op.get("k")
    if k is None:
        return "?op"
    if "fn" in k:
        return "fn %s" % k["fn"]
    if "int" in k:
        return "const %d_%s" % (to_signed(k["int"], k["t"]), k["t"]["s"])
    if "bool" in k:
        return "const %s" % k["bool"]
    if "str" in k:
        return "const %r" % k["str"]
    if "bytes" in k:
        return "const bytes[%d]" % len(k["bytes"])
    if "promoted" in k:
        return "promoted[%d]" % k["promoted"]
    if "zst" in k:
        return "const zst:%s" % k["t"]["s"]
    if "float_bits" in k:
        return "const float_bits %d" % k["float_bits"]
    return "const ?%s" % k["t"]["s"]


def rv_str(rv):
    k = rv["k"]
    if k == "use":
        return op_str(rv["a"])
    if k == "ref":
        return "&%s%s" % ("mut " if rv["mut"] else "", Place(rv["place"]))
    if k == "rawptr":
        return "&raw %s" % Place(rv["place"])
    if k == "bin":
        return "%s(%s, %s)" % (rv["op"], op_str(rv["a"]), op_str(rv["b"]))
    if k == "un":
        return "%s(%s)" % (rv["op"], op_str(rv["a"]))
    if k == "cast":
        return "%s as %s (%s)" % (op_str(rv["a"]), rv["to"]["s"], rv["ck"])
    if k == "discr":
        return "discriminant(%s)" % Place(rv["place"])
    if k == "agg":
        if rv["ak"] == "adt":
            return "%s::%s{%s}" % (rv["adt"], rv["variant"], ", ".join("%s: %s" % (f, op_str(o)) for f, o in zip(rv["fields"], rv["ops"])))
        return "%s[%s]" % (rv["ak"], ", ".join(op_str(o) for o in rv["ops"]))
    if k == "repeat":
        return "[%s; %s]" % (op_str(rv["a"]), rv["n"])
    if k == "setdiscr":
        return "setdiscr %d" % rv["vi"]
    return "?rv %s" % rv.get("dbg", "")


def span_str(sp):
    f = sp["f"]
    if f.startswith("/"):
        parts = f.split("/")
        f = "/".join(parts[-3:])
    return "%s:%d:%d" % (f, sp["l"], sp["c"])


class Body:
    def __init__(self, j, prog):
        self.j = j
        self.prog = prog
        self.key = j["key"]
        self.owner = j["owner"]
        self.pretty = j["pretty"]
        self.kind = j["kind"]
        self.parent = j["parent"]
        self.is_pub = j["pub"]
        self.reachable = j["reachable"]
        self.name = j["name"]
        self.impl = j["impl"]
        self.arg_count = j["arg_count"]
        self.locals = j["locals"]
        self.blocks = j["blocks"]
        self.span = j["span"]
        self.crate = self.key.split("::")[0]
        self._cfg()

    # ---------------------------------------------------------------- CFG
    def term_succs(self, bi):
        t = self.blocks[bi]["term"]
        k = t["k"]
        if k == "goto":
            return [t["t"]]
        if k == "switch":
            return [b for _, b in t["targets"]] + [t["otherwise"]]
        if k in ("call", "assert", "drop"):
            return [t["t"]] if t.get("t") is not None else []
        return []

    def _cfg(self):
        n = len(self.blocks)
        self.succs = [[] for _ in range(n)]
        self.preds = [[] for _ in range(n)]
        for i in range(n):
            if self.blocks[i]["cleanup"]:
                continue
            seen = set()
            for s in self.term_succs(i):
                if self.blocks[s]["cleanup"] or s in seen:
                    continue
                seen.add(s)
                self.succs[i].append(s)
                self.preds[s].append(i)
        # reachable + RPO
        order = []
        seen = set()
        stack = [(0, iter(self.succs[0]))]
        seen.add(0)
        while stack:
            node, it = stack[-1]
            adv = False
            for s in it:
                if s not in seen:
                    seen.add(s)
                    stack.append((s, iter(self.succs[s])))
                    adv = True
                    break
            if not adv:
                order.append(node)
                stack.pop()
        self.rpo = list(reversed(order))
        self.rpo_index = {b: i for i, b in enumerate(self.rpo)}
        self.reach = seen
        self.idom = self._dominators(0, self.succs, self.preds, self.rpo)
        # exits: return blocks (and diverging ends) for post-dominators
        self.return_blocks = [b for b in self.rpo if self.blocks[b]["term"]["k"] == "return"]
        self._loops()

    @staticmethod
    def _dominators(entry, succs, preds, rpo):
        idx = {b: i for i, b in enumerate(rpo)}
        idom = {entry: entry}
        changed = True
        while changed:
            changed = False
            for b in rpo:
                if b == entry:
                    continue
                new = None
                for p in preds[b]:
                    if p in idom and p in idx:
                        if new is None:
                            new = p
                        else:
                            a, c = p, new
                            while a != c:
                                while idx[a] > idx[c]:
                                    a = idom[a]
                                while idx[c] > idx[a]:
                                    c = idom[c]
                            new = a
                if new is not None and idom.get(b) != new:
                    idom[b] = new
                    changed = True
        return idom

    def dominates(self, a, b):
        """block a dominates block b"""
        if a not in self.idom or b not in self.idom:
            return False
        while True:
            if a == b:
                return True
            nb = self.idom[b]
            if nb == b:
                return False
            b = nb

    def _loops(self):
        self.back_edges = []
        for b in self.rpo:
            for s in self.succs[b]:
                if self.dominates(s, b):
                    self.back_edges.append((b, s))
        self.loops = {}  # header -> set of blocks
        for (t, h) in self.back_edges:
            body = self.loops.setdefault(h, {h})
            stack = [t]
            while stack:
                x = stack.pop()
                if x in body:
                    continue
                body.add(x)
                stack.extend(p for p in self.preds[x] if p in self.reach)
        self.loop_heads = set(self.loops)

    # ---------------------------------------------------------------- helpers
    def local_name(self, l):
        return self.locals[l]["name"]

    def local_ty(self, l):
        return self.locals[l]["t"]

    def calls(self):
        for bi in self.rpo:
            t = self.blocks[bi]["term"]
            if t["k"] == "call":
                yield bi, t

    def dump(self, out=sys.stdout):
        out.write("fn %s  [%s] args=%d pub=%s %s\n" % (self.key, self.kind, self.arg_count, self.is_pub, span_str(self.span)))
        for i, l in enumerate(self.locals):
            out.write("   let _%d: %s%s\n" % (i, l["t"]["s"], ("  // " + l["name"]) if l["name"] else ""))
        for bi, b in enumerate(self.blocks):
            if b["cleanup"] or bi not in self.reach:
                continue
            out.write(" bb%d:%s\n" % (bi, "  (loop head)" if bi in self.loop_heads else ""))
            for s in b["stmts"]:
                out.write("    %s = %s    @%d%s\n" % (Place(s["place"]), rv_str(s["rv"]), s["span"]["l"], " x" if s["span"]["x"] else ""))
            t = b["term"]
            k = t["k"]
            if k == "call":
                c = t["callee"]
                out.write("    %s = CALL %s<%s>(%s) -> bb%s   @%d\n" % (Place(t["dest"]), c.get("path", "?"), ",".join(c.get("generics", [])), ", ".join(op_str(a) for a in t["args"]), t["t"], t["span"]["l"]))
            elif k == "switch":
                out.write("    SWITCH %s %s otherwise bb%d\n" % (op_str(t["discr"]), ["%d->bb%d" % (v, b2) for v, b2 in t["targets"]], t["otherwise"]))
            elif k == "assert":
                out.write("    ASSERT %s == %s [%s](%s) -> bb%d  @%d\n" % (op_str(t["cond"]), t["expected"], t["akind"], ", ".join(op_str(o) for o in t["ops"]), t["t"], t["span"]["l"]))
            elif k == "goto":
                out.write("    goto bb%d\n" % t["t"])
            elif k == "drop":
                out.write("    drop(%s) -> bb%d\n" % (Place(t["place"]), t["t"]))
            else:
                out.write("    %s\n" % k)


class Program:
    def __init__(self, facts_dir, crates=("rml_amf0", "rml_rtmp")):
        self.bodies = {}
        self.adts = {}
        self.crates = {}
        for c in crates:
            path = os.path.join(facts_dir, c + ".json")
            with open(path) as f:
                j = json.load(f)
            self.crates[c] = j
            for b in j["bodies"]:
                body = Body(b, self)
                self.bodies[body.key] = body
            for a in j["adts"]:
                self.adts[a["key"]] = a
        self.closures_of = defaultdict(list)
        for b in self.bodies.values():
            if b.kind == "closure" and b.parent:
                self.closures_of[b.parent].append(b.key)
        self._callgraph()

    def _callgraph(self):
        self.callees = defaultdict(set)   # body key -> set of local body keys (incl closures & promoteds owner)
        self.callers = defaultdict(set)
        self.ext_calls = defaultdict(list)
        for b in self.bodies.values():
            if b.kind == "promoted":
                continue
            for bi, t in b.calls():
                c = t["callee"]
                p = c.get("path")
                if p in self.bodies:
                    self.callees[b.key].add(p)
                    self.callers[p].add(b.key)
                else:
                    self.ext_calls[b.key].append((bi, c))
            # closures constructed in this body are treated as callees (they are passed to combinators)
            for ck in self.closures_of.get(b.key, []):
                self.callees[b.key].add(ck)
                self.callers[ck].add(b.key)

    def find(self, suffix, kind=None):
        """bodies whose pretty path or key ends with suffix"""
        out = [b for b in self.bodies.values() if (b.key.endswith(suffix) or b.pretty.endswith(suffix)) and b.kind != "promoted" and (kind is None or b.kind == kind)]
        return out

    def one(self, suffix):
        r = self.find(suffix)
        if len(r) != 1:
            raise KeyError("anchor %r matched %d bodies: %s" % (suffix, len(r), [b.key for b in r][:5]))
        return r[0]

    def reachable_from(self, entries):
        seen = set()
        stack = list(entries)
        while stack:
            k = stack.pop()
            if k in seen:
                continue
            seen.add(k)
            stack.extend(self.callees.get(k, ()))
        return seen

    def adt_variant(self, adt_key, vi):
        return self.adts[adt_key]["variants"][vi]


if __name__ == "__main__":
    prog = Program(sys.argv[1])
    if len(sys.argv) > 2:
        for suf in sys.argv[2:]:
            for b in prog.find(suf):
                b.dump()
    else:
        for k in sorted(prog.bodies):
            b = prog.bodies[k]
            print(b.kind, k, "|", b.pretty, "| pub" if b.is_pub else "", len(b.blocks))
