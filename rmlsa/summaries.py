"""Interprocedural part: per-variant success post-conditions of local callees (bottom-up), entry
states of crate-private functions (top-down, join over every call site) and private-field
invariants (assume-guarantee).  No bodies are inlined."""
from .absint import *
from .absint import _rel_bound, _is_intlike
from .loader import Place, op_place
from . import interp as I


def entry_svs_of(it):
    """all callee-entry loads the analysis of `it` touched"""
    out = set()

    def visit(sv, depth=0):
        if not isinstance(sv, tuple) or depth > 7:
            return
        if sv and sv[0] == "ld" and sv[2] == "entry":
            out.add(sv)
            root = sv[1][0]
            if root[0] == "P":
                visit(root[1], depth + 1)
            return
        for x in sv[1:]:
            if isinstance(x, tuple):
                if x and isinstance(x[0], str):
                    visit(x, depth + 1)
                else:
                    for y in x:
                        if isinstance(y, tuple):
                            visit(y, depth + 1)
                            if y and not isinstance(y[0], str):
                                for z in y:
                                    visit(z, depth + 1)

    for S in it.entry_states.values():
        for v in S.mem.values():
            visit(v)
        for k in S.doms:
            visit(k)
        for (a, b) in S.zone:
            visit(a)
            visit(b)
    return out


def is_entry_expr(sv, depth=0):
    """term built only from entry loads, constants and arithmetic (translatable to a caller)"""
    if not isinstance(sv, tuple) or depth > 6:
        return False
    h = sv[0]
    if h == "k":
        return True
    if h == "ld":
        if sv[2] != "entry":
            return False
        root = sv[1][0]
        if root[0] == "L":
            return True
        if root[0] == "P":
            return is_entry_expr(root[1], depth + 1)
        return False
    if h == "cast":
        return is_entry_expr(sv[2], depth + 1)
    if h == "bin":
        return is_entry_expr(sv[3], depth + 1) and is_entry_expr(sv[4], depth + 1)
    if h in ("min", "max"):
        return is_entry_expr(sv[2], depth + 1) and is_entry_expr(sv[3], depth + 1)
    if h == "discr":
        return is_entry_expr(sv[1], depth + 1)
    if h == "agg":
        return all(is_entry_expr(x, depth + 1) for x in sv[3])
    return False


def translate(sv, caller_it, S, args, argc, leafmap=None, R=None, depth=0):
    """rewrite a callee-entry term into the caller's terms at a call site (S = state before the call)"""
    if leafmap is not None and sv in leafmap and R is not None:
        return project(R, leafmap[sv])
    if not isinstance(sv, tuple) or depth > 7:
        return None
    h = sv[0]
    if h == "k":
        return sv
    if h == "ld" and sv[2] == "entry":
        root, proj = sv[1]
        if root[0] == "L":
            i = root[1]
            if not (1 <= i <= argc) or i - 1 >= len(args):
                return None
            base = args[i - 1]
            return project(base, proj) if proj else base
        if root[0] == "P":
            X = translate(root[1], caller_it, S, args, argc, leafmap, R, depth + 1)
            if X is None:
                return None
            loc = caller_it.target(X)
            v = S.read((loc[0], loc[1] + proj))
            if I.root_is_promoted(loc):
                v = I.promoted_read((loc[0], loc[1] + proj), v)
            t = sv_type(sv)
            if t is not None and sv_type(v) is None and isinstance(v, tuple) and v[0] not in ("agg", "ref", "upd", "vagg"):
                set_ty(v, t)
            return v
        return None
    if h == "cast":
        x = translate(sv[2], caller_it, S, args, argc, leafmap, R, depth + 1)
        return None if x is None else ("cast", sv[1], x)
    if h == "bin":
        a = translate(sv[3], caller_it, S, args, argc, leafmap, R, depth + 1)
        b = translate(sv[4], caller_it, S, args, argc, leafmap, R, depth + 1)
        if a is None or b is None:
            return None
        return ("bin", sv[1], sv[2], a, b)
    if h in ("min", "max"):
        a = translate(sv[2], caller_it, S, args, argc, leafmap, R, depth + 1)
        b = translate(sv[3], caller_it, S, args, argc, leafmap, R, depth + 1)
        if a is None or b is None:
            return None
        return (h, sv[1], a, b)
    if h == "discr":
        x = translate(sv[1], caller_it, S, args, argc, leafmap, R, depth + 1)
        return None if x is None else ("discr", x)
    if h == "agg":
        fs = [translate(x, caller_it, S, args, argc, leafmap, R, depth + 1) for x in sv[3]]
        if any(f is None for f in fs):
            return None
        return ("agg", sv[1], sv[2], tuple(fs))
    return None


def int_leaves(v, path=(), depth=0, adt_variants=None):
    """(path, sv) of integer-typed leaves of a returned value"""
    out = []
    if depth > 3 or not isinstance(v, tuple):
        return out
    if v[0] == "agg":
        kind, vi, fields = v[1], v[2], v[3]
        for i, f in enumerate(fields):
            if isinstance(kind, str) and kind not in ("tuple", "array") and kind in ENUM_ADTS:
                p = path + (("dc", vi, VARIANT_NAMES.get((kind, vi), str(vi))), ("f", i, FIELD_NAMES.get((kind, vi, i), str(i))))
            else:
                p = path + (("f", i, FIELD_NAMES.get((kind, 0, i), str(i)) if isinstance(kind, str) else str(i)),)
            out += int_leaves(f, p, depth + 1)
        return out
    if v[0] == "upd":
        return int_leaves(v[1], path, depth)
    if v[0] in ("vagg", "ref"):
        return out
    if _is_intlike(v) or (v[0] == "k" and isinstance(v[2], int)):
        out.append((path, v))
    return out


ENUM_ADTS = set(["core::option::Option", "core::result::Result"])
VARIANT_NAMES = {("core::option::Option", 0): "None", ("core::option::Option", 1): "Some",
                 ("core::result::Result", 0): "Ok", ("core::result::Result", 1): "Err"}
FIELD_NAMES = {("core::option::Option", 1, 0): "0", ("core::result::Result", 0, 0): "0", ("core::result::Result", 1, 0): "0"}


def init_names(prog):
    for k, a in prog.adts.items():
        if a["kind"] == "enum":
            ENUM_ADTS.add(k)
        for vi, v in enumerate(a["variants"]):
            VARIANT_NAMES[(k, vi)] = v["name"]
            for i, f in enumerate(v["fields"]):
                FIELD_NAMES[(k, vi, i)] = f["name"]


class Post:
    """facts common to every path of a callee that returns a given variant (callee terms)"""

    def __init__(self):
        self.facts = []      # ("dom", sv, Dom) | ("le", a, b, k)
        self.leafmap = {}    # callee leaf sv -> projection path in the returned value
        self.nsites = 0


def compute_posts(ctx, key, spec=()):
    """{discriminant value or None: Post}; {} when the return value is not built at explicit sites"""
    body = ctx.prog.bodies[key]
    if spec:
        E = State()
        for (pi, d) in spec:
            if isinstance(d, tuple) and d[0] == "int":
                # an integer parameter that is a constant at this call site
                psv = ("ld", (("L", pi, key), ()), "entry")
                set_ty(psv, tykey(body.locals[pi]["t"]))
                E.doms[psv] = Dom(d[1], d[1])
            else:
                E.doms[("discr", ("ld", (("L", pi, key), ()), "entry"))] = Dom(d, d)
        it = I.Interp(ctx, body, E)
        it.run()
    else:
        it = ctx.top_interp(key)
    if it is None:
        return {}
    ret_ty = body.locals[0]["t"]
    is_enum = ret_ty.get("k") == "adt" and (ret_ty["adt"] in ENUM_ADTS)
    if ret_ty.get("k") == "bool":
        is_enum = "bool"     # a predicate: post-conditions per truth value
    sites = {}      # discr -> [State]
    ok = True
    for bi in body.rpo:
        S0 = it.entry_states.get(bi)
        if S0 is None:
            continue
        S = S0.copy()
        blk = body.blocks[bi]
        dead = False
        for si, st in enumerate(blk["stmts"]):
            it.cur = (bi, si)
            it.counter = 0
            it.transfer_stmt(S, st)
            if S.dead:
                dead = True
                break
            pl = st["place"]
            if pl["l"] == 0:
                if pl["p"]:
                    ok = False
                else:
                    if not _record_site(it, S, sites, is_enum):
                        ok = False
        if dead:
            continue
        t = blk["term"]
        if t["k"] == "call" and t["dest"]["l"] == 0:
            if t["dest"]["p"]:
                ok = False
            else:
                it.cur = (bi, len(blk["stmts"]))
                it.counter = 0
                for succ, S2 in it.flow(S, bi):
                    if not _record_site(it, S2, sites, is_enum):
                        ok = False
    if not ok:
        return {}
    posts = {}
    for d, states in sites.items():
        P = states[0]
        for S in states[1:]:
            P = join_states(P, S, ("post", key, d))
        v = P.read((it.L(0), ()))
        post = Post()
        post.nsites = len(states)
        leaves = int_leaves(v)
        for path, sv in leaves:
            if not is_const(sv):
                post.leafmap[sv] = path
        exportable = lambda x: is_const(x) or x in post.leafmap or is_entry_expr(x)
        # unary facts
        seen = set()
        for sv, dm in P.doms.items():
            if not exportable(sv) or is_const(sv):
                continue
            d0 = P._default_dom(sv, 0)
            dd = P.dom(sv)
            if dd != d0:
                post.facts.append(("dom", sv, dd))
                seen.add(sv)
        # leaves that are constants in this variant: keep as dom facts on the projection
        for path, sv in leaves:
            if is_const(sv):
                post.facts.append(("leafconst", path, sv))
            elif is_entry_expr(sv) and _is_intlike(sv):
                # the returned field is one expression over what the caller passed in: equal to it at the call site
                post.facts.append(("eqleaf", path, sv))
        # relational facts: zone entries, and leaf-vs-entry bounds implied by unary facts
        for (a, b), k in P.zone.items():
            if exportable(a) and exportable(b):
                post.facts.append(("le", a, b, k))
        ents = [sv for sv in seen if sv not in post.leafmap and _is_intlike(sv)]
        for path, lsv in leaves:
            for e in ents:
                k1 = _rel_bound(P, lsv, e)
                if k1 is not None and abs(k1) <= (1 << 16):
                    post.facts.append(("le", lsv if not is_const(lsv) else lsv, e, k1))
                k2 = _rel_bound(P, e, lsv)
                if k2 is not None and abs(k2) <= (1 << 16):
                    post.facts.append(("le", e, lsv, k2))
        posts[d] = post
    return posts


def _record_site(it, S, sites, is_enum):
    v = S.read((it.L(0), ()))
    if is_enum == "bool":
        c = const_val(v)
        if isinstance(c, bool):
            c = 1 if c else 0
        if c is None:
            dd = S.dom(v)
            if dd.lo != dd.hi:
                # the value of a comparison: one site per truth value, each refined by what that truth value means
                for val in (0, 1):
                    S2 = S.copy()
                    it.assume(S2, v, val)
                    if not S2.dead:
                        sites.setdefault(("bool", val), []).append(S2)
                return True
            c = dd.lo
        sites.setdefault(("bool", c), []).append(S.copy())
        return True
    if is_enum:
        dd = S.dom(("discr", v)) if not (isinstance(v, tuple) and v[0] == "agg") else None
        if isinstance(v, tuple) and v[0] == "agg" and isinstance(v[1], str) and it.ctx.variant_discr(v[1], v[2]) is not None:
            d = it.ctx.variant_discr(v[1], v[2])
            # Ok(Some(x)) / Ok(None): one post per inner variant as well, registered on the inner discriminant
            if len(v[3]) == 1:
                inner = v[3][0]
                while isinstance(inner, tuple) and inner[0] == "upd":
                    inner = inner[1]
                if isinstance(inner, tuple) and inner[0] == "agg" and isinstance(inner[1], str) and inner[1] in ENUM_ADTS and inner[2] is not None:
                    path = (("dc", v[2], VARIANT_NAMES.get((v[1], v[2]), str(v[2]))), ("f", 0, FIELD_NAMES.get((v[1], v[2], 0), "0")))
                    sites.setdefault(("nest", d, path, it.ctx.variant_discr(inner[1], inner[2])), []).append(S.copy())
        elif dd is not None and dd.lo == dd.hi:
            d = dd.lo
        else:
            return False
    else:
        d = None
    sites.setdefault(d, []).append(S.copy())
    return True


def apply_posts(it, S_pre, S, t, args, R, posts, callee_body):
    """register the callee's per-variant post-conditions at a call site; unconditional ones are applied"""
    argc = callee_body.arg_count
    for d, post in posts.items():
        facts = []
        for f in post.facts:
            if f[0] == "dom":
                x = translate(f[1], it, S_pre, args, argc, post.leafmap, R)
                if x is not None and not is_const(x):
                    facts.append(("dom", x, f[2]))
            elif f[0] == "leafconst":
                x = project(R, f[1])
                c = const_val(f[2])
                if c is not None and not is_const(x):
                    set_ty(x, f[2][1])
                    facts.append(("dom", x, Dom(c, c)))
            elif f[0] == "eqleaf":
                x = project(R, f[1])
                y = translate(f[2], it, S_pre, args, argc)
                if y is not None and not is_const(x):
                    t_ = sv_type(f[2])
                    if t_ is not None and sv_type(x) is None:
                        set_ty(x, t_)
                    facts.append(("le", x, y, 0))
                    facts.append(("le", y, x, 0))
                    dy = S_pre.dom(y)
                    if dy != S_pre._default_dom(y, 0):
                        facts.append(("dom", x, dy))
            elif f[0] == "le":
                a = translate(f[1], it, S_pre, args, argc, post.leafmap, R)
                b = translate(f[2], it, S_pre, args, argc, post.leafmap, R)
                if a is not None and b is not None:
                    facts.append(("le", a, b, f[3]))
        if not facts:
            continue
        if d is None:
            for f in facts:
                if f[0] == "le":
                    S.add_le(f[1], f[2], f[3])
                else:
                    S.set_dom(f[1], f[2])
        elif isinstance(d, tuple) and d[0] == "bool":
            key = (R, d[1])
            it.cond[key] = it.cond.get(key, []) + facts
        elif isinstance(d, tuple) and d[0] == "nest":
            key = (("discr", project(R, d[2])), d[3])
            it.cond[key] = it.cond.get(key, []) + facts
        else:
            key = (("discr", R), d)
            it.cond[key] = it.cond.get(key, []) + facts


# ------------------------------------------------------------------------------------ entry states
def site_entry(ctx, caller_it, bi, t, callee_key, entry_svs):
    S = caller_it.exit_state(bi)
    if S is None or S.dead:
        return None
    caller_it.cur = (bi, len(caller_it.body.blocks[bi]["stmts"]))
    caller_it.counter = 0
    args = [caller_it.eval_op(S, a) for a in t["args"]]
    argc = ctx.prog.bodies[callee_key].arg_count
    E = State()
    trans = {}
    for C in entry_svs:
        if not (_is_intlike(C) or sv_type(C) == "bool" or C[0] == "ld"):
            continue
        X = translate(C, caller_it, S, args, argc)
        if X is None:
            continue
        trans[C] = X
        if _is_intlike(C) or sv_type(C) == "bool":
            d = S.dom(X)
            if d != E._default_dom(C, 0):
                E.doms[C] = d
        # discriminants of entry values (enum-typed parameters / fields)
        dsv = ("discr", C)
        dx = ("discr", X)
        if isinstance(X, tuple) and X[0] == "agg" and isinstance(X[1], str) and X[2] is not None and X[1] in ENUM_ADTS:
            dv = ctx.variant_discr(X[1], X[2])
            if dv is not None:
                E.doms[dsv] = Dom(dv, dv)
        elif dx in S.doms:
            E.doms[dsv] = S.dom(dx)
    ints = [C for C in trans if _is_intlike(C)]
    if len(ints) <= 24:
        for i, c1 in enumerate(ints):
            for c2 in ints[i + 1:]:
                x1, x2 = trans[c1], trans[c2]
                for (a, b, xa, xb) in ((c1, c2, x1, x2), (c2, c1, x2, x1)):
                    (ba, oa), (bb, ob) = S.norm(xa), S.norm(xb)
                    if ba is None or bb is None:
                        continue
                    if ba == bb:
                        E.zone[(a, b)] = oa - ob
                        continue
                    z = S.zone.get((ba, bb))
                    if z is not None:
                        E.zone[(a, b)] = z + oa - ob
    return E


def join_entry(A, B):
    if A is None:
        return B
    if B is None:
        return A
    E = State()
    for sv in set(A.doms) & set(B.doms):
        E.doms[sv] = A.doms[sv].hull(B.doms[sv])
    for k in set(A.zone) & set(B.zone):
        E.zone[k] = max(A.zone[k], B.zone[k])
    return E


def compute_entry_states(ctx, rounds=4, roots=None):
    prog = ctx.prog
    # call sites per callee
    sites = {}
    for b in prog.bodies.values():
        if b.kind == "promoted":
            continue
        for bi, t in b.calls():
            p = t["callee"].get("path")
            if p in prog.bodies:
                sites.setdefault(p, []).append((b.key, bi, t))
    targets = [k for k, b in prog.bodies.items() if b.kind in ("fn", "assoc") and not b.reachable and k in sites
               and not (b.impl and b.impl.get("derived"))]
    targets.sort()
    entry_svs = {}
    for k in targets:
        entry_svs[k] = entry_svs_of(ctx.interp(k))
    changed_count = {}
    for rnd in range(rounds):
        any_change = False
        for k in targets:
            E = None
            first = True
            for (ck, bi, t) in sites[k]:
                cb = prog.bodies[ck]
                if cb.impl and cb.impl.get("derived"):
                    continue
                cit = ctx.interp(ck)
                Es = site_entry(ctx, cit, bi, t, k, entry_svs[k])
                if Es is None:
                    continue    # unreachable call site
                E = Es if first else join_entry(E, Es)
                first = False
            if E is None:
                E = State()
            old = ctx.entries.get(k)
            if old is None or not (old.doms == E.doms and old.zone == E.zone):
                n = changed_count.get(k, 0) + 1
                changed_count[k] = n
                if n > 3 and old is not None:
                    # widening across rounds: keep only what stayed stable
                    W = State()
                    for sv, d in E.doms.items():
                        od = old.doms.get(sv)
                        if od is not None:
                            base = W._default_dom(sv, 0)
                            W.doms[sv] = Dom(d.lo if d.lo >= od.lo else base.lo, d.hi if d.hi <= od.hi else base.hi)
                    for kk, v in E.zone.items():
                        ov = old.zone.get(kk)
                        if ov is not None and v <= ov:
                            W.zone[kk] = v
                    E = W
                    if old.doms == E.doms and old.zone == E.zone:
                        continue
                ctx.entries[k] = E
                ctx.interps.pop(k, None)
                any_change = True
        if not any_change:
            break
    return ctx.entries


# ------------------------------------------------------------------------------------ field invariants
def compute_field_invariants(ctx, rounds=2):
    """interval invariants of private integer fields of local structs: hull of every stored value"""
    prog = ctx.prog
    cands = {}
    for ak, a in prog.adts.items():
        if a["kind"] != "struct":
            continue
        for i, f in enumerate(a["variants"][0]["fields"]):
            if (f["vis"] != "pub" or not a.get("reachable", True)) and f["t"].get("k") in ("uint", "int"):
                cands[(ak, i)] = {"name": f["name"], "ty": f["t"]["s"], "stores": [], "escaped": False}
    for rnd in range(rounds):
        for c in cands.values():
            c["stores"] = []
            c["escaped"] = False
        for key, b in prog.bodies.items():
            if b.kind == "promoted" or (b.impl and b.impl.get("derived")):
                continue
            it = ctx.interp(key)
            v = _StoreVisitor(cands)
            it.walk(v, collect=False)
        inv = {}
        for fk, c in cands.items():
            if c["escaped"] or not c["stores"]:
                continue
            d = None
            for (dom, where) in c["stores"]:
                d = dom if d is None else d.hull(dom)
            r = ty_range(c["ty"])
            if d is not None and r is not None and (d.lo > r[0] or d.hi < r[1]):
                inv[fk] = d
        if inv == ctx.field_inv:
            break
        ctx.field_inv = inv
        ctx.interps.clear()
    ctx.field_cands = cands
    return ctx.field_inv


class _StoreVisitor:
    def __init__(self, cands):
        self.cands = cands

    def stmt(self, it, S, bi, si, st):
        pl = st["place"]
        rv = st["rv"]
        if pl["p"]:
            last = pl["p"][-1]
            if isinstance(last, dict) and "f" in last and last.get("a"):
                fk = (last["a"], last["f"])
                c = self.cands.get(fk)
                if c is not None and rv["k"] != "setdiscr":
                    v = it.eval_rvalue(S.copy(), rv, Place(pl))
                    c["stores"].append((S.dom(v), (it.body.key, st["span"])))
        if rv["k"] == "agg" and rv.get("ak") == "adt":
            for i, o in enumerate(rv["ops"]):
                c = self.cands.get((rv["adt"], i))
                if c is not None:
                    v = it.eval_op(S, o)
                    c["stores"].append((S.dom(v), (it.body.key, st["span"])))
        if rv["k"] in ("ref", "rawptr") and rv.get("mut"):
            p = rv["place"]["p"]
            if p:
                last = p[-1]
                if isinstance(last, dict) and "f" in last and last.get("a"):
                    c = self.cands.get((last["a"], last["f"]))
                    if c is not None:
                        c["escaped"] = True

    def term(self, it, S, bi, t):
        pass
