"""Queries shared by the rule modules: entry sets, reachability, call-site iteration with states,
constant evaluation, dominance between program points."""
from .loader import Place, op_place, span_str
from .absint import *
from . import interp as I

NET_ENTRIES = [
    "handshake::Handshake::process_bytes",
    "chunk_io::deserializer::ChunkDeserializer::get_next_message",
    "messages::message_payload::MessagePayload::to_rtmp_message",
    "sessions::server::ServerSession::handle_input",
    "sessions::client::ClientSession::handle_input",
    "deserialization::deserialize",
]

API_TYPES = [
    "handshake::Handshake", "chunk_io::serializer::ChunkSerializer", "chunk_io::deserializer::ChunkDeserializer",
    "sessions::server::ServerSession", "sessions::client::ClientSession", "messages::message_payload::MessagePayload",
    "messages::RtmpMessage",
]
API_FNS = ["serialization::serialize", "deserialization::deserialize"]


def body_by_pretty(prog, pretty):
    r = [b for b in prog.bodies.values() if b.pretty == pretty and b.kind != "promoted"]
    return r[0] if len(r) == 1 else None


def net_entries(prog, rep=None, rule="anchors"):
    out = []
    for p in NET_ENTRIES:
        b = body_by_pretty(prog, p)
        if b is None:
            if rep is not None:
                rep.anchor_missing(rule, "network entry point " + p)
            continue
        out.append(b.key)
    return out


def api_entries(prog, rep=None, rule="anchors"):
    out = []
    for b in prog.bodies.values():
        if b.kind == "promoted" or not b.is_pub or not b.reachable:
            continue
        if b.impl is not None and b.impl.get("trait") is None:
            st = b.impl["self_ty"]
            if any(st == t or st.endswith("::" + t) for t in API_TYPES):
                out.append(b.key)
        elif b.kind == "fn" and b.pretty in API_FNS:
            out.append(b.key)
    return sorted(out)


def reachable(prog, entries):
    return prog.reachable_from(entries)


def is_derived(b):
    return bool(b.impl and b.impl.get("derived"))


def is_display_or_debug(b):
    return b.name in ("fmt", "source") and b.impl and b.impl.get("trait") in (
        "core::fmt::Debug", "core::fmt::Display", "core::error::Error")


def callee_name(t):
    return norm_name(t["callee"].get("pretty"))


def callee_path(t):
    return t["callee"].get("path")


def calls_in(body):
    """(block index, terminator) of every reachable call"""
    return list(body.calls())


def find_calls(body, pred):
    return [(bi, t) for bi, t in body.calls() if pred(callee_name(t), t)]


def args_at(ctx, body_key, bi):
    """(state before the call, argument SVs)"""
    it = ctx.interp(body_key)
    S = it.exit_state(bi)
    if S is None:
        return None, None
    t = it.body.blocks[bi]["term"]
    it.cur = (bi, len(it.body.blocks[bi]["stmts"]))
    it.counter = 0
    args = [it.eval_op(S, a) for a in t["args"]]
    return S, args


def block_dominates(body, a, b):
    return body.dominates(a, b)


def fn_short(key):
    return key.split("::", 1)[1] if "::" in key else key


def contains(sv, pred, depth=0):
    """does any subterm of sv satisfy pred"""
    if depth > 8 or not isinstance(sv, tuple) or not sv:
        return False
    if isinstance(sv[0], str) and pred(sv):
        return True
    for x in sv[1:]:
        if isinstance(x, tuple):
            if x and isinstance(x[0], str) and contains(x, pred, depth + 1):
                return True
            if x and not isinstance(x[0], str):
                for y in x:
                    if isinstance(y, tuple):
                        if contains(y, pred, depth + 1):
                            return True
                        if y and not isinstance(y[0], str):
                            for z in y:
                                if isinstance(z, tuple) and contains(z, pred, depth + 1):
                                    return True
    return False


def strip_casts(sv):
    while isinstance(sv, tuple) and sv[0] in ("cast",):
        sv = sv[2]
    return sv


def is_param_load(sv, idx=None):
    return isinstance(sv, tuple) and sv[0] == "ld" and sv[2] == "entry" and sv[1][0][0] == "L" and not sv[1][1] and (idx is None or sv[1][0][1] == idx)


def entry_field_path(sv):
    """for a load of the form  (*argN).f.g  return (N, ('f','g')) else None"""
    if not (isinstance(sv, tuple) and sv[0] == "ld"):
        return None
    root, proj = sv[1]
    if root[0] == "P" and is_param_load(root[1]):
        names = tuple(e[2] if e[0] in ("f", "dc") else e[0] for e in proj)
        return (root[1][1][0][1], names)
    if root[0] == "L" and sv[2] == "entry":
        names = tuple(e[2] if e[0] in ("f", "dc") else e[0] for e in proj)
        return (root[1], names)
    return None


def const_of(sv):
    if is_const(sv):
        v = sv[2]
        if isinstance(v, tuple) and v[0] == "s":
            return v[1]
        return v
    return None
