"""The interpreter proper: transfer functions over MIR statements / terminators, library models,
fixpoint iteration and the replay ("walk") the rules use to query states and collect obligations."""
import re
from .loader import Place, op_place, const_int, ty_int_range, span_str, to_signed
from .absint import *
from . import absint

PROMOTED = absint.PROMOTED_VALUES      # ("PR", body key) -> value SV of the promoted constant


class Obligation:
    __slots__ = ("body", "bi", "kind", "what", "proved", "span", "detail", "callee", "expn")

    def __init__(self, body, bi, kind, what, proved, span, detail="", callee=None):
        self.body = body
        self.bi = bi
        self.kind = kind          # bounds | overflow:Add | div0 | precond:<model> | panic | unwrap
        self.what = what          # stable description of the site (no line numbers)
        self.proved = proved
        self.span = span
        self.detail = detail      # human-readable: operands, intervals, facts
        self.callee = callee
        self.expn = span.get("x") if span else None

    def key(self):
        return "%s|%s|%s" % (self.body, self.kind, self.what)


EXTERNAL_DISCR = {"core::cmp::Ordering": {0: -1, 1: 0, 2: 1}}
INDEX_IS_DISCR = {"core::option::Option", "core::result::Result", "core::ops::control_flow::ControlFlow", "tuple", "array"}


class Ctx:
    """analysis context shared by all function analyses of one run"""

    def __init__(self, prog):
        self.prog = prog
        self.ret_shapes = {}
        self.ret_exprs = {}
        self.effect_cache = {}
        self.top_interps = {}
        self.write_sets = {}
        self.in_progress = set()
        self.entries = {}            # body key -> State (top-down, crate-private functions)
        self.field_inv = {}          # (adt key, field index) -> Dom
        self.field_cands = {}
        self.posts_cache = {}
        self.posts_in_progress = set()
        from . import summaries
        summaries.init_names(prog)
        self.interps = {}
        self.unit_enums = {}
        for k, a in prog.adts.items():
            if a["kind"] == "enum":
                ds = [int(v["discr"]) for v in a["variants"]]
                if ds:
                    DISCR_RANGE[k] = (min(ds), max(ds))
                for vi, v in enumerate(a["variants"]):
                    absint.DISCR_OF[(k, vi)] = int(v["discr"])
                self.unit_enums[k] = all(not v["fields"] for v in a["variants"])
        DISCR_RANGE.setdefault("core::option::Option", (0, 1))
        DISCR_RANGE.setdefault("core::result::Result", (0, 1))
        DISCR_RANGE.setdefault("core::ops::control_flow::ControlFlow", (0, 1))
        # enums of the standard library are not in the facts file; the ones below are the ones whose values the models build.
        # Ordering has explicit discriminants (-1, 0, 1): a match on it switches on those, not on the variant index.
        DISCR_RANGE.setdefault("core::cmp::Ordering", (-1, 1))
        for vi, dv in EXTERNAL_DISCR["core::cmp::Ordering"].items():
            absint.DISCR_OF.setdefault(("core::cmp::Ordering", vi), dv)

    def variant_discr(self, adt, vi):
        """discriminant value of variant vi; None when the enum is not known (the caller must then keep the value opaque)"""
        a = self.prog.adts.get(adt)
        if a is None:
            if adt in EXTERNAL_DISCR:
                return EXTERNAL_DISCR[adt].get(vi)
            if adt in INDEX_IS_DISCR:
                return vi
            return None
        if a["kind"] != "enum" or vi >= len(a["variants"]):
            return vi
        return int(a["variants"][vi]["discr"])

    def interp(self, key):
        """analysis of a body under its entry state (top for externally reachable functions)"""
        if key in self.interps:
            return self.interps[key]
        it = Interp(self, self.prog.bodies[key], self.entries.get(key))
        it.run()
        self.interps[key] = it
        return it

    def posts(self, key, spec=()):
        """per-variant success post-conditions; `spec` = ((param index, discriminant), ...) specialises the
        analysis to call sites whose by-value enum arguments are of known variants (one level of context)"""
        ck = (key, spec)
        if ck in self.posts_cache:
            return self.posts_cache[ck]
        if ck in self.posts_in_progress or (spec and len(self.posts_in_progress) > 6):
            return {}
        self.posts_in_progress.add(ck)
        try:
            from . import summaries
            p = summaries.compute_posts(self, key, spec)
            self.posts_cache[ck] = p
            return p
        finally:
            self.posts_in_progress.discard(ck)

    def top_interp(self, key):
        """analysis of a body under the top entry state (valid for every caller); None inside recursion"""
        if key in self.top_interps:
            return self.top_interps[key]
        if key in self.in_progress:
            return None
        self.in_progress.add(key)
        try:
            it = Interp(self, self.prog.bodies[key], None)
            it.run()
            self.top_interps[key] = it
            return it
        finally:
            self.in_progress.discard(key)

    def write_set(self, key):
        """{param index: set of projection prefixes the callee may write through that parameter} or None = unknown"""
        if key in self.write_sets:
            return self.write_sets[key]
        it = self.top_interp(key)
        if it is None:
            return None
        ws = {}
        unknown = False
        for (root, proj) in it.writes:
            X = root[1]
            if isinstance(X, tuple) and X[0] == "ld" and X[2] == "entry" and X[1][0][0] == "L" and not X[1][1] and 1 <= X[1][0][1] <= it.body.arg_count:
                ws.setdefault(X[1][0][1], set()).add(proj)
            elif isinstance(X, tuple) and X[0] in ("call", "model", "proj", "elem", "fresh", "phi"):
                continue     # memory obtained inside the callee (not reachable from the caller's named locations)
            else:
                unknown = True
        res = None if unknown else ws
        self.write_sets[key] = res
        return res

    def effects(self, key):
        """for a small local function: {(param index, projection): expression over its parameters} giving the final
        value of every location it writes through a reference parameter, when all of them are such expressions
        (setters, constructors-in-place); None otherwise"""
        if key in self.effect_cache:
            return self.effect_cache[key]
        res = None
        it = self.top_interp(key)
        ws = self.write_set(key)
        if it is not None and ws and len(it.body.blocks) <= 48 and len(it.body.return_blocks) == 1:
            from . import summaries
            S = it.exit_state(it.body.return_blocks[0])
            if S is not None and not S.dead:
                res = {}
                for i, projs in ws.items():
                    base = (("P", ("ld", (it.L(i), ()), "entry")), ())
                    for pr in projs:
                        v = S.read((base[0], pr))
                        # a location whose final value is not one expression over the parameters is simply unknown afterwards
                        res[(i, pr)] = v if summaries.is_entry_expr(v) else None
                if all(v is None for v in res.values()):
                    res = None
        self.effect_cache[key] = res
        return res

    def ret_expr(self, key):
        """for a side-effect-free local function whose result is one expression over its parameters
        (a trivial constructor / getter): that expression in callee terms, else None"""
        if key in self.ret_exprs:
            return self.ret_exprs[key]
        res = None
        it = self.top_interp(key)
        if it is not None and not it.writes and len(it.body.blocks) <= 6:
            from . import summaries
            vals = []
            for bi in it.body.return_blocks:
                S = it.exit_state(bi)
                if S is not None and not S.dead:
                    vals.append(S.read((it.L(0), ())))
            if len(vals) == 1 and summaries.is_entry_expr(vals[0]) and not is_const(vals[0]):
                res = vals[0]
        self.ret_exprs[key] = res
        return res

    def ret_shape(self, key):
        if key in self.ret_shapes:
            return self.ret_shapes[key]
        it = self.top_interp(key)
        if it is None:
            return None
        if True:
            shape = None
            for bi in it.body.return_blocks:
                S = it.exit_state(bi)
                if S is None or S.dead:
                    continue
                v = S.read((it.L(0), ()))
                sh = shape_of(v, S, self, tykey(it.body.locals[0]["t"]))
                shape = sh if shape is None else join_shape(shape, sh)
            self.ret_shapes[key] = shape
            return shape


# ------------------------------------------------------------------------------------ return shapes
def shape_of(v, S, ctx, ty=None, depth=0):
    """abstract shape of a value: {'dom': Dom|None, 'variants': {vi: [shapes]|None}|None}"""
    sh = {"dom": None, "variants": None}
    if depth > 3:
        return sh
    t = ty or sv_type(v)
    ti = TYINFO.get(t) if t else None
    if ti and ti.get("k") in ("uint", "int", "bool"):
        d = S.dom(v)
        sh["dom"] = d
        return sh
    if isinstance(v, tuple) and v[0] == "agg":
        vi = v[2] if v[2] is not None else 0
        sh["variants"] = {vi: [shape_of(f, S, ctx, None, depth + 1) for f in v[3]]}
        return sh
    if isinstance(v, tuple) and v[0] == "vagg":
        sh["variants"] = {vi: [shape_of(f, S, ctx, None, depth + 1) for f in fields] for vi, fields in v[2]}
        return sh
    if isinstance(v, tuple) and v[0] == "upd" and isinstance(v[1], tuple) and v[1][0] in ("agg", "vagg"):
        return shape_of(v[1], S, ctx, ty, depth)
    if ti and ti.get("k") == "adt":
        d = S.dom(("discr", v))
        vals = d.values(16)
        if vals is not None and d.lo != -INF:
            sh["variants"] = {}
            for x in vals:
                # payload shapes through projections, when they carry integer information
                sh["variants"][x] = None
    return sh


def join_shape(a, b):
    if a is None or b is None:
        return None
    out = {"dom": None, "variants": None}
    if a["dom"] is not None and b["dom"] is not None:
        out["dom"] = a["dom"].hull(b["dom"])
    if a["variants"] is not None and b["variants"] is not None:
        vs = {}
        for vi in set(a["variants"]) | set(b["variants"]):
            fa, fb = a["variants"].get(vi, "absent"), b["variants"].get(vi, "absent")
            if fa == "absent":
                vs[vi] = fb
            elif fb == "absent":
                vs[vi] = fa
            elif fa is None or fb is None or len(fa) != len(fb):
                vs[vi] = None
            else:
                vs[vi] = [join_shape(x, y) or {"dom": None, "variants": None} for x, y in zip(fa, fb)]
        out["variants"] = vs
    return out


def apply_shape(S, R, shape, ctx, adt=None, depth=0):
    if shape is None or depth > 3:
        return
    if shape["dom"] is not None:
        S.set_dom(R, shape["dom"])
    if shape["variants"] is not None:
        vis = sorted(shape["variants"])
        if vis:
            discrs = [ctx.variant_discr(adt, vi) if adt else vi for vi in vis]
            if None not in discrs:
                lo, hi = min(discrs), max(discrs)
                excl = frozenset(x for x in range(lo, hi + 1) if x not in discrs)
                S.set_dom(("discr", R), Dom(lo, hi, excl))
        for vi, fields in shape["variants"].items():
            if not fields:
                continue
            vname = str(vi)
            a = ctx.prog.adts.get(adt) if adt else None
            if a is not None and vi < len(a["variants"]):
                vname = a["variants"][vi]["name"]
            elif adt in ("core::option::Option",):
                vname = ["None", "Some"][vi]
            elif adt in ("core::result::Result",):
                vname = ["Ok", "Err"][vi]
            for i, fsh in enumerate(fields):
                if fsh is None:
                    continue
                fname = str(i)
                if a is not None and vi < len(a["variants"]) and i < len(a["variants"][vi]["fields"]):
                    fname = a["variants"][vi]["fields"][i]["name"]
                elems = (("f", i, fname),) if (a is not None and a["kind"] == "struct") else (("dc", vi, vname), ("f", i, fname))
                P = project(R, elems)
                apply_shape(S, P, fsh, ctx, None, depth + 1)


# ------------------------------------------------------------------------------------ interpreter
class Interp:
    MAX_VISITS = 40

    def __init__(self, ctx, body, entry=None):
        self.ctx = ctx
        self.prog = ctx.prog
        self.body = body
        self.entry = entry
        self.entry_states = {}
        self.visits = {}
        self.obligations = None     # list when collecting
        self.cur = None             # (bi, si)
        self.counter = 0
        self.cond = {}              # (sv, val) -> [("le", a, b, k)] conditional facts (site-determined, global per body)
        self.site_tag = None

    # ---------------------------------------------------------------- entry
    def initial_state(self):
        if self.entry is not None:
            return self.entry.copy()
        S = State()
        return S

    def L(self, n):
        """memory root of local n of this body (unique per body, so SVs of different functions never coincide)"""
        return ("L", n, self.body.key)

    def site(self, extra=None):
        bi, si = self.cur
        if self.site_tag is not None:
            # an activation inlined into a replayed path: values created here are distinct per call site
            extra = ("in", self.site_tag) if extra is None else (extra, "in", self.site_tag)
        if extra is None:
            return (self.body.key, bi, si)
        return (self.body.key, bi, si, extra)

    # ---------------------------------------------------------------- places and operands
    def resolve(self, S, place):
        root = self.L(place.local)
        proj = []
        loc = (root, ())
        for e in place.proj:
            if e == "*":
                v = S.read((root, tuple(proj)))
                if isinstance(v, tuple) and v[0] == "ref":
                    root, p2 = v[1]
                    proj = list(p2)
                else:
                    if sv_type(v) is None:
                        pass
                    root = ("P", v)
                    proj = []
            elif isinstance(e, dict):
                if "f" in e:
                    proj.append(("f", e["f"], e["n"]))
                elif "dc" in e:
                    proj.append(("dc", e["vi"], e["dc"]))
                elif "ix" in e:
                    proj.append(("ix",))
                elif "ci" in e:
                    proj.append(("ix", e["ci"]) if not e.get("from_end") and isinstance(e["ci"], int) else ("ix",))
                else:
                    proj.append(("ix",))
            else:
                proj.append(("?",))
        return (root, tuple(proj))

    def read_place(self, S, place):
        loc = self.resolve(S, place)
        if any(e[0] in ("ix", "?") for e in loc[1]):
            self.counter += 1
            idx = None
            for e in loc[1]:
                if e[0] == "ix" and len(e) > 1:
                    idx = e[1]
            for e in place.proj:
                if isinstance(e, dict) and "ix" in e:
                    iv = S.read((self.L(e["ix"]), ()))
                    idx = const_val(iv)
                elif isinstance(e, dict) and "ci" in e and not e.get("from_end"):
                    idx = e["ci"]
            cut = next(i for i, e in enumerate(loc[1]) if e[0] in ("ix", "?"))
            if isinstance(idx, int) and not isinstance(idx, bool) and loc[1][cut][0] == "ix":
                # an element of an array whose elements are known (an aggregate built in this function)
                bv = S.read((loc[0], loc[1][:cut]))
                while isinstance(bv, tuple) and bv[0] == "upd" and not any(p and p[0][0] == "ix" for p, _ in bv[2]):
                    bv = bv[1]
                if isinstance(bv, tuple) and bv[0] == "agg" and bv[1] == "array" and 0 <= idx < len(bv[3]):
                    v = project(bv[3][idx], loc[1][cut + 1:]) if loc[1][cut + 1:] else bv[3][idx]
                    if sv_type(v) is None and isinstance(v, tuple) and v[0] not in ("agg", "ref", "upd", "k"):
                        set_ty(v, tykey(place.ty))
                    return v
            v = ("elem", self.site(self.counter), idx, (loc[0], loc[1][:cut]))
            set_ty(v, tykey(place.ty))
            return v
        v = S.read(loc)
        if root_is_promoted(loc):
            v = promoted_read(loc, v)
        if sv_type(v) is None and isinstance(v, tuple) and v[0] not in ("agg", "ref", "upd"):
            set_ty(v, tykey(place.ty))
        if self.ctx.field_inv and place.proj:
            last = place.proj[-1]
            if isinstance(last, dict) and "f" in last and last.get("a"):
                inv = self.ctx.field_inv.get((last["a"], last["f"]))
                if inv is not None and not is_const(v):
                    S.set_dom(v, inv)
        return v

    def eval_op(self, S, op):
        p = op_place(op)
        if p is not None:
            return self.read_place(S, p)
        k = op["k"]
        ty = tykey(k["t"])
        if "int" in k:
            return K(ty, to_signed(k["int"], k["t"]))
        if "bool" in k:
            return K(ty, 1 if k["bool"] else 0)
        if "str" in k:
            return K(ty, ("s", k["str"]))
        if "bytes" in k:
            return K(ty, ("b", tuple(k["bytes"])))
        if "fn" in k:
            return K(ty, ("fn", k["fn"]))
        if "promoted" in k:
            return self.promoted_value(k)
        if "float_bits" in k:
            return K(ty, ("fl", k["float_bits"]))
        if "zst" in k:
            return K(ty, "zst")
        return K(ty, ("?", k.get("named") or k.get("val") or k.get("uneval") or "opaque"))

    def promoted_value(self, k):
        key = "%s::promoted[%d]" % (k["promoted_of"], k["promoted"])
        root = ("PR", key)
        if root not in PROMOTED:
            PROMOTED[root] = ("k", "?", ("?", "promoted-in-progress"))
            pb = self.prog.bodies.get(key)
            val = None
            if pb is not None:
                it = Interp(self.ctx, pb, None)
                it.run()
                for bi in pb.return_blocks:
                    S = it.exit_state(bi)
                    if S is None:
                        continue
                    v0 = S.read((it.L(0), ()))
                    if isinstance(v0, tuple) and v0[0] == "ref" and v0[1][0][0] == "L":
                        val = S.read(v0[1])
                    else:
                        val = ("deref-of", v0)
            PROMOTED[root] = val if val is not None else ("k", "?", ("?", key))
        v = PROMOTED[root]
        if isinstance(v, tuple) and v[0] == "deref-of":
            return v[1]
        return ("ref", (root, ()))

    def op_type(self, op):
        p = op_place(op)
        if p is not None:
            return p.ty
        return op["k"]["t"]

    # ---------------------------------------------------------------- helper: references and lengths
    def target(self, v):
        if isinstance(v, tuple) and v[0] == "ref":
            return v[1]
        return (("P", v), ())

    def deref_value(self, S, v, max_depth=3, ty=None):
        """value behind (possibly nested) references; `ty` is the static type of v when known (needed to
        dereference a pointer whose target is not a named location, e.g. a reference-typed parameter)"""
        for _ in range(max_depth):
            if isinstance(v, tuple) and v[0] == "ref":
                loc = v[1]
                nv = S.read(loc)
                if root_is_promoted(loc):
                    nv = promoted_read(loc, nv)
                v = nv
                if ty is not None and ty.get("k") in ("ref", "ptr"):
                    ty = ty["to"]
            elif ty is not None and ty.get("k") in ("ref", "ptr") and isinstance(v, tuple) and v[0] not in ("k",):
                nv = S.read((("P", v), ()))
                ty = ty["to"]
                if sv_type(nv) is None and isinstance(nv, tuple) and nv[0] not in ("agg", "ref", "upd", "vagg"):
                    set_ty(nv, tykey(ty))
                v = nv
            else:
                break
        return v

    def len_of_ref(self, S, v, ty):
        """length of the container / slice / array a reference-typed operand value designates"""
        t = ty
        while t and t.get("k") in ("ref", "ptr"):
            t = t["to"]
        if t and t.get("k") == "array" and t.get("len") is not None:
            return K("usize", t["len"])
        if is_const(v) and isinstance(v[2], tuple) and v[2][0] in ("s", "b"):
            return K("usize", len(v[2][1].encode()) if v[2][0] == "s" else len(v[2][1]))
        loc = self.target(v)
        lv = S.read((loc[0], loc[1] + (("len",),)))
        set_ty(lv, "usize")
        return lv

    def len_of_value(self, S, v, ty):
        """length pseudo-field of an owned container value"""
        if ty and ty.get("k") == "array" and ty.get("len") is not None:
            return K("usize", ty["len"])
        lv = project(v, (("len",),))
        set_ty(lv, "usize")
        return lv

    def with_len(self, R, lensv):
        return ("upd", R, (((("len",),), lensv),))

    # ---------------------------------------------------------------- statements
    def transfer_stmt(self, S, st):
        place = Place(st["place"])
        rv = st["rv"]
        k = rv["k"]
        if k == "setdiscr":
            S.havoc(self.resolve(S, place), self.site())
            return
        v = self.eval_rvalue(S, rv, place)
        loc = self.resolve(S, place)
        if any(e[0] in ("ix", "?") for e in loc[1]):
            # weak update of a summarised element: remember what was written into the container
            cut = next(i for i, e in enumerate(loc[1]) if e[0] in ("ix", "?"))
            base = (loc[0], loc[1][:cut])
            old = S.read(base)
            if isinstance(old, tuple) and old[0] == "model" and old[1] == "array-with":
                items = old[3] if v in old[3] or len(old[3]) >= 4 else old[3] + (v,)
                new = ("model", "array-with", old[2], items)
            else:
                new = ("model", "array-with", old, (v,))
            keep = [(k, x) for k, x in S.mem.items() if k[0] == base[0] and len(k[1]) > len(base[1]) and k[1][:len(base[1])] == base[1]]
            S.write(base, new)
            for k, x in keep:
                S.mem[k] = x
            return
        if isinstance(v, tuple) and v[0] in ("agg",) and sv_type(v) is None:
            set_ty(v, tykey(place.ty))
        S.write(loc, v)

    def eval_rvalue(self, S, rv, dest):
        k = rv["k"]
        if k == "use":
            return self.eval_op(S, rv["a"])
        if k == "ref" or k == "rawptr":
            p = Place(rv["place"])
            if p.proj == ["*"]:
                # a pure reborrow &*p is the pointer p itself
                pv = S.read((self.L(p.local), ()))
                if isinstance(pv, tuple) and pv[0] != "ref":
                    if sv_type(pv) is None and pv[0] not in ("agg", "upd", "vagg", "k"):
                        set_ty(pv, tykey(self.body.locals[p.local]["t"]))
                    return pv
            loc = self.resolve(S, p)
            return ("ref", loc)
        if k == "bin":
            return self.eval_bin(S, rv, dest)
        if k == "un":
            a = self.eval_op(S, rv["a"])
            op = rv["op"]
            if op == "Not":
                ty = tykey(dest.ty)
                if ty == "bool":
                    ca = const_val(a)
                    if ca is not None:
                        return K("bool", 1 - ca)
                    return ("not", a)
                return set_ty(("fresh", self.site()), ty)
            if op == "PtrMetadata":
                return self.len_of_ref(S, a, self.op_type(rv["a"]))
            return set_ty(("fresh", self.site()), tykey(dest.ty))
        if k == "cast":
            a = self.eval_op(S, rv["a"])
            to = tykey(rv["to"])
            ck = rv["ck"]
            if ck.startswith("IntToInt"):
                ca = const_val(a)
                if ca is not None:
                    r = ty_range(to)
                    if r:
                        width = r[1] - r[0] + 1
                        v = (ca - r[0]) % width + r[0]
                        return K(to, v)
                return ("cast", to, a)
            if ck.startswith("PtrToPtr") or "Unsize" in ck or ck.startswith("PointerCoercion") or ck.startswith("Transmute"):
                if isinstance(a, tuple) and a[0] != "ref" and "Unsize" in ck and not is_const(a):
                    a = ("ref", self.target(a))
                if isinstance(a, tuple) and a[0] == "ref":
                    src_t = self.op_type(rv["a"])
                    t = src_t
                    while t and t.get("k") in ("ref", "ptr"):
                        t = t["to"]
                    if "Unsize" in ck and t and t.get("k") == "array" and t.get("len") is not None:
                        # &[T; N] -> &[T]: a view of the same storage whose length is N
                        view = (("V", self.site()), ())
                        S.write((view[0], (("len",),)), K("usize", t["len"]))
                        S.mem[(view[0], (("of",),))] = a
                        return ("ref", view)
                    return a
                # pointer-to-pointer casts and transmutes keep the pointer's identity; pointer-to-integer is opaque
                if rv["to"].get("k") in ("ptr", "ref", "adt"):
                    return a
                return set_ty(("fresh", self.site()), to)
            return set_ty(("fcast", to, a), to)
        if k == "discr":
            p = Place(rv["place"])
            v = self.read_place(S, p)
            return self.discr_of(S, v, p.ty)
        if k == "agg":
            ops = tuple(self.eval_op(S, o) for o in rv["ops"])
            ak = rv["ak"]
            if ak == "adt":
                return ("agg", rv["adt"], rv["vi"], ops)
            if ak == "tuple":
                return ("agg", "tuple", 0, ops)
            if ak == "array":
                return ("agg", "array", 0, ops)
            if ak == "closure":
                return ("agg", ("closure", rv["closure"]), 0, ops)
            return set_ty(("fresh", self.site()), tykey(dest.ty))
        if k == "repeat":
            a = self.eval_op(S, rv["a"])
            return ("model", "repeat", a, K("usize", rv["n"] if rv["n"] is not None else -1))
        return set_ty(("fresh", self.site()), tykey(dest.ty))

    def discr_of(self, S, v, ty):
        adt = ty.get("adt") if ty.get("k") == "adt" else None
        while isinstance(v, tuple) and v[0] == "upd":
            # an update refines / overwrites payload fields below a downcast, never the variant itself
            v = v[1]
        if isinstance(v, tuple) and v[0] == "agg" and isinstance(v[1], str) and v[2] is not None and self.ctx.variant_discr(v[1], v[2]) is not None:
            return K("isize", self.ctx.variant_discr(v[1], v[2]))
        if isinstance(v, tuple) and v[0] == "try":
            x = v[1]
            while isinstance(x, tuple) and x[0] == "upd":
                x = x[1]
            if isinstance(x, tuple) and x[0] == "agg" and isinstance(x[1], str) and x[2] is not None and self.ctx.variant_discr(x[1], x[2]) is not None:
                inner = K("isize", self.ctx.variant_discr(x[1], x[2]))
            else:
                inner = ("discr", x)
            if v[2] == "R":
                return inner
            return ("cmp", "Eq", inner, K("isize", 0))
        d = ("discr", v)
        if adt and sv_type(v) is None:
            set_ty(v, tykey(ty))
        return d

    def eval_bin(self, S, rv, dest):
        op = rv["op"]
        a = self.eval_op(S, rv["a"])
        b = self.eval_op(S, rv["b"])
        aty = tykey(self.op_type(rv["a"]))
        if op in ("Eq", "Ne", "Lt", "Le", "Gt", "Ge"):
            r = S.eval_cmp(op, a, b) if (ty_range(aty) is not None) else None
            if r is not None:
                return K("bool", 1 if r else 0)
            return ("cmp", op, a, b)
        checked = op.endswith("WithOverflow")
        base = op.replace("WithOverflow", "").replace("Unchecked", "")
        if base in ("Add", "Mul", "BitAnd", "BitOr", "BitXor") and is_const(a) and not is_const(b):
            a, b = b, a           # commutative: constants second, so that  c | x  and  x | c  are the same term
        if base == "BitOr" and not checked:
            asm = assemble_bytes(("bin", "BitOr", aty, a, b))
            if asm is not None:
                R = ("model", "uint-from-bytes", asm[0], asm[1], ("ref", asm[2]), self.site())
                set_ty(R, aty)
                S.set_dom(R, Dom(0, 2 ** (8 * asm[1]) - 1))
                return R
        if base in ("Add", "Sub", "Mul", "Div", "Rem", "BitAnd", "BitOr", "BitXor", "Shl", "Shr"):
            rng = ty_range(aty)
            ca, cb = const_val(a), const_val(b)
            val = None
            if ca is not None and cb is not None and rng is not None:
                try:
                    val = {"Add": lambda: ca + cb, "Sub": lambda: ca - cb, "Mul": lambda: ca * cb,
                           "Div": lambda: ca // cb if cb else None, "Rem": lambda: ca % cb if cb else None,
                           "BitAnd": lambda: ca & cb, "BitOr": lambda: ca | cb, "BitXor": lambda: ca ^ cb,
                           "Shl": lambda: ca << cb, "Shr": lambda: ca >> cb}[base]()
                except Exception:
                    val = None
            if checked:
                if val is not None:
                    fits = rng[0] <= val <= rng[1]
                    width = rng[1] - rng[0] + 1
                    wv = (val - rng[0]) % width + rng[0]
                    return ("agg", "tuple", 0, (K(aty, wv), K("bool", 0 if fits else 1)))
                res = ("bin", base, aty, a, b)
                return ("agg", "tuple", 0, (res, ("ovf", base, aty, a, b)))
            if val is not None and rng is not None:
                width = rng[1] - rng[0] + 1
                return K(aty, (val - rng[0]) % width + rng[0])
            if base in ("Add", "Sub", "Mul", "Shl") and not op.endswith("Unchecked"):
                return ("bin", base + "W", aty, a, b)
            return ("bin", base, aty, a, b)
        return set_ty(("fresh", self.site()), tykey(dest.ty))

    # ---------------------------------------------------------------- obligations
    def oblige(self, kind, what, proved, span, detail="", callee=None):
        if self.obligations is not None:
            self.obligations.append(Obligation(self.body.key, self.cur[0], kind, what, proved, span, detail, callee))

    def describe(self, S, sv):
        d = S.dom(sv)
        return "%s in %s" % (sv_str(sv), d)

    # ---------------------------------------------------------------- terminators
    def flow(self, S, bi):
        """yield (successor, state) pairs for block bi's terminator applied to S"""
        t = self.body.blocks[bi]["term"]
        k = t["k"]
        out = []
        if k == "goto":
            out.append((t["t"], S))
        elif k == "switch":
            dv = self.eval_op(S, t["discr"])
            dty = self.op_type(t["discr"])
            vals = []
            for raw, tb in t["targets"]:
                val = to_signed(raw, dty)
                vals.append(val)
                S2 = S.copy()
                self.assume(S2, dv, val)
                if not S2.dead:
                    out.append((tb, S2))
            S3 = S.copy()
            self.assume_not(S3, dv, vals)
            if not S3.dead:
                out.append((t["otherwise"], S3))
        elif k == "assert":
            cond = self.eval_op(S, t["cond"])
            exp = 1 if t["expected"] else 0
            self.check_assert(S, t, cond, exp)
            S2 = S.copy()
            self.assume(S2, cond, exp)
            if not S2.dead:
                out.append((t["t"], S2))
        elif k == "call":
            S2 = S.copy()
            self.transfer_call(S2, t)
            if t.get("t") is not None and not S2.dead:
                out.append((t["t"], S2))
        elif k == "drop":
            out.append((t["t"], S))
        # return / unreachable / resume / other: no successors
        return out

    def assume(self, S, sv, val):
        S.assume(sv, val)
        if not S.dead:
            self.apply_cond(S, sv, val)

    def assume_not(self, S, sv, vals):
        S.assume_not(sv, vals)
        if not S.dead and not is_const(sv):
            d = S.dom(sv)
            if d.lo == d.hi:
                self.apply_cond(S, sv, d.lo)

    def apply_cond(self, S, sv, val, _depth=0):
        for node in (sv,):
            facts = self.cond.get((node, val))
            if facts:
                for f in facts:
                    if f[0] == "le":
                        S.add_le(f[1], f[2], f[3])
                    elif f[0] == "dom":
                        S.set_dom(f[1], f[2])
                        # a fact that decides another value carrying conditional facts passes them on (eq(..) true => first() is Some
                        # => len >= 1)
                        if not S.dead and f[2].lo == f[2].hi and f[1] != sv and (f[1], f[2].lo) in self.cond and _depth < 3:
                            self.apply_cond(S, f[1], f[2].lo, _depth + 1)
                    if S.dead:
                        return
        # a refinement of cmp/not nodes may decide discriminants that carry conditional facts
        if isinstance(sv, tuple) and sv[0] == "cmp" and sv[1] in ("Eq", "Ne"):
            a, b = sv[2], sv[3]
            truth = (val == 1) if sv[1] == "Eq" else (val == 0)
            for x, y in ((a, b), (b, a)):
                cy = const_val(y)
                if cy is None:
                    dy = S.dom(y)
                    if dy.lo == dy.hi:
                        cy = dy.lo
                if cy is not None and isinstance(x, tuple) and x[0] == "discr":
                    if truth:
                        self.apply_cond(S, x, cy)
                    else:
                        dx = S.dom(x)
                        if dx.lo == dx.hi:
                            self.apply_cond(S, x, dx.lo)
        if isinstance(sv, tuple) and sv[0] == "not":
            self.apply_cond(S, sv[1], 1 - val)

    def check_assert(self, S, t, cond, exp):
        kind = t["akind"]
        if kind.startswith("ub:"):
            return
        ops = [self.eval_op(S, o) for o in t["ops"]]
        proved = False
        c = S.dom(cond)
        if c.lo == c.hi == exp:
            proved = True
        detail = ""
        what = kind
        if kind == "bounds":
            ln, ix = ops
            proved = proved or S.prove_lt(ix, ln)
            detail = "index %s ; len %s" % (self.describe(S, ix), self.describe(S, ln))
            what = "bounds|idx=%s|len=%s" % (stable(ix), stable(ln))
        elif kind.startswith("overflow:"):
            op = kind.split(":")[1]
            if len(ops) == 2:
                a, b = ops
                ty = tykey(self.op_type(t["ops"][0]))
                rng = ty_range(ty)
                m = math_interval(op, S.dom(a), S.dom(b))
                if m is not None and rng is not None and m.lo >= rng[0] and m.hi <= rng[1]:
                    proved = True
                if not proved and op == "Sub" and rng is not None and rng[0] == 0:
                    proved = S.prove_le(b, a, 0)
                detail = "%s %s %s ; type %s" % (self.describe(S, a), op, self.describe(S, b), ty)
                what = "overflow:%s|%s|%s" % (op, stable(a), stable(b))
        elif kind in ("div0", "rem0"):
            a = ops[0]
            d = S.dom(a)
            proved = proved or not d.contains(0)
            detail = "divisor %s" % self.describe(S, a)
            what = "%s|%s" % (kind, stable(a))
        self.oblige(kind, what, proved, t["span"], detail)

    # ---------------------------------------------------------------- calls
    def transfer_call(self, S, t):
        from .models import MODELS, model_for
        callee = t["callee"]
        args = [self.eval_op(S, a) for a in t["args"]]
        dest = Place(t["dest"])
        dloc = self.resolve(S, dest)
        name = norm_name(callee.get("pretty"))
        m = model_for(callee, name)
        R = None
        if m is not None:
            R = m(self, S, t, callee, args)
        if R is None:
            R = self.default_call(S, t, callee, args, name)
        if R is not NORESULT:
            if isinstance(R, tuple) and sv_type(R) is None and R[0] not in ("ref", "k"):
                set_ty(R, tykey(dest.ty))
            S.write(dloc, R)
            if dest.ty.get("k") == "adt" and dest.ty.get("adt") == "generic_array::GenericArray":
                # the length of a GenericArray<T, N> is the type-level number N (generic-array documentation)
                n = typenum_value(dest.ty.get("s", ""))
                if n is not None:
                    S.write((dloc[0], dloc[1] + (("len",),)), K("usize", n))

    def default_call(self, S, t, callee, args, name):
        path = callee.get("path") or "indirect"
        dest = Place(t["dest"])
        if path in self.prog.bodies:
            tmpl = self.ctx.ret_expr(path)
            if tmpl is not None:
                from . import summaries
                v = summaries.translate(tmpl, self, S, args, self.prog.bodies[path].arg_count)
                if v is not None:
                    return v
        R = ("call", self.site(), path)
        set_ty(R, tykey(dest.ty))
        local = path in self.prog.bodies
        S_pre = S.copy() if local else None
        ws = self.ctx.write_set(path) if local else None
        eff = self.ctx.effects(path) if (local and ws) else None
        if ws is None:
            self.havoc_args(S, t, args)
        elif eff is not None:
            from . import summaries
            argc = self.prog.bodies[path].arg_count
            vals = {}
            for (i, pr), tmpl in eff.items():
                vals[(i, pr)] = summaries.translate(tmpl, self, S_pre, args, argc) if tmpl is not None else None
            for (i, pr), v in vals.items():
                base = self.target(args[i - 1])
                loc = (base[0], base[1] + pr)
                if v is None:
                    S.havoc(loc, self.site())
                else:
                    S.write(loc, v)
        else:
            for i, (a, op) in enumerate(zip(args, t["args"])):
                projs = ws.get(i + 1)
                if not projs:
                    # nested references inside aggregates / closures stay conservative
                    if isinstance(a, tuple) and a[0] in ("agg", "upd"):
                        self.havoc_value(S, a, None)
                    continue
                base = self.target(a)
                for pr in projs:
                    S.havoc((base[0], base[1] + pr), self.site())
        if local:
            shape = self.ctx.ret_shape(path)
            adt = dest.ty.get("adt") if dest.ty.get("k") == "adt" else None
            apply_shape(S, R, shape, self.ctx, adt)
            spec = []
            for i, a in enumerate(args):
                if isinstance(a, tuple) and a[0] == "agg" and isinstance(a[1], str) and a[2] is not None and a[1] in self.ctx.prog.adts \
                        and self.ctx.prog.adts[a[1]]["kind"] == "enum" and t["args"][i].get("m") is not None or \
                        (isinstance(a, tuple) and a[0] == "agg" and isinstance(a[1], str) and a[1] in self.ctx.prog.adts and self.ctx.prog.adts[a[1]]["kind"] == "enum" and a[2] is not None):
                    spec.append((i + 1, self.ctx.variant_discr(a[1], a[2])))
                elif is_const(a) and isinstance(const_val(a), int) and not isinstance(const_val(a), bool) and i < self.prog.bodies[path].arg_count \
                        and self.prog.bodies[path].locals[i + 1]["t"].get("k") in ("uint", "int") and len(self.prog.bodies[path].blocks) <= 40:
                    # one level of context for integer constants (an index or size handed to a shared helper)
                    spec.append((i + 1, ("int", const_val(a))))
            posts = self.ctx.posts(path, tuple(spec))
            if posts:
                from . import summaries
                summaries.apply_posts(self, S_pre, S, t, args, R, posts, self.prog.bodies[path])
        return R

    def havoc_args(self, S, t, args, skip=()):
        for i, (a, op) in enumerate(zip(args, t["args"])):
            if i in skip:
                continue
            ty = self.op_type(op)
            self.havoc_value(S, a, ty, top=True)

    def havoc_value(self, S, v, ty, top=False, depth=0):
        if depth > 3 or not isinstance(v, tuple):
            return
        if v[0] == "ref":
            mut = True
            if ty is not None and ty.get("k") in ("ref", "ptr"):
                mut = ty.get("mut", True)
            if mut:
                loc = v[1]
                # a mutable slice view: what changes is the storage it is a view of
                of = S.mem.get((loc[0], (("of",),))) if loc[0][0] == "V" else None
                if isinstance(of, tuple) and of[0] == "ref":
                    # the view itself (what it points at, its extent) stays; its bytes are those of the storage
                    S.havoc(of[1], self.site())
                else:
                    S.havoc(loc, self.site())
        elif v[0] == "agg" or v[0] == "upd":
            items = v[3] if v[0] == "agg" else [v[1]] + [x for _, x in v[2]]
            for x in items:
                self.havoc_value(S, x, None, False, depth + 1)
        elif ty is not None and ty.get("k") in ("ref", "ptr") and ty.get("mut"):
            S.havoc((("P", v), ()), self.site())

    # ---------------------------------------------------------------- fixpoint
    def run(self):
        saved = absint.WRITE_LOG
        self.writes = set()
        absint.WRITE_LOG = self.writes
        try:
            return self._run()
        finally:
            absint.WRITE_LOG = saved

    def _run(self):
        body = self.body
        self.entry_states = {0: self.initial_state()}
        self.edge_out = {}
        self.visits = {}
        work = [0]
        inwork = {0}
        rpo_idx = body.rpo_index
        steps = 0
        while work:
            work.sort(key=lambda b: rpo_idx.get(b, 1 << 30))
            bi = work.pop(0)
            inwork.discard(bi)
            steps += 1
            if steps > 20000:
                raise RuntimeError("fixpoint did not converge in %s" % body.key)
            S = self.entry_states[bi].copy()
            S = self.exec_block(S, bi)
            outs = {}
            if S is not None:
                self.cur = (bi, len(body.blocks[bi]["stmts"]))
                self.counter = 0
                for (succ, S2) in self.flow(S, bi):
                    if body.blocks[succ]["cleanup"]:
                        continue
                    if succ in outs:
                        outs[succ] = join_states(outs[succ], S2, succ)
                    else:
                        outs[succ] = S2
            for succ in body.succs[bi]:
                if succ in outs:
                    self.edge_out[(bi, succ)] = outs[succ]
                else:
                    self.edge_out.pop((bi, succ), None)
            for succ in body.succs[bi]:
                new = None
                for p in body.preds[succ]:
                    e = self.edge_out.get((p, succ))
                    if e is None:
                        continue
                    new = e.copy() if new is None else join_states(new, e, succ)
                old = self.entry_states.get(succ)
                if new is None:
                    continue
                n = self.visits.get(succ, 0)
                if old is not None and succ in body.loop_heads and n >= 3:
                    new = widen(old, new, n)
                if old is not None and new.same(old):
                    continue
                self.entry_states[succ] = new
                self.visits[succ] = n + 1
                if self.visits[succ] > self.MAX_VISITS:
                    new.doms = {}
                    new.zone = {}
                    if self.visits[succ] > self.MAX_VISITS + 5:
                        continue
                if succ not in inwork:
                    work.append(succ)
                    inwork.add(succ)
        return self

    def exec_block(self, S, bi, visitor=None):
        blk = self.body.blocks[bi]
        for si, st in enumerate(blk["stmts"]):
            self.cur = (bi, si)
            self.counter = 0
            if visitor is not None:
                visitor.stmt(self, S, bi, si, st)
            self.transfer_stmt(S, st)
            if S.dead:
                return None
        return S

    def exit_state(self, bi):
        """state at the terminator of block bi (after its statements)"""
        S = self.entry_states.get(bi)
        if S is None:
            return None
        S = self.exec_block(S.copy(), bi)
        return S

    def walk(self, visitor=None, collect=True):
        """replay every reachable block once from its fixpoint entry state"""
        self.obligations = [] if collect else None
        saved = absint.WRITE_LOG
        absint.WRITE_LOG = None
        try:
            return self._walk(visitor, collect)
        finally:
            absint.WRITE_LOG = saved

    def _walk(self, visitor, collect):
        CUR_BODY[0] = self.body
        for bi in self.body.rpo:
            S0 = self.entry_states.get(bi)
            if S0 is None:
                continue
            S = self.exec_block(S0.copy(), bi, visitor)
            if S is None:
                continue
            self.cur = (bi, len(self.body.blocks[bi]["stmts"]))
            self.counter = 0
            t = self.body.blocks[bi]["term"]
            if visitor is not None:
                visitor.term(self, S, bi, t)
            edges = self.flow(S, bi)
            if visitor is not None and hasattr(visitor, "edges"):
                visitor.edges(self, S, bi, t, edges)
        obs = self.obligations
        self.obligations = None
        return obs

    def state_before_term(self, bi):
        return self.exit_state(bi)


NORESULT = ("noresult",)


def root_is_promoted(loc):
    return loc[0][0] == "PR"


def promoted_read(loc, v):
    base = PROMOTED.get(loc[0])
    if base is None:
        return v
    if isinstance(v, tuple) and v[0] == "ld":
        return project(base, loc[1])
    return v


def typenum_value(ty_str):
    """N of  GenericArray<T, N>  where N is a typenum unsigned integer  UInt<UInt<UTerm, B1>, B0> ...  (bits most significant first)"""
    if "typenum::uint::UTerm" not in ty_str:
        return None
    tail = ty_str[ty_str.index("typenum::uint::UTerm"):]
    bits = re.findall(r"typenum::bit::B([01])", tail)
    if not bits or "typenum::uint::UTerm" in tail[len("typenum::uint::UTerm"):]:
        return None
    return int("".join(bits), 2)


def assemble_bytes(sv):
    """(order, n, base location) if sv is the unsigned integer whose n bytes are the elements 0..n-1 of one byte sequence in
    big / little endian order - written as shifts and ors of the widened elements, or as an array handed to from_xx_bytes"""
    parts = []          # (element, shift)

    def walk(x, shift):
        while isinstance(x, tuple) and x[0] == "cast":
            x = x[2]
        if isinstance(x, tuple) and x[0] == "bin" and x[1] in ("BitOr", "Add", "BitXor"):
            return walk(x[3], shift) and walk(x[4], shift)
        if isinstance(x, tuple) and x[0] == "bin" and x[1] in ("Shl", "ShlW"):
            c = const_val(x[4])
            rng = ty_range(x[2])
            if not isinstance(c, int) or rng is None or rng[1] < 2 ** (c + 8) - 1:
                return False          # the shifted byte must stay inside the type
            return walk(x[3], shift + c)
        if isinstance(x, tuple) and x[0] == "bin" and x[1] == "Mul":
            c = const_val(x[4])
            if isinstance(c, int) and c > 0 and c & (c - 1) == 0:
                return walk(x[3], shift + c.bit_length() - 1)
            return False
        if isinstance(x, tuple) and x[0] == "elem" and isinstance(x[2], int) and len(x) > 3:
            parts.append((x, shift))
            return True
        return False
    if not walk(sv, 0) or not (2 <= len(parts) <= 8):
        return None
    base = parts[0][0][3]
    if any(p[0][3] != base for p in parts):
        return None
    n = len(parts)
    by_idx = sorted(parts, key=lambda p: p[0][2])
    if [p[0][2] for p in by_idx] != list(range(n)):
        return None
    if [p[1] for p in by_idx] == [8 * (n - 1 - i) for i in range(n)]:
        return ("be", n, base)
    if [p[1] for p in by_idx] == [8 * i for i in range(n)]:
        return ("le", n, base)
    return None


def stable(sv, depth=0):
    """line-number-free rendering of a SV used in site keys"""
    if not isinstance(sv, tuple) or not sv:
        return str(sv)
    if depth > 12:
        return "_"
    h = sv[0]
    r = lambda x: stable(x, depth + 1)
    if h == "k":
        v = sv[2]
        if isinstance(v, tuple):
            if v[0] == "b":
                return "bytes:" + "".join("%02x" % x for x in v[1])
            return str(v[1]) if v[0] in ("s", "fn") else v[0]
        return str(v)
    if h == "param":
        return "arg%d" % sv[1]
    if h == "ld":
        return "load(%s)" % stable_loc(sv[1], depth + 1)
    if h == "call":
        return "call(%s)" % short(sv[2])
    if h == "bin":
        return "(%s %s %s)" % (r(sv[3]), sv[1], r(sv[4]))
    if h == "cmp":
        return "(%s %s %s)" % (r(sv[2]), sv[1], r(sv[3]))
    if h in ("cast", "fcast"):
        return "(%s as %s)" % (r(sv[2]), sv[1])
    if h == "discr":
        return "discr(%s)" % r(sv[1])
    if h == "proj":
        return "%s%s" % (r(sv[1]), proj_str(sv[2]))
    if h == "phi":
        return "phi(%s)" % stable_loc(sv[2], depth + 1)
    if h in ("min", "max"):
        return "%s(%s,%s)" % (h, r(sv[2]), r(sv[3]))
    if h == "streq" or h == "seqeq":
        return "%s(%s,%s)" % (h, r(sv[1]), r(sv[2]))
    if h == "not":
        return "!%s" % r(sv[1])
    if h == "elem":
        base = "elem" if len(sv) < 3 or sv[2] is None else "elem[%s]" % sv[2]
        if len(sv) > 3 and ELEM_SOURCES[0]:
            return "%s of %s" % (base, stable_loc(sv[3], depth + 1))
        return base
    if h == "upd":
        return r(sv[1])
    if h == "agg":
        return "agg"
    if h == "ref":
        return "&%s" % stable_loc(sv[1], depth + 1)
    if h == "model":
        def rr(x):
            if isinstance(x, tuple) and x and isinstance(x[0], tuple):
                return "[" + ",".join(r(y) for y in x) + "]"
            return r(x)
        return "%s(%s)" % (sv[1], ",".join(rr(x) for x in sv[2:] if not (isinstance(x, tuple) and x and x[0] == "site")))
    return h


CUR_BODY = [None]
ELEM_SOURCES = [False]     # render the container an element was read from (used by the session rules)


def stable_loc(loc, depth=0):
    root, proj = loc
    if root[0] == "L":
        b = CUR_BODY[0]
        nm = None
        if b is not None and root[1] < len(b.locals):
            nm = b.locals[root[1]]["name"] or ("tmp:" + b.locals[root[1]]["t"]["s"])
        base = nm if nm else "_%d" % root[1]
    elif root[0] == "P":
        base = "*" + stable(root[1], depth + 1)
    else:
        base = root[0]
    return base + proj_str(proj)
