"""C04 - AMF0 encode -> decode is the identity (DESIGN.md section 5, C04): the structural necessary conditions."""
import re
from .common import *
from . import amf0
from .. import grammar
from ..interp import stable
from ..absint import *
from ..loader import Place


class CastVisitor:
    def __init__(self):
        self.casts = []

    def stmt(self, it, S, bi, si, st):
        rv = st["rv"]
        if rv["k"] != "cast" or not rv["ck"].startswith("IntToInt"):
            return
        to = rv["to"]
        src_t = it.op_type(rv["a"])
        if to.get("k") not in ("uint", "int") or src_t.get("k") not in ("uint", "int"):
            return
        rt, rs = ty_int_range(to), ty_int_range(src_t)
        if rt[0] <= rs[0] and rt[1] >= rs[1]:
            return          # widening
        a = it.eval_op(S, rv["a"])
        d = S.dom(a)
        self.casts.append((st["span"], a, d, to["s"], d.lo >= rt[0] and d.hi <= rt[1]))

    def term(self, it, S, bi, t):
        pass


def run(env, rep):
    prog, ctx = env.prog, env.ctx
    rep.explanation = (
        "R1: every narrowing integer cast in the encoder has a source interval inside the target type at the cast (a length that "
        "does not fit is refused, not truncated); R2: the set of property-name lengths the encoder can write (interval at the "
        "u16 emission) excludes the length the decoder reserves as object terminator; R3: encoder and decoder agree per value "
        "type on marker, field widths, byte order and terminator (both extracted from the current source); R4: encoder and decoder keep no state between calls "
        "(no function reachable from serialize / deserialize touches a thread-local or a writable static), so what one call returns cannot depend on an earlier call; R5: the decoder builds an error only for input the encoder never writes (unsupported marker, nesting limit, truncated input, an empty name that is not the terminator, invalid UTF-8) - never on a decision about the decoded value.  Not decided: the "
        "identity over the whole value space.")
    rep.assumptions = ["A-MEM for array.len() as u32", "byteorder encodes the named width and byte order"]
    spec = amf0.load_spec()
    ser = body_by_pretty(prog, "serialization::serialize")
    if ser is None:
        rep.anchor_missing("C04.R1", "rml_amf0 serialization::serialize")
        return
    fns = [prog.bodies[k] for k in sorted(reachable(prog, [ser.key])) if prog.bodies[k].kind in ("fn", "assoc") and not is_derived(prog.bodies[k])]
    # ---- R1
    n = 0
    for b in fns:
        rep.fn(b.key)
        v = CastVisitor()
        ctx.interp(b.key).walk(v, collect=False)
        for span, a, d, to, ok in v.casts:
            n += 1
            rep.check("C04.R1", "%s|cast:%s->%s" % (b.pretty, stable(a), to), ok,
                      "narrowing cast of %s in %s fits %s" % (stable(a), d, to),
                      "%s in %s is cast to %s without a guard: a longer value would be written with a truncated length and the output could not be decoded" % (stable(a), d, to), span)
    # every length the encoder writes goes through one of the conversions checked above or through a conversion that cannot
    # truncate (TryFrom): count the length fields of the output grammar, so that the rule cannot pass on an encoder it does not see
    n_len = 0
    table0, _adt0 = amf0.variant_encoders(env, rep, "C04.R1")
    for vname, (vpaths, _b, _u) in sorted((table0 or {}).items()):
        # per value type, with helpers followed in place (a length computed by one helper and written by another is still a length)
        roles = set()
        for p in vpaths:
            for t in p:
                if len(t) >= 5 and t[1] == "hole" and amf0.canon_role(t[2]).startswith("len:"):
                    roles.add((t[0], amf0.canon_role(t[2])))
        n_len += len(roles)
    rep.floor("C04.R1", "length fields written by the AMF0 encoder (each converted by a checked cast or TryFrom)", n_len, 3)
    # ---- R2 reserved name length
    table, adt = amf0.variant_encoders(env, rep, "C04.R2")
    if table:
        opaths, ob, _ = table.get("Object", ([], None, []))
        if not opaths:
            rep.anchor_missing("C04.R2", "encoder of Amf0Value::Object")
        else:
            holes = []
            for p in opaths:
                for i, t in enumerate(p):
                    if t[0] == "u16be" and t[1] == "hole":
                        holes.append(t)
            reserved = spec["reserved_name_lengths"]
            # the decoder's own terminator test
            pp = body_by_pretty(prog, "deserialization::parse_object_property")
            dec_reserved = set()
            if pp is not None:
                for p in grammar.reads(env, pp.key).paths:
                    for t in p:
                        if t[0] == "when" and "read_u16" in t[1]:
                            m = re.search(r" (Eq|Ne) (\d+)\)", t[1])
                            if m:
                                dec_reserved.add(int(m.group(2)))
            rep.check("C04.R2", "decoder-reserved-length", dec_reserved == set(reserved), "the decoder treats name length %s as the terminator" % sorted(dec_reserved),
                      "decoder reserves name lengths %s, specification table says %s" % (sorted(dec_reserved), reserved))
            rep.floor("C04.R2", "name-length emissions in the object encoder", len(holes), 1)
            seen = set()
            for t in holes:
                if t[2] in seen:
                    continue
                seen.add(t[2])
                lo, hi = t[3], t[4]
                bad = [r for r in dec_reserved | set(reserved) if lo <= r <= hi]
                rep.check("C04.R2", "name-length:%s" % t[2], not bad, "property-name length written is in [%s,%s], never a reserved value" % (lo, hi),
                          "the encoder can write a property-name length of %s (interval [%s,%s]), which the decoder reads as the end of the object: such an object encodes 'successfully' into bytes that do not decode" % (bad, lo, hi), ob.span)
    # ---- R3 encoder / decoder agreement
    res = amf0.marker_dispatch(env, rep, "C04.R3")
    if table and res:
        disp, _ = res
        marker_of_parser = {}
        direct = {}            # marker -> variant built in the dispatch arm itself (no body)
        for (desc, val), targets in disp.items():
            if val.startswith("other") or amf0.is_comparison(desc):
                continue
            for x in val.split(","):
                if x.isdigit():
                    for kind, tg in targets:
                        if kind == "call":
                            marker_of_parser.setdefault(tg, set()).add(int(x))
                        elif kind == "returns" and amf0.direct_variant(tg):
                            direct.setdefault(int(x), set()).add(amf0.direct_variant(tg))
        n3 = 0
        for variant, (vpaths, eb, _unm) in sorted(table.items()):
            alts = amf0.canon_loops({amf0.norm_write_path(p) for p in vpaths})
            if not alts:
                continue
            m = re.match(r"^u8=(\d+)", alts[0])
            if not m or not all(a.startswith("u8=%s" % m.group(1)) for a in alts):
                rep.bad("C04.R3", "agree:%s" % variant, "encoder of %s does not start with one constant marker byte: %s" % (variant, alts), eb.span)
                continue
            marker = int(m.group(1))
            # decoder side: the parser this marker dispatches to, its reads and constructed variant
            parsers = [p for p, ms in marker_of_parser.items() if marker in ms]
            n3 += 1
            if not parsers and marker in direct:
                body = {a.split(" ", 1)[1] if " " in a else "" for a in alts}
                rep.check("C04.R3", "agree:%s" % variant, direct[marker] == {variant} and body == {""},
                          "marker %d: encoder writes %s, decoder builds %s in the dispatch arm without reading a body" % (marker, alts, variant),
                          "encoder and decoder disagree on %s: encoder writes %s; marker %d makes the decoder return %s without reading a body" % (variant, alts, marker, sorted(direct[marker])), eb.span)
                continue
            if len(parsers) != 1:
                rep.bad("C04.R3", "agree:%s" % variant, "marker %d written for %s is dispatched to %s by the decoder" % (marker, variant, parsers or "no parser"), eb.span)
                continue
            db = body_by_pretty(prog, parsers[0])
            oks = grammar.ok_paths(grammar.reads(env, db.key, all_local_calls=True, inline=True, inline_pred=(lambda cb, t, _u={tg for tgs in disp.values() for k_, tg in tgs if k_ == 'call'} | {'deserialization::read_next_value', 'deserialization::parse_object_property', 'deserialization::parse_object'}: cb.pretty not in _u)))
            dreads = amf0.canon_loops({amf0.norm_read_path(p, structure_only=(variant not in ("Boolean", "Object"))) for p in oks})
            cons = {t[1] for p in oks for t in amf0.returns_of(p)}
            want_reads = set()
            for a in alts:
                body = a.split(" ", 1)[1] if " " in a else ""
                body = re.sub(r"u16be\(len:(\w+)\) bytes:\1", "u16be exact:prev", body)
                body = re.sub(r"(u\d+(?:be|le)?)\((?:len:|bool:)?\w+\)", r"\1", body)
                body = re.sub(r"f64be\(\w+\)", "f64be", body)
                want_reads.add(body.strip())
            if variant == "Object":
                good = any("<parse_object_property>" in d for d in dreads)
            elif variant == "Boolean":
                good = all(d.startswith("u8") for d in dreads) and bool(dreads)
            else:
                good = want_reads == set(dreads)
            okc = bool(cons) and all("Amf0Value::%s" % variant in c for c in cons)
            rep.check("C04.R3", "agree:%s" % variant, good and okc,
                      "marker %d: encoder writes %s, decoder (%s) reads %s and builds %s" % (marker, alts, parsers[0].split("::")[-1], dreads, variant),
                      "encoder and decoder disagree on %s: encoder writes %s; marker %d is decoded by %s reading %s and constructing %s" % (variant, alts, marker, parsers[0].split("::")[-1], dreads, sorted(cons)), eb.span)
        rep.floor("C04.R3", "value types compared between encoder and decoder", n3, 7)
        sa = [p for p, ms in marker_of_parser.items() if spec["markers"]["StrictArray"] in ms]
        if len(sa) == 1:
            amf0.strict_array_count(env, rep, "C04.R3", body_by_pretty(prog, sa[0]))

    # ------------------------------------------------------------------ R4 no state between calls
    from ..framework import wants
    if wants(rep, "C04.R4"):
        stateless(env, rep, "C04.R4", ["serialization::serialize", "deserialization::deserialize"], "the AMF0 codec")
    # ------------------------------------------------------------------ R5 what the decoder refuses
    if wants(rep, "C04.R5"):
        amf0.check_decoder_refusals(env, rep, "C04.R5")
    # ------------------------------------------------------------------ R6 the encoder writes every part of a value (C12 R1: grammar = specification)
    if wants(rep, "C04.R6"):
        amf0.check_encoder_grammar(env, rep, "C04.R6", amf0.load_spec())
