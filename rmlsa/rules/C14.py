import re
"""C14 - AMF0 decoding uses bounded stack and memory (DESIGN.md section 5, C14)."""
from .common import *
from . import loops
from ..interp import stable
from ..absint import *

MAX_DEPTH = 1024


def sccs(nodes, edges):
    index = {}
    low = {}
    stack = []
    on = set()
    out = []
    counter = [0]

    def strong(v):
        index[v] = low[v] = counter[0]
        counter[0] += 1
        stack.append(v)
        on.add(v)
        for w in edges.get(v, ()):
            if w not in nodes:
                continue
            if w not in index:
                strong(w)
                low[v] = min(low[v], low[w])
            elif w in on:
                low[v] = min(low[v], index[w])
        if low[v] == index[v]:
            comp = []
            while True:
                w = stack.pop()
                on.discard(w)
                comp.append(w)
                if w == v:
                    break
            out.append(comp)

    for v in sorted(nodes):
        if v not in index:
            strong(v)
    return out


def captured_value(ctx, parent, closure, sv):
    """(state, value) of the captured variable that `sv` (a value read inside the closure through its environment) stands for,
    evaluated in the creating function at the point where the closure is built; None if sv is not such a read"""
    x = sv
    idx = None
    # *(*env).i   or   (*env).i   or   env.i
    for _ in range(3):
        if isinstance(x, tuple) and x[0] == "ld":
            root, proj = x[1]
            if proj and proj[0][0] == "f" and (root[0] == "L" and root[1] == 1 or (root[0] == "P" and is_param_load(root[1], 1))):
                idx = proj[0][1]
                break
            if root[0] == "P" and not proj:
                x = root[1]
                continue
        break
    if idx is None:
        return None
    it = ctx.interp(parent.key)
    for bi in parent.rpo:
        for si, st in enumerate(parent.blocks[bi]["stmts"]):
            rv = st["rv"]
            if rv["k"] == "agg" and rv.get("ak") == "closure" and rv.get("closure") == closure.key:
                S = it.entry_states.get(bi)
                if S is None:
                    continue
                S = S.copy()
                for j, s2 in enumerate(parent.blocks[bi]["stmts"][:si]):
                    it.cur = (bi, j)
                    it.transfer_stmt(S, s2)
                it.cur = (bi, si)
                if idx >= len(rv["ops"]):
                    return None
                v = it.eval_op(S, rv["ops"][idx])
                if isinstance(v, tuple) and v[0] == "ref":
                    v = S.read(v[1])
                return S, v
    return None


def run(env, rep):
    prog, ctx = env.prog, env.ctx
    rep.explanation = (
        "R1: every cycle of the call graph reachable from rml_amf0::deserialize carries an integer depth parameter that grows by "
        ">= 1 around the cycle (no zero-weight cycle) and whose value at every intra-cycle call site is bounded by a constant "
        "(interval under caller-established entry states), so the recursion depth is bounded; R2: no allocation in the decoder "
        "is sized by a peer-declared count: sizes are constants or a <= 16-bit length whose bytes must follow (read_exact into the "
        "same buffer); R3: every decoder loop consumes input per iteration (idiom L2) or is bounded by held data; R4: the fixed-size arrays declared in the frames of the recursive functions, times the depth limit, stay under a quarter of a 2 MiB stack.  "
        "R4: no panic-capable site (index, arithmetic overflow, unwrap, allocation size) in the functions reachable from deserialize is left undischarged (C03 R1 with the decoder as entry).  "
        "Not decided: the stack size in bytes (a code-generation fact).")
    rep.assumptions = ["stack frames of the five decoder functions are of ordinary size (depth bound 64 x 5 frames)"]
    de = body_by_pretty(prog, "deserialization::deserialize")
    if de is None:
        rep.anchor_missing("C14.R1", "rml_amf0 deserialization::deserialize")
        return
    keys = {k for k in reachable(prog, [de.key]) if prog.bodies[k].kind in ("fn", "assoc", "closure") and not is_derived(prog.bodies[k])}
    bodies = [prog.bodies[k] for k in sorted(keys)]
    for b in bodies:
        rep.fn(b.key)
    edges = {k: {c for c in prog.callees.get(k, ()) if c in keys} for k in keys}
    comps = [c for c in sccs(keys, edges) if len(c) > 1 or c[0] in edges.get(c[0], ())]
    rep.rule_info["C14.R1"] = {"count": len(comps), "floor": 0, "what": "recursive cycles (SCCs) in the decoder's call graph"}
    if not comps:
        rep.ok("C14.R1", "no-recursion", "the decoder's call graph is acyclic (iterative decoder)")
    for comp in comps:
        comp = sorted(comp)
        names = [prog.bodies[k].pretty.split("::")[-1] for k in comp]
        ckey = "scc:" + "+".join(names)
        # candidate depth parameter per function: an integer parameter.  A closure has none of its own: it runs at the depth of
        # the function that creates it, and what it passes on is evaluated where it was captured
        cand = {}
        for k in comp:
            b = prog.bodies[k]
            if b.kind == "closure" and b.parent in comp:
                cand[k] = ["parent"]
                continue
            cand[k] = [i for i in range(1, b.arg_count + 1) if b.locals[i]["t"].get("k") in ("uint", "int")]
        if any(not cand[k] for k in comp):
            missing = [prog.bodies[k].pretty for k in comp if not cand[k]]
            rep.bad("C14.R1", ckey, "recursive cycle {%s} has no depth parameter (%s take no integer argument): nesting depth, and with it the stack, "
                                   "is bounded only by the input length" % (", ".join(names), ", ".join(missing)), prog.bodies[comp[0]].span)
            continue
        # choose the first integer parameter of each function (the decoder functions have exactly one)
        dpar = {k: cand[k][0] for k in comp}
        weights = {}
        problems = []
        bounded = True
        worst = 0
        for k in comp:
            b = prog.bodies[k]
            it = ctx.interp(k)
            for bi, t in b.calls():
                cp = callee_path(t)
                if cp not in comp:
                    continue
                S, args = args_at(ctx, k, bi)
                if S is None:
                    continue
                rep.call_sites += 1
                if dpar[cp] == "parent":
                    continue        # creating / invoking a closure of this cycle: same depth, no own parameter
                a = args[dpar[cp] - 1]
                base, off = S.norm(a)
                if dpar[k] == "parent":
                    # inside a closure: a captured value is what it was where the closure was built
                    pk = b.parent
                    tr = captured_value(ctx, prog.bodies[pk], b, base)
                    if tr is None:
                        problems.append("%s passes %s as depth to %s (not a captured depth)" % (b.pretty.split("::")[-1], stable(a), prog.bodies[cp].pretty.split("::")[-1]))
                        continue
                    pS, pv = tr
                    pbase, poff = pS.norm(pv)
                    base, off = pbase, off + poff
                    mine = ("ld", (ctx.interp(pk).L(dpar[pk]), ()), "entry") if dpar.get(pk) not in (None, "parent") else None
                    S = pS
                    a = pv
                    weights.setdefault((pk, k), 0)
                else:
                    mine = ("ld", (it.L(dpar[k]), ()), "entry")
                if base != mine:
                    problems.append("%s passes %s as depth to %s (not its own depth plus a constant)" % (b.pretty.split("::")[-1], stable(a), prog.bodies[cp].pretty.split("::")[-1]))
                    continue
                if off < 0:
                    problems.append("%s decreases the depth when calling %s" % (b.pretty.split("::")[-1], prog.bodies[cp].pretty.split("::")[-1]))
                    continue
                w = weights.get((k, cp))
                weights[(k, cp)] = off if w is None else min(w, off)
                hi = S.dom(a).hi
                worst = max(worst, hi)
                if hi > MAX_DEPTH:
                    bounded = False
                    problems.append("depth passed by %s to %s is not bounded (%s)" % (b.pretty.split("::")[-1], prog.bodies[cp].pretty.split("::")[-1], S.dom(a)))
        # zero-weight cycle?
        zero = {}
        for (a, b2), w in weights.items():
            if w == 0:
                zero.setdefault(a, set()).add(b2)
        zc = loops.has_cycle(zero, ignore_self=False)
        if zc:
            cyc = ", ".join("%s->%s" % (prog.bodies[a].pretty.split("::")[-1], prog.bodies[b2].pretty.split("::")[-1]) for (a, b2), w in sorted(weights.items()) if w == 0)
            problems.append("the calls %s form a cycle that does not increase the depth: that kind of nesting is not limited" % cyc)
        rep.check("C14.R1", ckey, not problems, "cycle {%s}: depth grows around every cycle and is at most %s at every recursive call" % (", ".join(names), worst),
                  "recursion {%s} is not depth-bounded: %s" % (", ".join(names), "; ".join(problems)), prog.bodies[comp[0]].span)
    # ---- R4 fixed-size arrays in the frames of the recursive functions (a necessary condition of the stack clause that *is*
    # visible in the program: the frames' other contents are a code-generation fact, the arrays are declared sizes)
    STACK_BUDGET = 512 * 1024       # a quarter of an ordinary 2 MiB thread stack
    for comp in comps:
        per_level = 0
        big = []
        for k in sorted(comp):
            b = prog.bodies[k]
            fn_bytes = 0
            for li, l in enumerate(b.locals):
                t = l["t"]
                if t.get("k") == "array" and isinstance(t.get("len"), int):
                    el = t.get("elem") or t.get("of") or {}
                    esz = (el.get("bits", 64) // 8) if isinstance(el, dict) and el.get("k") in ("uint", "int") else 16
                    m_ = re.match(r"^\[(u8|i8|u16|i16|u32|i32|u64|i64|f32|f64|bool|char); ", t.get("s", ""))
                    if m_:
                        esz = {"u8": 1, "i8": 1, "bool": 1, "u16": 2, "i16": 2, "u32": 4, "i32": 4, "f32": 4, "char": 4, "u64": 8, "i64": 8, "f64": 8}[m_.group(1)]
                    fn_bytes = max(fn_bytes, t["len"] * esz) if False else fn_bytes + t["len"] * esz
            # MIR keeps one local per temporary copy of an array; count the largest array once per distinct size
            sizes = {}
            for l in b.locals:
                t = l["t"]
                if t.get("k") == "array" and isinstance(t.get("len"), int):
                    sizes[t.get("s")] = t["len"]
            fn_bytes = 0
            for sname, ln in sizes.items():
                m_ = re.match(r"^\[(u8|i8|u16|i16|u32|i32|u64|i64|f32|f64|bool|char); ", sname or "")
                esz = {"u8": 1, "i8": 1, "bool": 1, "u16": 2, "i16": 2, "u32": 4, "i32": 4, "f32": 4, "char": 4, "u64": 8, "i64": 8, "f64": 8}.get(m_.group(1), 16) if m_ else 16
                fn_bytes += ln * esz
            per_level += fn_bytes
            if fn_bytes > 4096:
                big.append("%s holds %d bytes of fixed-size arrays" % (b.pretty.split("::")[-1], fn_bytes))
        names = [prog.bodies[k].pretty.split("::")[-1] for k in sorted(comp)]
        rep.check("C14.R4", "scc:" + "+".join(names) + "|frame-arrays", per_level * MAX_DEPTH <= STACK_BUDGET,
                  "fixed-size arrays in the frames of the recursive functions: %d bytes per nesting level, %d at the depth limit %d" % (per_level, per_level * MAX_DEPTH, MAX_DEPTH),
                  "the recursive decoder functions keep %d bytes of fixed-size arrays on the stack per nesting level (%s): at the accepted depth of %d that is %d bytes, more than a quarter of an ordinary 2 MiB thread stack" % (
                      per_level, "; ".join(big) or "sum over the cycle", MAX_DEPTH, per_level * MAX_DEPTH), prog.bodies[sorted(comp)[0]].span)
    # ---- R2 allocations
    n = 0
    for b in bodies:
        for bi, t in b.calls():
            name = callee_name(t)
            if name not in loops.ALLOC_SINKS:
                continue
            S, args = args_at(ctx, b.key, bi)
            if S is None:
                continue
            n += 1
            sz = args[loops.ALLOC_SINKS[name]]
            key = "%s|%s|%s" % (b.pretty, short(name), stable(sz))
            d = S.dom(sz)
            if is_const(sz):
                rep.ok("C14.R2", key, "constant size", t["span"], nontrivial=False)
                continue
            # a <= 16 bit length read from the input, whose buffer is then filled by read_exact
            e = strip_casts(sz)
            from_read = (isinstance(e, tuple) and e[0] == "proj" and isinstance(e[1], tuple) and e[1][0] == "call" and ("read_u16" in e[1][2] or "read_u8" in e[1][2])) \
                or (isinstance(e, tuple) and sv_type(e) in ("u8", "u16"))      # a length that is at most 16 bits wide by its type (e.g. handed to a helper)
            filled = False
            if from_read and name == "alloc::vec::from_elem":
                # the destination vector is passed to read_exact on every path that continues
                dest = Place(t["dest"])
                for bj, t2 in b.calls():
                    if callee_name(t2) == "std::io::Read::read_exact" and b.dominates(bi, bj):
                        filled = True
            if from_read and filled and d.hi <= 65535:
                rep.ok("C14.R2", key, "buffer of a declared <= 16-bit length (%s) that read_exact must fill or fail" % d, t["span"])
            else:
                rep.bad("C14.R2", key, "allocation in the decoder sized by %s in %s: a declared count / length from the input sizes memory before the data is known to exist" % (stable(sz), d), t["span"])
    rep.floor("C14.R2", "allocation sites with a computed size in the AMF0 decoder", n, 1)
    # ---- R3
    nl = loops.loop_progress(env, rep, "C14.R3", [b for b in bodies if b.kind != "closure"])
    rep.floor("C14.R3", "loops in the AMF0 decoder", nl, 3)
    # ---- R4: the decoder cannot panic (the statement says so in as many words): C03 R1 with deserialize as the only entry
    from ..framework import wants
    if wants(rep, "C14.R4"):
        de = body_by_pretty(prog, "deserialization::deserialize")
        if de is None:
            rep.anchor_missing("C14.R4", "deserialization::deserialize")
        else:
            _b, ns = panic_sites(env, rep, "C14.R4", [de.key], "AMF0 decoder")
            rep.floor("C14.R4", "panic-capable sites in the AMF0 decoder", ns, 3)
