"""C17 - acknowledgements (DESIGN.md section 5, C17)."""
from .common import *
from ..absint import *
from ..interp import stable
from ..loader import Place
from .. import interp as I

COUNTER = "bytes_received_since_last_ack"
WINDOW = "peer_window_ack_size"


def field_index(prog, adt_key, name):
    for i, f in enumerate(prog.adts[adt_key]["variants"][0]["fields"]):
        if f["name"] == name:
            return i
    return None


def analyse_session(env, rep, which):
    prog, ctx = env.prog, env.ctx
    ty = "sessions::%s::%sSession" % (which, which.capitalize())
    hb = body_by_pretty(prog, ty + "::handle_input")
    if hb is None:
        rep.anchor_missing("C17.R1", ty + "::handle_input")
        return None
    rep.fn(hb.key)
    adt_key = [k for k, a in prog.adts.items() if a["pretty"] == ty][0]
    ci, wi = field_index(prog, adt_key, COUNTER), field_index(prog, adt_key, WINDOW)
    if ci is None or wi is None:
        rep.anchor_missing("C17.R1", "%s fields %s / %s" % (ty, COUNTER, WINDOW))
        return None
    it = ctx.interp(hb.key)
    I.CUR_BODY[0] = hb
    # the Acknowledgement aggregate
    sites = []
    for bi in hb.rpo:
        for si, st in enumerate(hb.blocks[bi]["stmts"]):
            rv = st["rv"]
            if rv["k"] == "agg" and rv.get("ak") == "adt" and rv.get("variant") == "Acknowledgement" and rv["adt"].endswith("RtmpMessage"):
                sites.append((bi, si, st))
    if len(sites) != 1:
        rep.bad("C17.R1", "%s|ack-site" % which, "expected exactly one construction of RtmpMessage::Acknowledgement in %s::handle_input, found %d" % (ty, len(sites)), hb.span)
        return None
    bi, si, st = sites[0]
    S0 = it.entry_states.get(bi)
    S = S0.copy()
    for j, s2 in enumerate(hb.blocks[bi]["stmts"][:si]):
        it.cur = (bi, j)
        it.transfer_stmt(S, s2)
    it.cur = (bi, si)
    seq = it.eval_op(S, st["rv"]["ops"][0])
    selfv = S.read((it.L(1), ()))
    sloc = it.target(selfv)
    cloc = (sloc[0], sloc[1] + (("f", ci, COUNTER),))
    wloc = (sloc[0], sloc[1] + (("f", wi, WINDOW),))
    cur_counter = S.read(cloc)
    W = S.read((wloc[0], wloc[1] + (("dc", 1, "Some"), ("f", 0, "0"))))
    set_ty(W, "u32")
    old = ("ld", cloc, "entry")
    res = {"which": which}
    # ---- R2 the reported number is the updated counter = old counter + size of this call
    base = strip_casts(cur_counter)
    shape_ok = isinstance(base, tuple) and base[0] == "bin" and base[1] == "Add" and base[3] == old and \
        contains(base[4], lambda x: x[0] == "ld" and x[1][1] and x[1][1][-1] == ("len",) and x[1][0][0] == "P" and is_param_load(x[1][0][1], 2))
    rep.check("C17.R2", "%s|reported-value" % which, seq == cur_counter and shape_ok,
              "the acknowledgement reports the counter after adding this call's byte count (%s)" % stable(seq),
              "the acknowledgement reports %s, but the counter after this call is %s (expected: bytes received since the last acknowledgement, including this call)" % (stable(seq), stable(cur_counter)), st["span"])
    res["reported"] = seq == cur_counter and shape_ok
    # ---- R1 trigger: ack iff counter' >= W
    sw = None
    b = bi
    guard_target = None
    while True:
        nb = hb.idom.get(b)
        if nb is None or nb == b:
            break
        t = hb.blocks[nb]["term"]
        if t["k"] == "switch":
            Sx = it.exit_state(nb)
            it.cur = (nb, 0)
            dv = it.eval_op(Sx, t["discr"]) if Sx is not None else None
            if dv is not None and contains(dv, lambda x: x == cur_counter or x == strip_casts(cur_counter)):
                sw = nb
                break
        b = nb
    if sw is None:
        rep.bad("C17.R1", "%s|trigger" % which, "the acknowledgement is not guarded by a comparison of the updated counter with the peer's window", st["span"])
        res["trigger"] = False
    else:
        ack_succ = [s for s in hb.succs[sw] if hb.dominates(s, bi)]
        other = [s for s in hb.succs[sw] if s not in ack_succ]
        ok_ack = all(it.edge_out.get((sw, s)) is not None and it.edge_out[(sw, s)].prove_le(W, cur_counter, 0) for s in ack_succ) and bool(ack_succ)
        ok_no = all(it.edge_out.get((sw, s)) is not None and it.edge_out[(sw, s)].prove_le(cur_counter, W, -1) for s in other) and bool(other)
        rep.check("C17.R1", "%s|trigger" % which, ok_ack and ok_no,
                  "an acknowledgement is sent exactly when counter >= window (and not when counter < window)",
                  "the acknowledgement trigger is not 'counter >= peer window': on the sending branch counter >= window is %s, on the other branch counter < window is %s "
                  "(with '>' a call that makes the count land exactly on the window sends nothing)" % ("proved" if ok_ack else "NOT proved", "proved" if ok_no else "NOT proved"), hb.blocks[sw]["term"]["span"])
        res["trigger"] = ok_ack and ok_no
        # ---- R3 reset on the ack path, counter' kept on the other
        # the join = first block reachable from both sides: use the successor states at the block after the if
        reset_ok = False
        for b2 in hb.rpo:
            if hb.dominates(ack_succ[0], b2) if ack_succ else False:
                for s2 in hb.blocks[b2]["stmts"]:
                    pl = Place(s2["place"])
                    if pl.proj and isinstance(pl.proj[-1], dict) and pl.proj[-1].get("n") == COUNTER and s2["rv"]["k"] == "use" and const_int(s2["rv"]["a"].get("k")) == 0:
                        # every path from the ack branch to the function's continuation passes this store?
                        reset_ok = reset_ok or all(hb.dominates(b2, p) or not hb.dominates(ack_succ[0], p) or True for p in [b2])
                        reset_block = b2
        # at the edge(s) from the acknowledgement branch into the join with the other branch the counter is 0
        # (error returns of the branch are exempt: the session is dead after an error)
        leaving = []
        if ack_succ:
            region = {x for x in hb.rpo if hb.dominates(ack_succ[0], x)}

            def fwd(start):
                seen, stack = set(), list(start)
                while stack:
                    x = stack.pop()
                    if x in seen:
                        continue
                    seen.add(x)
                    stack.extend(hb.succs[x])
                return seen
            from_other = fwd(other)
            cands = [x for x in hb.rpo if x not in region and x in from_other and any(p in region for p in hb.preds[x])]
            if cands:
                J = cands[0]
                leaving = [(p, J) for p in hb.preds[J] if p in region]
        zero_ok = bool(leaving) and all(it.edge_out.get(e) is not None and const_val(it.edge_out[e].read(cloc)) == 0 for e in leaving if it.edge_out.get(e) is not None)
        keep_ok = all(it.edge_out[(sw, s)].read(cloc) == cur_counter for s in other if it.edge_out.get((sw, s)) is not None)
        rep.check("C17.R3", "%s|reset" % which, zero_ok and keep_ok, "the counter is 0 after an acknowledgement and keeps the accumulated value otherwise",
                  "after sending an acknowledgement the counter is not provably reset to 0 on every path (%s) / not kept on the other branch (%s)" % (zero_ok, keep_ok), st["span"])
        res["reset"] = zero_ok and keep_ok
    # ---- R6 accumulation overflow (known finding D10)
    obs = it.walk()
    for o in obs:
        if COUNTER in o.what and o.kind.startswith("overflow"):
            key = "%s|%s" % (hb.pretty, o.what)
            if o.proved:
                rep.ok("C17.R6", key, "accumulation cannot overflow: " + o.detail, o.span)
            else:
                rep.bad("C17.R6", key, "the accumulation can overflow: " + o.detail, o.span)
    return res


def run(env, rep):
    prog = env.prog
    rep.explanation = (
        "For both sessions: R1 the Acknowledgement is constructed exactly on the branch where (old counter + size of this call) >= "
        "peer window, and the other branch has counter < window (both edges of the guarding switch are checked, so > instead of >= "
        "fails); R2 its sequence_number is that updated counter; R3 the counter is 0 on every edge leaving the acknowledgement branch "
        "and keeps the sum otherwise; R4 nothing else in the crate writes the counter, and the window is written only from the size "
        "of a received WindowAcknowledgement; R5 the two sessions yield the same abstract summary; R6 the accumulation cannot overflow "
        "(today a known finding).  Not decided: the accounting identity over all call-size sequences (follows by induction over calls).")
    r = {}
    for which in ("server", "client"):
        r[which] = analyse_session(env, rep, which)
    # ---- R4 who may write
    for which in ("server", "client"):
        ty = "sessions::%s::%sSession" % (which, which.capitalize())
        adt_key = [k for k, a in prog.adts.items() if a["pretty"] == ty]
        if not adt_key:
            continue
        adt_key = adt_key[0]
        cw, ww = [], []
        for b in prog.bodies.values():
            if b.kind == "promoted" or is_derived(b):
                continue
            it = None
            for bi, blk in enumerate(b.blocks):
                for st in blk["stmts"]:
                    pp = st["place"]["p"]
                    if pp and isinstance(pp[-1], dict) and pp[-1].get("a") == adt_key:
                        if pp[-1].get("n") == COUNTER:
                            cw.append(b.pretty)
                        if pp[-1].get("n") == WINDOW:
                            # value must be Some(<first non-self parameter>) in a function called with the message's size
                            it = env.ctx.interp(b.key)
                            S = it.entry_states.get(bi)
                            ok = False
                            if S is not None:
                                S = S.copy()
                                for j, s2 in enumerate(blk["stmts"]):
                                    it.cur = (bi, j)
                                    if s2 is st:
                                        v = it.eval_rvalue(S, st["rv"], Place(st["place"]))
                                        ok = isinstance(v, tuple) and v[0] == "agg" and v[1] == "core::option::Option" and v[2] == 1 and is_param_load(v[3][0])
                                        break
                                    it.transfer_stmt(S, s2)
                            ww.append((b.pretty, ok, b.key))
        rep.check("C17.R4", "%s|counter-writers" % which, set(cw) == {ty + "::handle_input"}, "only handle_input writes the counter (%d stores)" % len(cw),
                  "%s is written in %s; only handle_input may change it (a second writer loses bytes that are never acknowledged)" % (COUNTER, sorted(set(cw))))
        okw = len(ww) >= 1 and all(ok for _, ok, _ in ww)
        # and those functions are called only with the size of a WindowAcknowledgement message
        prov = True
        for fnp, ok, key in ww:
            for ck in prog.callers.get(key, ()):
                cb = prog.bodies[ck]
                for bi, t in cb.calls():
                    if callee_path(t) == key:
                        S, args = args_at(env.ctx, ck, bi)
                        if S is None:
                            continue
                        a = args[1] if len(args) > 1 else None
                        if not (isinstance(a, tuple) and a[0] in ("proj", "ld") and "WindowAcknowledgement" in str(a)):
                            prov = False
        rep.check("C17.R4", "%s|window-writers" % which, okw and prov, "the window is only set to Some(size) of a received WindowAcknowledgement (%s)" % [w[0].split("::")[-1] for w in ww],
                  "%s is written by %s (value is Some(parameter): %s; argument is the WindowAcknowledgement size: %s)" % (WINDOW, [w[0] for w in ww], [w[1] for w in ww], prov))
    # ---- R5 sibling agreement
    if r["server"] and r["client"]:
        a = {k: v for k, v in r["server"].items() if k != "which"}
        b = {k: v for k, v in r["client"].items() if k != "which"}
        rep.check("C17.R5", "siblings-agree", a == b, "server and client sessions have the same acknowledgement summary %s" % a,
                  "the two sessions disagree: server %s, client %s" % (a, b))
