"""C17 - acknowledgements (DESIGN.md section 5, C17)."""
from .common import *
from ..absint import *
from ..interp import stable
from ..loader import Place
from .. import interp as I

COUNTER = "bytes_received_since_last_ack"
WINDOW = "peer_window_ack_size"


def field_index(prog, adt_key, name):
    for i, f in enumerate(prog.adts[adt_key]["variants"][0]["fields"]):
        if f["name"] == name:
            return i
    return None


def analyse_session(env, rep, which):
    """replay handle_input path by path up to the message loop (helpers followed in place) and ask the state at that point"""
    from .. import grammar
    from . import facts
    prog, ctx = env.prog, env.ctx
    ty = "sessions::%s::%sSession" % (which, which.capitalize())
    hb = body_by_pretty(prog, ty + "::handle_input")
    if hb is None:
        rep.anchor_missing("C17.R1", ty + "::handle_input")
        return None
    rep.fn(hb.key)
    if facts.field_proj(prog, ty, [COUNTER]) is None or facts.field_proj(prog, ty, [WINDOW]) is None:
        rep.anchor_missing("C17.R1", "%s fields %s / %s" % (ty, COUNTER, WINDOW))
        return None
    # the parameter holding the received bytes: the &[u8] one
    bi_param = None
    for i in range(1, hb.arg_count + 1):
        t = hb.locals[i]["t"]
        if t.get("k") == "ref" and t["to"].get("s") == "[u8]":
            bi_param = i
    if bi_param is None:
        rep.anchor_missing("C17.R1", ty + "::handle_input(&[u8])")
        return None
    ack_vi = facts.variant_index(prog, "messages::RtmpMessage", "Acknowledgement")

    def probe(it, S, toks):
        W = facts.entry_field(it, prog, ty, [WINDOW])
        Wv = facts.some_payload(W)
        set_ty(Wv, "u32")
        cloc = facts.self_field_loc(it, prog, ty, [COUNTER])
        C0 = facts.State().read(cloc)
        Cf = S.read(cloc)
        bytes_sv = facts.State().read((it.L(bi_param), ()))

        def is_sum(v):
            b = strip_casts(v)
            return isinstance(b, tuple) and b[0] == "bin" and b[1] == "Add" and ((b[3] == C0 and mentions_len(b[4])) or (b[4] == C0 and mentions_len(b[3])))

        def mentions_len(x):
            return contains(x, lambda q: isinstance(q, tuple) and q[0] == "ld" and q[1][1] and q[1][1][-1] == ("len",) and q[1][0] == ("P", bytes_sv))
        seq = None
        for t in toks:
            if t[0] == "call" and len(t) > 3 and t[3]:
                a0 = t[3][0]
                while isinstance(a0, tuple) and a0[0] == "upd":
                    a0 = a0[1]
                if isinstance(a0, tuple) and a0[0] == "agg" and isinstance(a0[1], str) and a0[1].endswith("RtmpMessage") and a0[2] == ack_vi:
                    seq = a0[3][0]
        some, none = facts.is_some(S, W), facts.is_none(S, W)
        if seq is not None:
            return ("ack", some, is_sum(seq), bool(S.prove_le(Wv, seq, 0)), const_val(Cf) == 0, stable(seq), stable(Cf))
        return ("no-ack", some, none, is_sum(Cf) if some else Cf == C0, bool(S.prove_le(Cf, Wv, -1)) if some else True, stable(Cf))
    ex = grammar.Extractor(env, hb.key, "r")
    ex.all_local_calls = True
    ex.track_stores = True
    ex.raw_args = True
    ex.inline = True
    ex.inline_depth = 3
    units = grammar.named_units(prog)
    ex.inline_pred = lambda cb, t: cb.pretty.split("::")[-1] not in units
    ex.probe3 = probe
    ex.stop_at = lambda fr, t: (callee_name(t) or "").endswith("get_next_message") or (prog.bodies.get(callee_path(t)) is not None and prog.bodies[callee_path(t)].pretty.endswith("get_next_message"))
    ex.run()
    if ex.truncated:
        rep.cannot_analyse("C17.R1", "%s|paths" % which, "too many paths before the message loop of %s::handle_input" % ty, hb.span)
        return None
    acks = [p for p in ex.paths if p[-1] == ("end", "cut") and p[-2][1][0] == "ack"]
    plain = [p for p in ex.paths if p[-1] == ("end", "cut") and p[-2][1][0] == "no-ack"]
    res = {"which": which}
    if not acks:
        rep.bad("C17.R1", "%s|ack-site" % which, "no path of %s::handle_input reaches the message loop after building an Acknowledgement" % ty, hb.span)
        return None
    # ---- R2 the reported number is the counter after adding this call's byte count
    ok2 = all(p[-2][1][2] for p in acks)
    rep.check("C17.R2", "%s|reported-value" % which, ok2, "the acknowledgement reports the counter after adding this call's byte count (%s)" % acks[0][-2][1][5],
              "the acknowledgement reports %s, which is not (bytes received since the last acknowledgement + the size of this call)" % sorted({p[-2][1][5] for p in acks}), hb.span)
    res["reported"] = ok2
    # ---- R1 trigger: ack iff window known and counter' >= window
    ok_ack = all(p[-2][1][1] and p[-2][1][3] for p in acks)
    ok_no = all(p[-2][1][4] for p in plain) and any(p[-2][1][1] for p in plain)
    rep.check("C17.R1", "%s|trigger" % which, ok_ack and ok_no,
              "an acknowledgement is sent exactly when counter >= window (and not when counter < window)",
              "the acknowledgement trigger is not 'counter >= peer window': on the sending paths counter >= window is %s, on the other paths counter < window is %s "
              "(with '>' a call that makes the count land exactly on the window sends nothing)" % ("proved" if ok_ack else "NOT proved", "proved" if ok_no else "NOT proved"), hb.span)
    res["trigger"] = ok_ack and ok_no
    # ---- R3 reset on the ack paths, the sum kept on the others (no window: untouched)
    zero_ok = all(p[-2][1][4] for p in acks)
    keep_ok = all(p[-2][1][3] for p in plain)
    rep.check("C17.R3", "%s|reset" % which, zero_ok and keep_ok, "the counter is 0 after an acknowledgement and keeps the accumulated value otherwise",
              "after sending an acknowledgement the counter is not provably reset to 0 on every path (%s: %s) / not kept on the other paths (%s: %s)" % (
                  zero_ok, sorted({p[-2][1][6] for p in acks}), keep_ok, sorted({p[-2][1][5] for p in plain})), hb.span)
    res["reset"] = zero_ok and keep_ok
    # ---- R6 accumulation overflow (known finding D10)
    n6 = 0
    for key in [hb.key] + sorted(ex.entered):
        b = prog.bodies[key]
        I.CUR_BODY[0] = b
        for o in ctx.interp(key).walk():
            if COUNTER in o.what and o.kind.startswith("overflow"):
                n6 += 1
                k6 = "%s-session|counter-accumulation" % which
                if o.proved:
                    rep.ok("C17.R6", k6, "accumulation cannot overflow: " + o.detail, o.span)
                else:
                    rep.bad("C17.R6", k6, "the accumulation can overflow: " + o.detail, o.span)
    res["followed"] = {hb.key} | set(ex.entered)
    return res


def run(env, rep):
    prog = env.prog
    rep.explanation = (
        "For both sessions: R1 the Acknowledgement is constructed exactly on the branch where (old counter + size of this call) >= "
        "peer window, and the other branch has counter < window (both edges of the guarding switch are checked, so > instead of >= "
        "fails); R2 its sequence_number is that updated counter; R3 the counter is 0 on every edge leaving the acknowledgement branch "
        "and keeps the sum otherwise; R4 nothing else in the crate writes the counter, and the window is written only from the size "
        "of a received WindowAcknowledgement, every function that stores the window stores it on every normal path (no announcement is ignored), and Acknowledgement messages are built only by handle_input's accounting or helpers nothing else calls; R5 the two sessions yield the same abstract summary; R6 the accumulation cannot overflow "
        "(today a known finding).  Not decided: the accounting identity over all call-size sequences (follows by induction over calls).")
    r = {}
    for which in ("server", "client"):
        r[which] = analyse_session(env, rep, which)
    # ---- R4 who may write
    for which in ("server", "client"):
        ty = "sessions::%s::%sSession" % (which, which.capitalize())
        adt_key = [k for k, a in prog.adts.items() if a["pretty"] == ty]
        if not adt_key:
            continue
        adt_key = adt_key[0]
        cw, ww = [], []
        for b in prog.bodies.values():
            if b.kind == "promoted" or is_derived(b):
                continue
            it = None
            for bi, blk in enumerate(b.blocks):
                for st in blk["stmts"]:
                    pp = st["place"]["p"]
                    if pp and isinstance(pp[-1], dict) and pp[-1].get("a") == adt_key:
                        if pp[-1].get("n") == COUNTER:
                            cw.append(b.pretty)
                        if pp[-1].get("n") == WINDOW:
                            # value must be Some(<first non-self parameter>) in a function called with the message's size
                            it = env.ctx.interp(b.key)
                            S = it.entry_states.get(bi)
                            ok = False
                            if S is not None:
                                S = S.copy()
                                for j, s2 in enumerate(blk["stmts"]):
                                    it.cur = (bi, j)
                                    if s2 is st:
                                        v = it.eval_rvalue(S, st["rv"], Place(st["place"]))
                                        ok = isinstance(v, tuple) and v[0] == "agg" and v[1] == "core::option::Option" and v[2] == 1 and is_param_load(v[3][0])
                                        if not ok and isinstance(v, tuple) and v[0] == "agg" and v[1] == "core::option::Option" and v[2] == 1:
                                            # stored right where the message is matched: the size field of a WindowAcknowledgement
                                            ok = "direct" if contains(v[3][0], lambda x: isinstance(x, tuple) and x[0] in ("proj", "ld") and "WindowAcknowledgement" in str(x)) else False
                                        break
                                    it.transfer_stmt(S, s2)
                            ww.append((b.pretty, ok, b.key))
        allowed_w = {prog.bodies[k].pretty for k in (r[which] or {}).get("followed", ())} | {ty + "::handle_input"}
        # a helper of handle_input must not be callable from anywhere else
        stray = []
        for k in (r[which] or {}).get("followed", ()):
            if prog.bodies[k].pretty in set(cw) and prog.bodies[k].pretty != ty + "::handle_input":
                for ck in prog.callers.get(k, ()):
                    if ck not in (r[which] or {}).get("followed", ()):
                        stray.append("%s (called from %s)" % (prog.bodies[k].pretty, prog.bodies[ck].pretty))
        rep.check("C17.R4", "%s|counter-writers" % which, bool(cw) and set(cw) <= allowed_w and not stray, "only handle_input (and helpers it alone calls before the message loop) writes the counter (%d stores)" % len(cw),
                  "%s is written in %s%s; only the accounting at the start of handle_input may change it (a second writer loses bytes that are never acknowledged)" % (
                      COUNTER, sorted(set(cw) - allowed_w) or sorted(set(cw)), "; " + "; ".join(stray) if stray else ""))
        okw = len(ww) >= 1 and all(ok for _, ok, _ in ww)
        # and those functions are called only with the size of a WindowAcknowledgement message
        prov = True
        for fnp, ok, key in ww:
            if ok == "direct":
                continue
            for ck in prog.callers.get(key, ()):
                cb = prog.bodies[ck]
                for bi, t in cb.calls():
                    if callee_path(t) == key:
                        S, args = args_at(env.ctx, ck, bi)
                        if S is None:
                            continue
                        a = args[1] if len(args) > 1 else None
                        if not (isinstance(a, tuple) and a[0] in ("proj", "ld") and "WindowAcknowledgement" in str(a)):
                            prov = False
        rep.check("C17.R4", "%s|window-writers" % which, okw and prov, "the window is only set to Some(size) of a received WindowAcknowledgement (%s)" % [w[0].split("::")[-1] for w in ww],
                  "%s is written by %s (value is Some(parameter): %s; argument is the WindowAcknowledgement size: %s)" % (WINDOW, [w[0] for w in ww], [w[1] for w in ww], prov))
    # ---- R4 (continued): every announced window is adopted, and acknowledgements come from the accounting alone
    from .. import grammar as _g
    for which in ("server", "client"):
        ty = "sessions::%s::%sSession" % (which, which.capitalize())
        hi = body_by_pretty(prog, ty + "::handle_input")
        if hi is None:
            continue
        # (i) a function that stores the window stores it on every path on which it returns normally: an announcement is never
        # ignored (whatever message stream it arrived on - the peer counts from it in any case)
        for b in prog.bodies.values():
            if b.kind != "assoc" or not b.impl or b.impl.get("self_ty") != ty or b.key == hi.key:
                continue
            stores = any(isinstance(st["place"]["p"][-1] if st["place"]["p"] else None, dict) and st["place"]["p"][-1].get("n") == WINDOW
                         for blk in b.blocks if not blk["cleanup"] for st in blk["stmts"])
            if not stores:
                continue
            ex = _g.trace(env, b.key, "r")
            skipped = []
            n_ok = 0
            for p in ex.paths:
                if not p or p[-1][0] != "end" or p[-1][1] == "err":
                    continue
                rets = [t for t in p if t[0] == "returns"]
                if rets and str(rets[-1][1]).startswith("Err("):
                    continue
                n_ok += 1
                if not any(t[0] == "store" and t[1] == WINDOW for t in p):
                    skipped.append(" ".join(_g.fmt_tok(t) for t in p if t[0] == "when")[:160])
            rep.check("C17.R4", "%s|every-announced-window-is-adopted:%s" % (which, b.pretty.split("::")[-1]), n_ok >= 1 and not skipped and not ex.truncated,
                      "%s stores the announced window on every normal path (%d)" % (b.pretty.split("::")[-1], n_ok),
                      "%s returns normally without adopting the announced window on the path [%s]: the peer waits for acknowledgements the session never sends" % (b.pretty, skipped[:1]), b.span)
        # (ii) an Acknowledgement message is built only by handle_input or by helpers that nothing else calls
        builders = []
        for b in prog.bodies.values():
            if ("sessions::%s::" % which) not in b.pretty or b.kind == "promoted":
                continue
            for blk in b.blocks:
                if blk["cleanup"]:
                    continue
                for st in blk["stmts"]:
                    rv = st["rv"]
                    if rv["k"] == "agg" and rv.get("ak") == "adt" and str(rv.get("adt", "")).endswith("messages::RtmpMessage") and rv.get("variant") == "Acknowledgement":
                        builders.append(b)
        stray = []
        for b in {x.key: x for x in builders}.values():
            seen, stack = set(), [b.key]
            while stack:
                k = stack.pop()
                if k in seen or k == hi.key:
                    continue
                seen.add(k)
                cs = [c for c in prog.callers.get(k, ()) if c in prog.bodies and prog.bodies[c].kind != "promoted"]
                kb = prog.bodies[k]
                if kb.kind == "closure" and kb.parent:
                    cs.append(kb.parent)
                if not cs and k != b.key or (not cs and kb.is_pub):
                    stray.append("%s (reachable without handle_input)" % kb.pretty)
                for c in cs:
                    cb = prog.bodies[c]
                    if cb.key != hi.key and cb.pretty.split("::")[-1].startswith("handle_") and cb.key != b.key:
                        stray.append("%s is reached from %s" % (b.pretty.split("::")[-1], cb.pretty.split("::")[-1]))
                    stack.append(c)
        rep.check("C17.R4", "%s|acknowledgements-built-only-by-the-accounting" % which, bool(builders) and not stray,
                  "Acknowledgement messages are built only by handle_input's accounting (%s)" % sorted({b.pretty.split("::")[-1] for b in builders}),
                  "an Acknowledgement is also sent outside the byte accounting of handle_input: %s - bytes would be acknowledged twice (the counter is reset only there)" % ("; ".join(sorted(set(stray))[:2]) or "no construction site found"), hi.span)
    # ---- R5 sibling agreement
    if r["server"] and r["client"]:
        a = {k: v for k, v in r["server"].items() if k not in ("which", "followed")}
        b = {k: v for k, v in r["client"].items() if k not in ("which", "followed")}
        rep.check("C17.R5", "siblings-agree", a == b, "server and client sessions have the same acknowledgement summary %s" % a,
                  "the two sessions disagree: server %s, client %s" % (a, b))
    # ---- R7: the acknowledgement reaches the peer as an acknowledgement: on chunk stream 2 it follows other 4-byte control messages, and
    # only the type comparison keeps it from being compressed into their header (C07 R3)
    from ..framework import PrefixReport, wants
    if wants(rep, "C17.R7"):
        from . import C07
        C07.run(env, PrefixReport(rep, "C07.R3", "C17.R7", only=("C07.R3",)))
