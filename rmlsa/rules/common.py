"""Rule building blocks shared by several properties."""
from ..query import *
from ..models import TRUSTED_NOPANIC, MODELS, model_for, is_panic_name
from ..absint import norm_name
from ..loader import span_str


# Methods of core / alloc / std whose documentation lists a panic (other than allocation failure).  A call to a std
# function that is neither modelled nor in TRUSTED_NOPANIC is accepted unless its method name is in this list; the
# accepted names are reported in the evidence (assumed_nonpanicking_std_callees).
PANICKING_STD_METHODS = {
    "unwrap", "expect", "unwrap_err", "expect_err", "unwrap_unchecked", "index", "index_mut", "remove", "swap_remove", "insert", "drain", "split_off",
    "split_at", "split_at_mut", "copy_from_slice", "clone_from_slice", "copy_within", "swap", "rotate_left", "rotate_right", "chunks", "chunks_mut",
    "chunks_exact", "chunks_exact_mut", "rchunks", "windows", "step_by", "from_digit", "pow", "abs", "div", "rem", "neg", "shl", "shr", "add", "sub", "mul",
    "add_assign", "sub_assign", "mul_assign", "div_assign", "rem_assign", "borrow", "borrow_mut", "replace_with", "join", "recv", "send", "lock", "read", "write",
    "panic", "panic_fmt", "panic_display", "begin_panic", "assert_failed", "unreachable", "exit", "abort", "get_unchecked", "get_unchecked_mut",
    "from_utf8_unchecked", "from_secs_f64", "from_secs_f32", "mul_f64", "mul_f32", "div_f64", "div_f32", "duration_since", "truncate_checked", "slice", "slice_ref",
    "split_to", "advance", "put", "put_slice", "put_u8", "reserve_exact", "with_capacity", "repeat", "resize", "extend_from_within", "range", "to_digit",
    "ilog", "ilog2", "ilog10", "isqrt", "next_power_of_two", "from_str_radix", "sort_by_cached_key", "select_nth_unstable", "fill_with", "array_chunks",
    "as_chunks", "split_first_chunk", "unchecked_add", "unchecked_sub", "unchecked_mul", "strict_add", "strict_sub", "strict_mul", "checked_unwrap",
    "elapsed_unwrap", "try_into_unwrap", "nth_back_unwrap", "div_euclid", "rem_euclid", "clamp", "splice", "replace_range", "insert_str",
    "from_u32_unchecked", "split_inclusive_at", "split_at_unchecked", "set_len", "swap_with_slice", "assume_init",
}
# methods whose name is harmless on one type and panicking on another: listed with their full path
# (Vec::truncate never panics; String::truncate / String::remove panic when the index is not on a char boundary)
PANICKING_STD_FULL = {
    "alloc::string::String::truncate", "alloc::string::String::remove", "alloc::string::String::pop_unchecked",
    "core::str::<impl str>::split_at", "core::str::<impl str>::split_at_mut", "core::time::Duration::new", "core::time::Duration::from_secs_f64",
}


def is_std_name(name):
    n = name.lstrip("<&'a mut")
    return name.startswith(("core::", "alloc::", "std::")) or n.startswith(("core::", "alloc::", "std::")) or \
        (name.startswith("<") and (" as core::" in name or " as alloc::" in name or " as std::" in name) and
         name[1:].lstrip("&'a mut ").startswith(("core::", "alloc::", "std::", "u8", "u16", "u32", "u64", "usize", "i8", "i16", "i32", "i64", "isize", "str", "[", "bool", "char", "f32", "f64", "T", "I")))


def std_method(name):
    return name.rsplit("::", 1)[-1]


def analysable_bodies(prog, keys):
    out = []
    for k in sorted(keys):
        b = prog.bodies[k]
        if b.kind == "promoted" or is_derived(b) or is_display_or_debug(b):
            continue
        out.append(b)
    return out


def field_update_key(prog, b, o):
    """a second, function-independent name for a checked arithmetic site whose result updates a named field
    (Type.field op= ...): the same defect keeps this name when the statement is moved into a helper"""
    if not o.kind.startswith("overflow:") or o.body != b.key:
        return None
    t = b.blocks[o.bi]["term"]
    if t.get("k") != "assert" or t.get("t") is None:
        return None
    nxt = b.blocks[t["t"]]["stmts"]
    if not nxt:
        return None
    pp = nxt[0]["place"]["p"]
    if pp and isinstance(pp[-1], dict) and pp[-1].get("n") and pp[-1].get("a") and nxt[0]["rv"].get("k") == "use":
        adt = prog.adts.get(pp[-1]["a"], {}).get("pretty", pp[-1]["a"])
        same = any(isinstance(op.get("c", op.get("m", {})).get("p", [None])[-1:] and op.get("c", op.get("m", {})).get("p", [None])[-1], dict) and
                   op.get("c", op.get("m", {})).get("p")[-1].get("n") == pp[-1]["n"] for op in t.get("ops", []) if isinstance(op, dict))
        if same:
            return "%s.%s|%s" % (adt, pp[-1]["n"], o.kind)
        # the old value was copied into a local first (let id = self.counter; self.counter = id + 1): still an update of the
        # field if one operand is a local whose only definition is a copy of that field
        for op in t.get("ops", []):
            pl = op.get("c", op.get("m")) if isinstance(op, dict) else None
            if not pl or pl.get("p"):
                continue
            defs = [st for blk in b.blocks for st in blk["stmts"] if st["place"]["l"] == pl["l"] and not st["place"]["p"]]
            if len(defs) == 1 and defs[0]["rv"].get("k") == "use":
                src = defs[0]["rv"]["a"].get("c", defs[0]["rv"]["a"].get("m", {}))
                sp = src.get("p") or []
                if sp and isinstance(sp[-1], dict) and sp[-1].get("n") == pp[-1]["n"] and sp[-1].get("a") == pp[-1]["a"]:
                    return "%s.%s|%s" % (adt, pp[-1]["n"], o.kind)
    return None


_REPLAY_CACHE = {}


def replay_obligations(env, b, max_paths=800):
    """{(block, kind): True iff the obligation was proved each time a replayed path reached it}; empty when the replay was cut off"""
    from .. import grammar
    key = (id(env.prog), b.key)
    if key in _REPLAY_CACHE:
        return _REPLAY_CACHE[key]
    out = {}
    if sum(1 for bl in b.blocks if not bl["cleanup"]) <= 400:
        ex = grammar.Extractor(env, b.key, "r", max_paths=max_paths)
        ex.it.obligations = []
        try:
            ex.run()
        except RecursionError:
            ex.truncated = True
        obs = ex.it.obligations or []
        ex.it.obligations = None
        if not ex.truncated:
            for o in obs:
                if o.body != b.key:
                    continue
                k = (o.bi, o.kind)
                out[k] = out.get(k, True) and bool(o.proved)
    _REPLAY_CACHE[key] = out
    return out


def panic_sites(env, rep, rule, entries, label):
    """R1 of C03 (and C19 R4, C20 R1): every panic-capable site in the functions reachable from
    `entries` is discharged under the function's entry state, or is a reviewed site / known finding."""
    prog, ctx = env.prog, env.ctx
    reach = reachable(prog, entries)
    bodies = analysable_bodies(prog, reach)
    n_sites = 0
    n_calls = 0
    assumed = set()
    for b in bodies:
        rep.fn(b.key)
        it = ctx.interp(b.key)
        obs = it.walk()
        if any(not o.proved for o in obs):
            # second chance: the fixpoint joins the states of all paths before a site; a fact that holds on each path for a
            # different reason (a guard folded into a bool by `&&`, a length known through Some(..) == first()) is lost in the
            # join.  Replay the function path by path (same transfer functions, no joins, loops from the fixpoint's head state)
            # and accept a site that is proved on every path that reaches it.
            second = replay_obligations(env, b)
            for o in obs:
                if not o.proved and second.get((o.bi, o.kind)) is True:
                    o.proved = True
                    o.detail = (o.detail or "") + " ; proved on every replayed path to the site"
        for o in obs:
            n_sites += 1
            key = "%s|%s" % (prog.bodies[o.body].pretty, o.what)
            triv = o.proved and ("load(" not in o.what and "call(" not in o.what and "phi(" not in o.what)
            if o.proved:
                rep.ok(rule, key, "discharged: %s" % (o.detail or o.kind), o.span, nontrivial=not triv)
            else:
                rep.bad(rule, key, "panic-capable site not discharged (%s): %s" % (o.kind, o.detail), o.span,
                        detail={"function": o.body, "kind": o.kind, "facts": o.detail, "entry_set": label}, alt=field_update_key(prog, b, o))
        # every external callee must be modelled or listed as non-panicking
        for bi, t in b.calls():
            if it.entry_states.get(bi) is None:
                continue
            n_calls += 1
            c = t["callee"]
            p = c.get("path")
            if p in prog.bodies:
                continue
            name = norm_name(c.get("pretty"))
            if model_for(c, name) is not None or name in TRUSTED_NOPANIC:
                continue
            if is_std_name(name) and std_method(name) not in PANICKING_STD_METHODS and name not in PANICKING_STD_FULL:
                assumed.add(name)
                continue
            if c.get("fnptr") or c.get("indirect"):
                rep.cannot_analyse(rule, "%s|indirect-call" % b.pretty, "indirect call in %s" % b.key, t["span"])
                continue
            rep.cannot_analyse(rule, "%s|callee:%s" % (b.pretty, name),
                               "call to %s, which is neither modelled nor listed as non-panicking" % name, t["span"])
    rep.call_sites += n_calls
    if assumed:
        rep.extra.setdefault("assumed_nonpanicking_std_callees", [])
        rep.extra["assumed_nonpanicking_std_callees"] = sorted(set(rep.extra["assumed_nonpanicking_std_callees"]) | assumed)
    return bodies, n_sites


def stateless(env, rep, rule, entry_pretties, what):
    """The functions reachable from the entries read and write nothing that outlives the call except through their arguments:
    no thread-local, no writable static (static mut / interior mutability).  A codec whose output depends on what an earlier
    call left behind cannot be the identity / deterministic per input.  Decided on the MIR: references to statics are
    constants naming the static item (driver: "static", "static_writable"), thread-locals are ThreadLocalRef rvalues and
    calls of std::thread::LocalKey."""
    import json
    prog = env.prog
    entries = []
    for p in entry_pretties:
        b = body_by_pretty(prog, p)
        if b is None:
            rep.anchor_missing(rule, p)
            continue
        entries.append(b.key)
    if not entries:
        return
    seen = prog.reachable_from(entries)
    # closures and promoteds of reachable bodies belong to them
    keys = set(seen)
    for b in prog.bodies.values():
        if b.parent in keys or (b.kind in ("closure", "promoted") and any(b.key.startswith(k + "::") for k in seen)):
            keys.add(b.key)
    n = 0
    for k in sorted(keys):
        b = prog.bodies.get(k)
        if b is None:
            continue
        n += 1
        rep.fn(k)
        bad = []
        for bl in b.blocks:
            if bl.get("cleanup"):
                continue
            for st in bl["stmts"]:
                js = json.dumps(st)
                if '"static_writable": true' in js or '"static_writable":true' in js:
                    bad.append(("a writable static", st.get("span")))
                if "/*tls*/" in js:
                    bad.append(("a thread-local", st.get("span")))
            t = bl["term"]
            js = json.dumps({k2: v for k2, v in t.items() if k2 in ("args", "callee")})
            if '"static_writable": true' in js or '"static_writable":true' in js:
                bad.append(("a writable static", t.get("span")))
            if t["k"] == "call" and "std::thread::local::LocalKey" in (t["callee"].get("pretty") or ""):
                bad.append(("a thread-local (LocalKey)", t.get("span")))
        for w, sp in bad[:2]:
            rep.bad(rule, "%s|state-outside-arguments" % b.pretty, "%s uses %s: %s must depend on its arguments only (state kept between calls leaks one call's bytes or errors into the next)" % (b.pretty, w, what), sp)
        if not bad:
            rep.ok(rule, "%s|no-state-outside-arguments" % b.pretty, "uses no static or thread-local state", b.span, nontrivial=False)
    rep.floor(rule, "functions reachable from %s" % ", ".join(x.split("::")[-1] for x in entry_pretties), n, len(entries))
