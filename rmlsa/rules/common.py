"""Rule building blocks shared by several properties."""
from ..query import *
from ..models import TRUSTED_NOPANIC, MODELS, model_for, is_panic_name
from ..absint import norm_name
from ..loader import span_str


def analysable_bodies(prog, keys):
    out = []
    for k in sorted(keys):
        b = prog.bodies[k]
        if b.kind == "promoted" or is_derived(b) or is_display_or_debug(b):
            continue
        out.append(b)
    return out


def panic_sites(env, rep, rule, entries, label):
    """R1 of C03 (and C19 R4, C20 R1): every panic-capable site in the functions reachable from
    `entries` is discharged under the function's entry state, or is a reviewed site / known finding."""
    prog, ctx = env.prog, env.ctx
    reach = reachable(prog, entries)
    bodies = analysable_bodies(prog, reach)
    n_sites = 0
    n_calls = 0
    for b in bodies:
        rep.fn(b.key)
        it = ctx.interp(b.key)
        obs = it.walk()
        for o in obs:
            n_sites += 1
            key = "%s|%s" % (prog.bodies[o.body].pretty, o.what)
            triv = o.proved and ("load(" not in o.what and "call(" not in o.what and "phi(" not in o.what)
            if o.proved:
                rep.ok(rule, key, "discharged: %s" % (o.detail or o.kind), o.span, nontrivial=not triv)
            else:
                rep.bad(rule, key, "panic-capable site not discharged (%s): %s" % (o.kind, o.detail), o.span,
                        detail={"function": o.body, "kind": o.kind, "facts": o.detail, "entry_set": label})
        # every external callee must be modelled or listed as non-panicking
        for bi, t in b.calls():
            if it.entry_states.get(bi) is None:
                continue
            n_calls += 1
            c = t["callee"]
            p = c.get("path")
            if p in prog.bodies:
                continue
            name = norm_name(c.get("pretty"))
            if model_for(c, name) is not None or name in TRUSTED_NOPANIC:
                continue
            if c.get("fnptr") or c.get("indirect"):
                rep.cannot_analyse(rule, "%s|indirect-call" % b.pretty, "indirect call in %s" % b.key, t["span"])
                continue
            rep.cannot_analyse(rule, "%s|callee:%s" % (b.pretty, name),
                               "call to %s, which is neither modelled nor listed as non-panicking" % name, t["span"])
    rep.call_sites += n_calls
    return bodies, n_sites
