"""C12 - AMF0 wire format conforms to the specification (DESIGN.md section 5, C12)."""
from . import amf0


def run(env, rep):
    rep.explanation = (
        "R1: the abstract output grammar of each encoder function (constants evaluated, typed holes with width, byte order "
        "and provenance, loops collapsed) equals the row of /verif/spec/amf0.json written from the AMF0 specification; "
        "R2: the decoder's marker dispatch, the typed reads of each parser, the constructed variant, the Boolean byte "
        "interpretation (interval refinement of the deciding branch), the object-property / terminator grammar and the "
        "strict-array loop bound equal the specification table; R3: every failed read ends in an error return and no read "
        "Result is discarded; R4: the encoder refuses (builds an error for) a value only where AMF0 cannot express it - a byte length above 65,535, or the empty "
        "property name - classified per variant on every error path by what the path's state proves about the lengths; R5 (= C04 R1-R2): a length prefix is the byte length itself, never a truncation of it, and the reserved name length 0 is not written.  Not decided: conformance for every value (follows by structural induction, stated not mechanised).")
    rep.assumptions = ["byteorder's write_uN::<E>/read_uN::<E> encode the named width and byte order", "the specification table /verif/spec/amf0.json is transcribed correctly"]
    rep.exhaustive = True
    spec = amf0.load_spec()
    amf0.check_encoder_grammar(env, rep, "C12.R1", spec)
    amf0.check_decoder(env, rep, "C12.R2", spec)
    amf0.check_error_discipline(env, rep, "C12.R3")
    amf0.check_encoder_refusals(env, rep, "C12.R4")
    # R5: the length prefixes are the byte lengths, never a truncation of them (C04 R1-R2)
    from ..framework import PrefixReport, wants
    if wants(rep, "C12.R5"):
        from . import C04
        C04.run(env, PrefixReport(rep, "C04.", "C12.R5.", only=("C04.R1", "C04.R2")))
