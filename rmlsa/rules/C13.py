"""C13 - RTMP message bodies (DESIGN.md section 5, C13): type-id tables, per-type body layouts in both
directions, chunk-size bound; compared with /verif/spec/rtmp_messages.json."""
import json, os, re
from .common import *
from .. import grammar
from ..grammar import fmt_path
from .amf0 import is_io_plumbing, norm_write_path

SPEC = os.path.join(os.path.dirname(os.path.dirname(os.path.dirname(os.path.abspath(__file__)))), "spec", "rtmp_messages.json")


def sig(path):
    return [t for t in path if not is_io_plumbing(t)]


def variant_names(prog, adt_pretty):
    for k, a in prog.adts.items():
        if a["pretty"] == adt_pretty and k.startswith("rml_rtmp"):
            return a
    return None


def strip_upd(v):
    while isinstance(v, tuple) and v[0] == "upd":
        v = v[1]
    return v


def run(env, rep):
    prog = env.prog
    rep.explanation = (
        "R1: message -> type id (get_message_type_id), type id -> decoder (to_rtmp_message dispatch), decoder -> constructed "
        "variant and variant -> encoder (from_rtmp_message) are extracted as finite tables and must compose to the identity and "
        "equal the specification's ids, with 15/17 routed to the AMF0 decoders, the default arm building Unknown from the "
        "payload's own type id and data, and Unknown encoded as its data; R2: per message type the encoder's output grammar and "
        "the decoder's typed reads (width, byte order, order, event/limit codes, which field each value lands in) agree with each "
        "other and with the specification row; R3: the size is within [0, 2^31-1] on every Ok path of the SetChunkSize codec in "
        "both directions; R4 (= C12 R1-R2 and C04 R3): the AMF0 encoder and decoder that carry the bodies of command and data messages follow the AMF0 "
        "specification table and agree with each other per value type - a command or data message converts back losslessly only if its values do.  Not decided: equality over all field values (for AMF0-bodied types this reduces to C04).")
    rep.exhaustive = True
    with open(SPEC) as f:
        spec = json.load(f)
    msg = variant_names(prog, "messages::RtmpMessage")
    if msg is None:
        rep.anchor_missing("C13.R1", "enum messages::RtmpMessage")
        return
    vname = {i: v["name"] for i, v in enumerate(msg["variants"])}
    # ------------------------------------------------------------------ R1 tables
    gid = body_by_pretty(prog, "messages::RtmpMessage::get_message_type_id")
    trm = body_by_pretty(prog, "messages::message_payload::MessagePayload::to_rtmp_message")
    frm = body_by_pretty(prog, "messages::message_payload::MessagePayload::from_rtmp_message")
    for b, nm in ((gid, "RtmpMessage::get_message_type_id"), (trm, "MessagePayload::to_rtmp_message"), (frm, "MessagePayload::from_rtmp_message")):
        if b is None:
            rep.anchor_missing("C13.R1", nm)
            return
        rep.fn(b.key)
    id_of = {}
    for p in grammar.reads(env, gid.key).paths:
        vi = None
        ret = None
        for t in sig(p):
            if t[0] == "when" and t[1].startswith("discr(") and t[2].isdigit():
                vi = int(t[2])
            if t[0] == "returns":
                ret = t[1]
        if vi is not None:
            id_of[vname[vi]] = ret
    dec_of = {}
    default = None
    alias_paths = {}
    def strip_probe(ex, it, S, t, args):
        # at a call that cuts a prefix off the payload: what the state knows about the first byte of the buffer it cuts
        if callee_name(t) not in ("bytes::bytes::Bytes::slice", "bytes::bytes::Bytes::split_off", "bytes::buf::buf_impl::Buf::advance", "bytes::bytes::Bytes::split_to") or not args:
            return None
        try:
            loc = it.target(args[0])
            b0 = S.read((loc[0], loc[1] + (("ix", 0),)))
            if sv_type(b0) is None and not is_const(b0):
                set_ty(b0, "u8")
            d = S.dom(b0)
            return ("first-byte", d.lo, d.hi)
        except Exception:
            return ("first-byte", 0, 255)
    for p in grammar.reads(env, trm.key, all_local_calls=True, inline=True, call_probe=strip_probe).paths:
        s = sig(p)
        tid = None
        target = None
        for t in s:
            if t[0] == "when" and "type_id" in t[1] and not t[1].startswith("("):
                tid = t[2]
            if t[0] == "call" and target is None and "::types::" in t[1]:
                target = t
            if t[0] == "returns" and target is None and not t[1].startswith("call("):
                target = t
        if tid is None or target is None:
            continue
        if tid.startswith("other:"):
            default = target
        else:
            for x in tid.split(","):
                dec_of.setdefault(int(x), set()).add((target[0], target[1]))
                alias_paths.setdefault(int(x), []).append(s)
    enc_of = {}
    for p in grammar.reads(env, frm.key, all_local_calls=True).paths:
        s = sig(p)
        vi = None
        target = None
        for t in s:
            if t[0] == "when" and t[1].startswith("discr(load(message") and t[2].isdigit():
                vi = int(t[2])
            if t[0] == "call" and "::types::" in t[1] and target is None:
                target = t
        if vi is not None:
            enc_of.setdefault(vname[vi], set()).add(target[1] if target else None)
    # constructed variant per decoder
    built = {}

    def decoder_builds(pretty):
        if pretty in built:
            return built[pretty]
        b = body_by_pretty(prog, pretty)
        res = set()
        if b is not None:
            rep.fn(b.key)
            for p in grammar.ok_paths(grammar.reads(env, b.key, all_local_calls=True)):
                for t in p:
                    if t[0] == "returns":
                        m = re.match(r"^Ok\(RtmpMessage::(\w+)", t[1])
                        if m:
                            res.add(m.group(1))
        built[pretty] = res
        return res

    n = 0
    for variant, want_id in sorted(spec["type_ids"].items()):
        n += 1
        got_id = id_of.get(variant)
        ok_id = got_id == str(want_id)
        decs = dec_of.get(want_id, set())
        dec = sorted(decs)[0][1] if len(decs) == 1 and sorted(decs)[0][0] == "call" else None
        builds = decoder_builds(dec) if dec else set()
        encs = enc_of.get(variant, set())
        enc = sorted(encs)[0] if len(encs) == 1 else None
        same_module = bool(enc and dec and enc.rsplit("::", 1)[0] == dec.rsplit("::", 1)[0])
        good = ok_id and dec is not None and builds == {variant} and same_module
        rep.check("C13.R1", "type:%s" % variant, good,
                  "%s <-> id %s: encoder %s, decoder %s builds %s" % (variant, want_id, enc and enc.split("::types::")[-1], dec and dec.split("::types::")[-1], sorted(builds)),
                  "type-id tables do not compose for %s: get_message_type_id gives %s (specification: %s); id %s is decoded by %s, which builds %s; "
                  "the variant is encoded by %s" % (variant, got_id, want_id, want_id, sorted(decs), sorted(builds), sorted(encs, key=str)), gid.span)
    rep.floor("C13.R1", "message types in the id tables", n, 10)
    extra_ids = sorted(set(dec_of) - set(spec["type_ids"].values()) - {int(x) for x in spec["aliases"]})
    for x in extra_ids:
        rep.bad("C13.R1", "type-id:%d" % x, "type id %d is decoded specially although the specification table has no such message type" % x, trm.span)
    # aliases 15 / 17
    for alias, variant in sorted(spec["aliases"].items()):
        a = int(alias)
        decs = dec_of.get(a, set())
        want_dec = dec_of.get(spec["type_ids"][variant], set())
        ok = len(decs) == 1 and decs == want_dec
        detail = ""
        if ok:
            # the payload handed to the decoder is the data itself, or the data without a leading byte only under a test of that byte
            for s in alias_paths.get(a, []):
                call = [t for t in s if t[0] == "call"]
                if not call:
                    continue
                arg = call[0][2][0] if call[0][2] else ""
                if "slice" in arg and a != 17:
                    ok = False
                    detail = "; a prefix is stripped from type-%d payloads: only type 17 (AMF3 command) carries the one-byte format marker that may be skipped" % a
                elif "slice" in arg:
                    tests = [t for t in s if t[0] == "when" and "elem" in t[1] and (" Eq 0" in t[1] or t[2] == "0")]
                    # or, however the test was written: the state at the cutting call knows that the first byte is 0
                    known0 = [t for t in s if t[0] == "cprobe" and t[1][0] == "first-byte" and t[1][1] == t[1][2] == 0]
                    if not tests and not known0:
                        ok = False
                        detail = "; a prefix is stripped from type-%d payloads without testing that it is the 0x00 marker of a disguised AMF3 message" % a
                elif not re.match(r"^load\(\*?load\(self\)\.data\)$", arg):
                    ok = False
                    detail = "; the decoder is not given the payload's data (%s)" % arg
        rep.check("C13.R1", "alias:%s" % alias, ok, "type id %s is decoded like %s" % (alias, variant),
                  "type id %s (AMF3-flagged %s) is decoded by %s, type %s by %s%s" % (alias, variant, sorted(decs), spec["type_ids"][variant], sorted(want_dec), detail), trm.span)
    # default arm and Unknown
    okd = default is not None and default[0] == "returns" and re.match(r"^Ok\(RtmpMessage::Unknown\(load\(\*?load\(self\)\.type_id\), load\(\*?load\(self\)\.data\)\)\)$", default[1]) is not None
    rep.check("C13.R1", "default-arm", okd, "unknown type ids become Unknown{type_id: self.type_id, data: self.data}",
              "the default arm of to_rtmp_message is %s" % (default,), trm.span)
    rep.check("C13.R1", "unknown-type-id", id_of.get("Unknown", "").endswith("Unknown.type_id)"), "Unknown reports its own type_id",
              "get_message_type_id(Unknown) returns %s" % id_of.get("Unknown"), gid.span)
    # from_rtmp_message(Unknown) passes data through
    unk_ok = False
    for p in grammar.reads(env, frm.key, all_local_calls=True).paths:
        s = sig(p)
        if any(t[0] == "when" and t[1].startswith("discr(load(message") and t[2].isdigit() and vname[int(t[2])] == "Unknown" for t in s):
            rets = [t for t in s if t[0] == "returns" and t[1].startswith("Ok(")]
            if rets and "message as Unknown.data" in rets[-1][1] and "call(" not in rets[-1][1].split("MessagePayload(")[-1].split(",")[0:4].__str__().replace("call({impl#0}::get_message_type_id)", ""):
                unk_ok = True
            elif rets and "Unknown.data" in rets[-1][1]:
                unk_ok = True
    rep.check("C13.R1", "unknown-encoding", unk_ok, "Unknown is encoded as its data, untouched", "from_rtmp_message(Unknown) does not return the data untouched", frm.span)

    # ------------------------------------------------------------------ R2 body layouts
    def enc_paths(mod):
        b = body_by_pretty(prog, "messages::types::%s::serialize" % mod)
        if b is None:
            rep.anchor_missing("C13.R2", "messages::types::%s::serialize" % mod)
            return None, None
        rep.fn(b.key)
        return b, grammar.ok_paths(grammar.emitted(env, b.key))

    def dec_paths(mod):
        b = body_by_pretty(prog, "messages::types::%s::deserialize" % mod)
        if b is None:
            rep.anchor_missing("C13.R2", "messages::types::%s::deserialize" % mod)
            return None, None
        rep.fn(b.key)
        return b, grammar.ok_paths(grammar.reads(env, b.key, all_local_calls=True))

    simple = {"SetChunkSize": ("set_chunk_size", "size"), "Abort": ("abort", "stream_id"), "Acknowledgement": ("acknowledgement", "sequence_number"),
              "WindowAcknowledgement": ("window_acknowledgement_size", "size")}
    for variant, (mod, field) in sorted(simple.items()):
        eb, ep = enc_paths(mod)
        db, dp = dec_paths(mod)
        if eb is None or db is None:
            continue
        got_e = sorted({norm_write_path(p) for p in ep})
        got_d = sorted({" ".join(t[1] for t in p if t[0] == "read") for p in dp})
        builds = sorted({t[1] for p in dp for t in p if t[0] == "returns" and t[1].startswith("Ok(")})
        want_b = "Ok(RtmpMessage::%s(#1))" % variant
        rep.check("C13.R2", "body:%s" % variant, got_e == ["u32be(A)"] and got_d == ["u32be"] and builds == [want_b],
                  "%s body = u32be(%s) in both directions" % (variant, field),
                  "%s: encoder emits %s, decoder reads %s and builds %s; specification: %s" % (variant, got_e, got_d, builds, spec["bodies"][variant]["layout"]), eb.span)
    # SetPeerBandwidth
    eb, ep = enc_paths("set_peer_bandwidth")
    db, dp = dec_paths("set_peer_bandwidth")
    lim = variant_names(prog, "messages::PeerBandwidthLimitType")
    if eb and db and lim:
        codes = spec["bodies"]["SetPeerBandwidth"]["limit_type_codes"]
        enc_codes = {}
        for p in ep:
            vi = [int(t[2]) for t in p if t[0] == "when" and t[1].startswith("discr(load(limit_type") and t[2].isdigit()]
            body = norm_write_path(p)
            m = re.match(r"^u32be\(A\) u8=(\d+)$", body)
            if vi and m:
                enc_codes[lim["variants"][vi[0]]["name"]] = int(m.group(1))
            else:
                enc_codes["?" + body] = -1
        dec_codes = {}
        for p in dp:
            reads_ = [t[1] for t in p if t[0] == "read"]
            code = [t[2] for t in sig(p) if t[0] == "when" and "read_u8" in t[1] and t[2].isdigit()]
            b_ = [t[1] for t in p if t[0] == "returns" and t[1].startswith("Ok(")]
            m = re.match(r"^Ok\(RtmpMessage::SetPeerBandwidth\(#1, PeerBandwidthLimitType::(\w+)\)\)$", b_[-1]) if b_ else None
            if reads_ == ["u32be", "u8"] and code and m:
                dec_codes[m.group(1)] = int(code[0])
            else:
                dec_codes["?" + fmt_path(p)[:80]] = -1
        rep.check("C13.R2", "body:SetPeerBandwidth", enc_codes == codes and dec_codes == codes,
                  "SetPeerBandwidth = u32be(size) u8(limit) with codes %s in both directions" % codes,
                  "SetPeerBandwidth: encoder codes %s, decoder codes %s, specification %s" % (enc_codes, dec_codes, codes), eb.span)
    # UserControl
    eb, ep = enc_paths("user_control")
    db, dp = dec_paths("user_control")
    ev = variant_names(prog, "messages::UserControlEventType")
    if eb and db and ev:
        want = spec["user_control_events"]
        helpers = {}
        for nm in ("write_stream_event", "write_length_event", "write_timestamp_event"):
            hb = body_by_pretty(prog, "messages::types::user_control::" + nm)
            if hb is not None:
                rep.fn(hb.key)
                helpers[nm] = sorted({norm_write_path(p) for p in grammar.ok_paths(grammar.emitted(env, hb.key))})
        n_ev = 0
        for p in ep:
            vi = [int(t[2]) for t in p if t[0] == "when" and t[1].startswith("discr(load(event_type") and t[2].isdigit()]
            calls = [t for t in p if t[0] == "call"]
            if not vi or not calls:
                continue
            name = ev["variants"][vi[0]]["name"]
            n_ev += 1
            row = want.get(name)
            if row is None:
                rep.bad("C13.R2", "event:%s" % name, "event type %s has no row in the specification table" % name, eb.span)
                continue
            h = calls[0][1].split("::")[-1]
            args = calls[0][2]
            code = args[0] if args else None
            layout = helpers.get(h, ["?"])
            # expected helper layout from the specification row
            nfields = len(row["data"])
            want_layout = "u16be(A)" + "".join(" u32be(%s)" % "BCDE"[i] for i in range(nfields))
            field = row["data"][0].split("(")[1].rstrip(")")
            arg_ok = any(field in a for a in args[1:]) if len(args) > 1 else False
            rep.check("C13.R2", "event-enc:%s" % name, code == str(row["code"]) and layout == [want_layout] and arg_ok,
                      "%s is written as u16be=%s + %s" % (name, row["code"], row["data"]),
                      "%s is written by %s(code %s, %s) with layout %s; specification: code %s, data %s" % (name, h, code, args[1:], layout, row["code"], row["data"]), eb.span)
        rep.floor("C13.R2.events", "user-control event types with an encoder arm", n_ev, 9)
        dec_seen = {}
        for p in dp:
            code = [t[2] for t in sig(p) if t[0] == "when" and "read_u16" in t[1] and t[2].isdigit()]
            b_ = [t[1] for t in p if t[0] == "returns" and t[1].startswith("Ok(")]
            reads_ = [t[1] for t in p if t[0] == "read"]
            if code and b_:
                dec_seen[int(code[0])] = (reads_, b_[-1])
        for name, row in sorted(want.items()):
            got = dec_seen.get(row["code"])
            nfields = len(row["data"])
            want_reads = ["u16be"] + ["u32be"] * nfields
            f0 = row["data"][0].split("(")[1].rstrip(")")
            if f0 == "stream_id" and nfields == 1:
                wb = "Ok(RtmpMessage::UserControl(UserControlEventType::%s, Some(#2), None, None))" % name
            elif f0 == "stream_id":
                wb = "Ok(RtmpMessage::UserControl(UserControlEventType::%s, Some(#2), Some(#3), None))" % name
            else:
                wb = "Ok(RtmpMessage::UserControl(UserControlEventType::%s, None, None, Some(RtmpTimestamp(#2))))" % name
            rep.check("C13.R2", "event-dec:%s" % name, got is not None and got[0] == want_reads and got[1] == wb,
                      "event code %s decodes to %s reading %s" % (row["code"], name, want_reads),
                      "event code %s (%s): decoder reads %s and builds %s; specification: reads %s, builds %s" % (row["code"], name, got and got[0], got and got[1], want_reads, wb), db.span)
        extra = sorted(set(dec_seen) - {r["code"] for r in want.values()})
        for c in extra:
            rep.bad("C13.R2", "event-dec:code:%d" % c, "the decoder accepts user-control event code %d, which the specification table does not list" % c, db.span)
    # audio / video: identity
    for variant, mod in (("AudioData", "audio_data"), ("VideoData", "video_data")):
        eb = body_by_pretty(prog, "messages::types::%s::serialize" % mod)
        db = body_by_pretty(prog, "messages::types::%s::deserialize" % mod)
        if eb is None or db is None:
            rep.anchor_missing("C13.R2", "messages::types::%s" % mod)
            continue
        rep.fn(eb.key)
        rep.fn(db.key)
        er = {t[1] for p in grammar.reads(env, eb.key).paths for t in p if t[0] == "returns"}
        dr = {t[1] for p in grammar.reads(env, db.key).paths for t in p if t[0] == "returns"}
        rep.check("C13.R2", "body:%s" % variant, len(er) == 1 and all(re.match(r"^Ok\(load\(\w+\)\)$", x) for x in er)
                  and len(dr) == 1 and all(re.match(r"^Ok\(RtmpMessage::%s\(load\(\w+\)\)\)$" % variant, x) for x in dr),
                  "%s body is the payload itself in both directions" % variant, "%s: serialize returns %s, deserialize returns %s" % (variant, er, dr), eb.span)
    # AMF0-bodied types
    eb = body_by_pretty(prog, "messages::types::amf0_command::serialize")
    db = body_by_pretty(prog, "messages::types::amf0_command::deserialize")
    if eb is None or db is None:
        rep.anchor_missing("C13.R2", "messages::types::amf0_command")
    else:
        rep.fn(eb.key)
        rep.fn(db.key)
        it = env.ctx.interp(eb.key)
        from .. import interp as I
        I.CUR_BODY[0] = eb
        order = None
        for bi, t in eb.calls():
            if callee_name(t) == "alloc::boxed::box_assume_init_into_vec_unsafe":
                S = it.edge_out.get((bi, t["t"]))
                if S is not None:
                    v = S.read(it.resolve(S, Place(t["dest"])))
                    base = v[1] if isinstance(v, tuple) and v[0] == "upd" else v
                    if isinstance(base, tuple) and base[0] == "model" and base[1] == "vec!":
                        order = [grammar.render_value(prog, x) for x in base[2][3]]
        want_order = ["Amf0Value::Utf8String(load(command_name))", "Amf0Value::Number(load(transaction_id))", "load(command_object)"]
        appends = [callee_name(t) for _, t in eb.calls() if callee_name(t) == "alloc::vec::Vec::append"]
        # the same list assembled item by item: what is handed to the AMF0 encoder, as a sequence of items
        from ..models import items_of, value_items
        from ..interp import stable
        seqs = set()
        for bi, t in eb.calls():
            cp = t["callee"].get("pretty") or ""
            if cp.endswith("serialization::serialize") or cp.endswith("rml_amf0::serialize") or cp == "serialize" or cp.endswith("::serialize") and "amf0" in (t["callee"].get("path") or ""):
                S, args = args_at(env.ctx, eb.key, bi)
                if S is None or not args:
                    continue
                loc = it.target(args[0])
                items = items_of(S, loc) or value_items(S.read(loc))
                if items is not None:
                    seqs.add(tuple(("splice:" + stable(strip_upd(x[1]))) if (isinstance(x, tuple) and x and x[0] == "splice") else grammar.render_value(prog, x) for x in items))
        want_seq = tuple(want_order) + ("splice:load(additional_arguments)",)
        by_items = seqs == {want_seq}
        if by_items:
            order, appends = want_order, ["items"]
        rep.check("C13.R2", "body:Amf0Command:enc", order == want_order and len(appends) == 1,
                  "command body = [name, transaction id, command object] ++ arguments, AMF0 encoded",
                  "command values are assembled as %s (+%d append); specification: name, transaction id, command object, then arguments" % (order, len(appends)), eb.span)
        dr = [t[1] for p in grammar.ok_paths(grammar.reads(env, db.key, all_local_calls=True)) for t in p if t[0] == "returns" and t[1].startswith("Ok(")]
        ok = bool(dr) and all(re.match(r"^Ok\(RtmpMessage::Amf0Command\(.*as Utf8String\.0, .*as Number\.0, .*\)\)$", r) for r in dr)
        rep.check("C13.R2", "body:Amf0Command:dec", ok, "decoder takes name (string), transaction id (number), command object, rest as arguments",
                  "amf0_command::deserialize builds %s" % dr, db.span)

    # ------------------------------------------------------------------ R3 chunk-size bound
    mx = spec["bodies"]["SetChunkSize"]["max"]
    eb, ep = enc_paths("set_chunk_size")
    db, dp = dec_paths("set_chunk_size")
    if eb and db:
        his = [t[4] for p in ep for t in p if t[0] == "u32be" and t[1] == "hole"]
        rep.check("C13.R3", "set_chunk_size:serialize", bool(his) and max(his) <= mx, "size written is at most %s" % mx,
                  "set_chunk_size::serialize can write a size up to %s (limit %s): a value with the top bit set is not a legal chunk size" % (his and max(his), mx), eb.span)
        dh = [d[2] for p in dp for t in p if t[0] == "returns" and t[1].startswith("Ok(") for d in t[2][:1]]
        rep.check("C13.R3", "set_chunk_size:deserialize", bool(dh) and max(dh) <= mx, "size accepted is at most %s" % mx,
                  "set_chunk_size::deserialize accepts a size up to %s (limit %s)" % (dh and max(dh), mx), db.span)

    # ------------------------------------------------------------------ R4 the AMF0 codec under the command / data bodies
    from ..framework import PrefixReport, wants
    if wants(rep, "C13.R4"):
        from . import C12, C04
        C12.run(env, PrefixReport(rep, "C12.", "C13.R4.", only=("C12.R1", "C12.R2", "C12.R4")))
        C04.run(env, PrefixReport(rep, "C04.", "C13.R4.", only=("C04.R3", "C04.R4")))
