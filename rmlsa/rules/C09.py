"""C09 - server session state machine (DESIGN.md section 5, C09): guard, effect and data flow of each transition."""
import re
from .common import *
from .. import grammar
from . import facts
from ..grammar import fmt_tok
from .chunk import sig

TY = "sessions::server::ServerSession"
SELF = r"load\(\*?load\(self\)\.%s\)"
EVENT_RE = re.compile(r"ServerSessionEvent::(\w+)\(")


def variant_index(prog, adt_pretty, name):
    for k, a in prog.adts.items():
        if a["pretty"] == adt_pretty:
            for i, v in enumerate(a["variants"]):
                if v["name"] == name:
                    return int(v["discr"])
    return None


class Facts:
    """what a path of a handler established before it built its result"""

    def __init__(self, prog, path):
        self.connected_state = False
        self.app_some = False
        self.lookups = {}        # key expression -> accessor (get / get_mut / remove) found Some
        self.stream_state = {}   # key expression -> discriminant
        conn = variant_index(prog, "sessions::server::session_state::SessionState", "Connected")
        self.not_connected = False     # the path is taken only when the session is not (fully) connected
        for t in path:
            if t[0] == "probe" and isinstance(t[1], tuple) and t[1] and t[1][0] == "facts" and t[1][2] is not None:
                states, app = t[1][2]
                if states == (conn,):
                    self.connected_state = True
                if app == "some":
                    self.app_some = True
                if conn not in states or app == "none":
                    self.not_connected = True
            if t[0] != "when":
                continue
            d, v = t[1], t[2]
            m = re.match(r"^\(discr\(" + SELF % "current_state" + r"\) (Ne|Eq) (\d+)\)$", d)
            if m and int(m.group(2)) == conn:
                truth = v.startswith("other")
                if (m.group(1) == "Eq" and truth) or (m.group(1) == "Ne" and not truth):
                    self.connected_state = True
            m = re.match(r"^discr\(" + SELF % "current_state" + r"\)$", d)
            if m and v == str(conn):
                self.connected_state = True
            if re.match(r"^discr\(" + SELF % "connected_app_name" + r"\)$", d) and v == "1":
                self.app_some = True
            if re.match(r"^\(discr\(" + SELF % "connected_app_name" + r"\) Eq 0\)$", d) and v == "0":
                self.app_some = True
            m = re.match(r"^discr\(HashMap::(get|get_mut|remove)\(" + SELF % "active_streams" + r",(.*)\)\)$", d)
            if m and v == "1":
                self.lookups[m.group(2)] = m.group(1)
            m = re.match(r"^discr\((?:load\(\*?)?HashMap::(get|get_mut|remove)\(" + SELF % "active_streams" + r",(.*)\) as Some\.0\.current_state\)?\)$", d)
            if m and v.isdigit():
                self.stream_state[m.group(2)] = int(v)

    def connected(self):
        return self.connected_state or self.app_some


def handler_paths(env, b):
    def probe(it, S):
        # the state of every stream reached through active_streams whose state was written on this path
        out = []
        for (root, proj), v in S.mem.items():
            if proj and proj[-1][0] == "f" and proj[-1][2] == "current_state" and root[0] == "P" and \
                    contains(root[1], lambda x: isinstance(x, tuple) and x[0] == "model" and str(x[1]).startswith("HashMap::get") and
                             contains(x[2], lambda y: isinstance(y, tuple) and y[0] == "ld" and y[1][1] and y[1][1][-1][0] == "f" and y[1][1][-1][2] == "active_streams")):
                val = S.read((root, proj))
                while isinstance(val, tuple) and val[0] == "upd":
                    val = val[1]
                if isinstance(val, tuple) and val[0] == "agg" and val[2] is not None:
                    out.append(val[2])
                else:
                    d = S.dom(("discr", val))
                    out.append(tuple(x for x in range(max(d.lo, 0), min(d.hi, 16) + 1) if x not in d.excl) if d.lo > -1000 else None)
        # and what the path knows about the values current_state / connected_app_name had on entry (however the guard was written)
        conn = None
        if b.arg_count >= 1:
            st0 = facts.entry_field(it, env.prog, TY, ["current_state"])
            app0 = facts.entry_field(it, env.prog, TY, ["connected_app_name"])
            if st0 is not None and app0 is not None:
                n_states = len(next(a for a in env.prog.adts.values() if a["pretty"] == "sessions::server::session_state::SessionState")["variants"])
                conn = (tuple(sorted(facts.discr_values(S, st0, range(n_states)))), "some" if facts.is_some(S, app0) else "none" if facts.is_none(S, app0) else None)
        return ("facts", tuple(out), conn)
    return [sig(p) for p in grammar.trace(env, b.key, "r", probe=probe).paths]


def events_on(path):
    rets = [t for t in path if t[0] == "returns"]
    if not rets:
        return []
    return EVENT_RE.findall(rets[-1][1]), rets[-1][1]


def run(env, rep):
    prog, ctx = env.prog, env.ctx
    rep.explanation = (
        "Each transition of the server session is checked on every path of its handler (path-sensitive replay of the MIR): R1 an "
        "event is constructed only on paths that established its guard (publish/play requests: connected evidence; audio / video / "
        "metadata: connected evidence, active_streams.get(<message stream id>) is Some and that stream is Publishing; finished "
        "events: the looked-up stream is Publishing / Playing); R2 current_state := Connected and connected_app_name := Some are "
        "stored only together, only when a connection request is accepted, and never reset; R3 stream_key / app_name of events are "
        "the matched stream's key and the connected app name, the lookup key is the handler's message-stream-id parameter; R4 "
        "publish / play while not connected answer with an error packet and raise no event; R5 request and stream ids are the "
        "counter's value, the counter is stored +1 on the same path and nowhere else, accept / reject consume the request with "
        "remove() and an unknown id has no effect; R6 closeStream leaves the stream in a non-publishing, non-playing state, "
        "deleteStream removes it, one event per path; outstanding_requests changes only by insert(fresh id) and by accept / reject removing the decided id; R8 a path of a public application call that refuses (returns a ServerSessionError built there) has no effect on the session or on any stream's state; R7 a ping request is answered with its own timestamp.  Not decided: the "
        "reachable-state claim over all histories as a whole.")
    pub_d = variant_index(prog, "sessions::server::active_stream::StreamState", "Publishing")
    play_d = variant_index(prog, "sessions::server::active_stream::StreamState", "Playing")
    if pub_d is None or play_d is None:
        rep.anchor_missing("C09.R1", "enum StreamState {Publishing, Playing}")
        return
    stream_adt = [a for a in prog.adts.values() if a["pretty"] == "sessions::server::active_stream::StreamState"][0]
    bodies = {b.pretty.split("::")[-1]: b for b in prog.bodies.values() if b.kind == "assoc" and b.impl and b.impl.get("trait") is None and b.impl["self_ty"] == TY}
    if not bodies:
        rep.anchor_missing("C09.R1", "impl " + TY)
        return
    traces = {}
    for name, b in sorted(bodies.items()):
        if name in ("handle_input", "new"):
            continue
        rep.fn(b.key)
        traces[name] = handler_paths(env, b)
    # ------------------------------------------------------------------ R1 / R3 event guards and tags
    counts = {}
    for name, paths in traces.items():
        b = bodies[name]
        for p in paths:
            evs, text = events_on(p) if events_on(p) else ([], "")
            if not evs:
                continue
            f = Facts(prog, p)
            for ev in evs:
                counts[ev] = counts.get(ev, 0) + 1
                key = "%s|%s" % (name, ev)
                m = re.search(r"ServerSessionEvent::%s\((.*)\)" % ev, text)
                body_txt = m.group(1) if m else ""
                if ev in ("PublishStreamRequested", "PlayStreamRequested"):
                    rep.check("C09.R1", key, f.connected(), "raised only when connected",
                              "%s can raise %s on a path that did not establish that the session is connected (neither current_state == Connected nor connected_app_name is Some)" % (b.pretty, ev), b.span)
                    rep.check("C09.R3", key + "|app_name", re.search(SELF % "connected_app_name as Some\\.0", body_txt) is not None, "app_name is the connected application",
                              "%s tags %s with an app name that is not the connected application: %s" % (b.pretty, ev, body_txt[:120]), b.span)
                elif ev in ("AudioDataReceived", "VideoDataReceived", "StreamMetadataChanged"):
                    keys = [k for k, d in f.stream_state.items() if d == pub_d and k in f.lookups]
                    keyed_by_param = [k for k in keys if re.match(r"^load\(stream_id\)$", k)]
                    rep.check("C09.R1", key, f.connected() and bool(keyed_by_param),
                              "raised only when connected and the message's stream is Publishing",
                              "%s can raise %s without having established %s" % (b.pretty, ev, "; ".join(
                                  x for x, ok in (("that the session is connected", f.connected()),
                                                  ("that active_streams.get(message stream id) is Some and that stream is Publishing (stream states tested: %s)" % (
                                                      {k: v for k, v in f.stream_state.items()} or "none"), bool(keyed_by_param))) if not ok)), b.span)
                    if keyed_by_param:
                        k = keyed_by_param[0]
                        rep.check("C09.R3", key + "|stream_key", ("active_streams)," + k + ") as Some.0.current_state as Publishing.stream_key") in body_txt.replace("*", ""),
                                  "stream_key is the publishing stream's key", "%s tags %s with %s instead of the key of the stream looked up under the message stream id" % (b.pretty, ev, body_txt[:160]), b.span)
                        rep.check("C09.R3", key + "|app_name", re.search(SELF % "connected_app_name as Some\\.0", body_txt) is not None, "app_name is the connected application",
                                  "%s tags %s with an app name that is not the connected application" % (b.pretty, ev), b.span)
                elif ev in ("PublishStreamFinished", "PlayStreamFinished"):
                    want = pub_d if ev.startswith("Publish") else play_d
                    keys = [k for k, d in f.stream_state.items() if d == want and k in f.lookups]
                    rep.check("C09.R1", key, bool(keys), "raised only for a stream that is %s" % ("Publishing" if want == pub_d else "Playing"),
                              "%s can raise %s for a stream that was not found to be %s" % (b.pretty, ev, "Publishing" if want == pub_d else "Playing"), b.span)
                    if keys:
                        vn = "Publishing" if want == pub_d else "Playing"
                        rep.check("C09.R3", key + "|stream_key", ("as Some.0.current_state as %s.stream_key" % vn) in body_txt and keys[0] in body_txt, "stream_key is that stream's key",
                                  "%s tags %s with %s" % (b.pretty, ev, body_txt[:160]), b.span)
                    rep.check("C09.R6", key + "|one-event", len(evs) == 1, "exactly one event on this path", "%s raises %d events on one path" % (b.pretty, len(evs)), b.span)
    for ev, floor in (("PublishStreamRequested", 1), ("PlayStreamRequested", 1), ("AudioDataReceived", 1), ("VideoDataReceived", 1),
                      ("StreamMetadataChanged", 1), ("PublishStreamFinished", 2), ("PlayStreamFinished", 2), ("ConnectionRequested", 1)):
        rep.floor("C09.R1." + ev, "paths constructing ServerSessionEvent::" + ev, counts.get(ev, 0), floor)
    # ------------------------------------------------------------------ R2 co-assignment
    st_writes, app_writes = [], []
    for name, paths in traces.items():
        for p in paths:
            s1 = [t for t in p if t[0] == "store" and t[1] == "current_state"]
            s2 = [t for t in p if t[0] == "store" and t[1] == "connected_app_name"]
            if s1 or s2:
                st_writes.append((name, [t[2] for t in s1], [t[2][:40] for t in s2]))
    ok2 = bool(st_writes) and all(n == "accept_connection_request" and a == ["SessionState::Connected"] and len(b_) == 1 and b_[0].startswith("Some(") for n, a, b_ in st_writes)
    rep.check("C09.R2", "co-assignment", ok2, "Connected and connected_app_name := Some(_) are stored together, only in accept_connection_request",
              "current_state / connected_app_name are written as %s; they must change only together, on accepting a connection request, and never be reset" % st_writes[:3], bodies.get("accept_connection_request", list(bodies.values())[0]).span)
    # ------------------------------------------------------------------ R4 refusals
    for name in ("handle_command_publish", "handle_command_play"):
        paths = traces.get(name, [])
        n_ref = 0
        bad = []
        for p in paths:
            f = Facts(prog, p)
            rets = [t for t in p if t[0] == "returns"]
            if not rets or not rets[-1][1].startswith("Ok("):
                continue
            not_connected = any(t[0] == "when" and re.match(r"^\(discr\(" + SELF % "current_state" + r"\) (Ne|Eq) \d+\)$", t[1]) and not f.connected_state for t in p) and not f.app_some
            # paths that took the 'not connected' branch
            took_nc = False
            for t in p:
                if t[0] == "when":
                    m = re.match(r"^\(discr\(" + SELF % "current_state" + r"\) (Ne|Eq) (\d+)\)$", t[1])
                    if m:
                        truth = t[2].startswith("other")
                        if (m.group(1) == "Ne" and truth) or (m.group(1) == "Eq" and not truth):
                            took_nc = True
                    if re.match(r"^discr\(" + SELF % "connected_app_name" + r"\)$", t[1]) and t[2] == "0":
                        took_nc = True
            if took_nc or f.not_connected:
                n_ref += 1
                text = rets[-1][1]
                err_cmd = any(t[0] == "call" and ((t[1].endswith("into_message_payload") and t[2] and "Amf0Command(to_string('_error')" in t[2][0]) or t[1].endswith("create_error_packet")) for t in p)
                if "ServerSessionEvent::" in text or not err_cmd or "OutboundResponse(" not in text:
                    bad.append(text[:100])
        rep.check("C09.R4", "%s|refusal" % name, n_ref >= 1 and not bad, "while not connected the request is answered with an error packet and raises nothing (%d path(s))" % n_ref,
                  "%s while not connected returns %s" % (name, bad[:2] or "no refusing path found"), bodies[name].span if name in bodies else None)
    # ------------------------------------------------------------------ R5 ids
    for name, counter, mapf, evs in (("handle_command_connect", "next_request_number", "outstanding_requests", ["ConnectionRequested"]),
                                     ("handle_command_publish", "next_request_number", "outstanding_requests", ["PublishStreamRequested"]),
                                     ("handle_command_play", "next_request_number", "outstanding_requests", ["PlayStreamRequested"]),
                                     ("handle_command_create_stream", "next_stream_id", "active_streams", [])):
        paths = traces.get(name, [])
        n = 0
        bad = []
        cval = SELF % counter
        for p in paths:
            ins = [t for t in p if t[0] == "mut" and t[1] == "insert" and t[2] == mapf]
            if not ins:
                continue
            n += 1
            k = ins[0][3][0]
            if not re.match("^" + cval + "$", k):
                bad.append("the map key is %s, not the counter" % k[:60])
            st = [t for t in p if t[0] == "store" and t[1] == counter]
            if len(st) != 1 or not re.match(r"^\(" + cval + r" Add 1\)$", st[0][2]):
                bad.append("the counter is stored as %s (expected old value + 1 exactly once)" % [t[2][:60] for t in st])
            rets = [t for t in p if t[0] == "returns"]
            text = rets[-1][1] if rets else ""
            for ev in evs:
                m = re.search(r"ServerSessionEvent::%s\((.*)\)" % ev, text)
                if not m or not re.search(cval, m.group(1)):
                    bad.append("the event does not carry the counter's value as request_id")
            if name == "handle_command_create_stream":
                cr = [t for t in p if t[0] == "call" and t[1].endswith("create_success_response")]
                if not cr or "load(transaction_id)" not in cr[0][2][1] or not re.search(r"Number\(\(" + cval + r" as~? ?f64\)\)", cr[0][2][3]):
                    bad.append("the _result does not return the new stream id under the caller's transaction id: %s" % (cr[0][2][1:4] if cr else "no response",))
        rep.check("C09.R5", "%s|fresh-id" % name, n >= 1 and not bad, "ids come from the counter, which is incremented on the same path (%d path(s))" % n,
                  "%s: %s" % (name, "; ".join(sorted(set(bad))) or "no inserting path"), bodies[name].span if name in bodies else None)
    # nothing else writes the counters
    # every store to a counter, anywhere in the crate, stores its old value + 1 (ids stay fresh whoever increments)
    adt_key = [k for k, a in prog.adts.items() if a["pretty"] == TY]
    from ..loader import Place
    from ..interp import stable
    from .. import interp as I
    for counter in ("next_request_number", "next_stream_id"):
        stores, bad_st = 0, []
        for b in prog.bodies.values():
            if b.kind == "promoted" or is_derived(b):
                continue
            it = None
            for bi, blk in enumerate(b.blocks):
                if blk["cleanup"]:
                    continue
                for si, st in enumerate(blk["stmts"]):
                    pp = st["place"]["p"]
                    if not (pp and isinstance(pp[-1], dict) and pp[-1].get("n") == counter and adt_key and pp[-1].get("a") == adt_key[0]):
                        continue
                    it = it or ctx.interp(b.key)
                    S = it.entry_states.get(bi)
                    if S is None:
                        continue
                    S = S.copy()
                    I.CUR_BODY[0] = b
                    for j, s2 in enumerate(blk["stmts"][:si]):
                        it.cur = (bi, j)
                        it.transfer_stmt(S, s2)
                    it.cur = (bi, si)
                    loc = it.resolve(S, Place(st["place"]))
                    old = S.read(loc)
                    v = it.eval_rvalue(S, st["rv"], Place(st["place"]))
                    base, off = S.norm(v)
                    stores += 1
                    if not (base == S.norm(old)[0] and off - S.norm(old)[1] == 1):
                        bad_st.append("%s stores %s" % (b.pretty, stable(v)))
        rep.check("C09.R5", "%s|stores" % counter, stores >= 1 and not bad_st, "every store to %s writes its previous value + 1 (%d store(s))" % (counter, stores),
                  "%s: %s (ids handed out must never repeat: every store must be old value + 1)" % (counter, "; ".join(bad_st) or "no store found"))
    for name in ("accept_request", "reject_request"):
        paths = traces.get(name, [])
        okc, n = True, 0
        why = []
        for p in paths:
            rets = [t for t in p if t[0] == "returns"]
            text = rets[-1][1] if rets else ""
            rm = [t for t in p if t[0] == "mut" and t[2] == "outstanding_requests"]
            if "InvalidRequestId" in text:
                others = [t for t in p if t[0] in ("mut", "store") and not (t[0] == "mut" and t[2] == "outstanding_requests" and t[1] == "remove")]
                if others:
                    okc = False
                    why.append("the InvalidRequestId path changes %s" % [t[1] for t in others])
                continue
            n += 1
            if not any(t[1] == "remove" and re.match(r"^&?load\(request_id\)$", t[3][0]) for t in rm):
                okc = False
                why.append("a request is acted on without being removed from outstanding_requests (it could be accepted or rejected again)")
        rep.check("C09.R5", "%s|consumes-request" % name, okc and n >= 1, "the request is taken out of outstanding_requests before it is acted on (%d path(s))" % n,
                  "%s: %s" % (name, "; ".join(sorted(set(why))) or "no acting path"), bodies[name].span if name in bodies else None)
    # a request that was surfaced stays available until the application decides it: the only changes to outstanding_requests are
    # the insertion of a fresh id by a request handler and the removal of the decided id by accept / reject
    READS = {"get", "get_mut", "contains_key", "len", "is_empty", "iter", "keys", "values", "entry"}
    n_touch, bad_touch = 0, []
    for name, paths in traces.items():
        for p in paths:
            for t in p:
                if t[0] == "store" and t[1] == "outstanding_requests":
                    bad_touch.append("%s replaces the whole map" % name)
                if t[0] != "mut" or t[2] != "outstanding_requests":
                    continue
                op = t[1].split("::")[-1]
                n_touch += 1
                if op in READS:
                    continue
                if op == "insert" and re.match("^" + SELF % "next_request_number" + "$", t[3][0]):
                    continue
                if op == "remove" and name in ("accept_request", "reject_request") and re.match(r"^&?load\(request_id\)$", t[3][0]):
                    continue
                # the same removal inside a private helper that only accept / reject call, keyed by the helper's own parameter
                hb = bodies.get(name)
                if op == "remove" and hb is not None and not hb.is_pub and re.match(r"^&?load\(\w+\)$", t[3][0]):
                    callers = {prog.bodies[c].pretty.split("::")[-1] for c in prog.callers.get(hb.key, ()) if c in prog.bodies}
                    if callers and callers <= {"accept_request", "reject_request"}:
                        continue
                bad_touch.append("%s calls %s(%s) on outstanding_requests" % (name, op, ", ".join(x[:50] for x in t[3][:1])))
    rep.check("C09.R5", "outstanding-requests|only-insert-fresh-and-remove-decided", n_touch >= 5 and not bad_touch,
              "outstanding_requests changes only by inserting a fresh id and by accept / reject removing the id they decide (%d call sites on the replayed paths)" % n_touch,
              "%s: a request the application was told about could no longer be accepted or rejected (or a forged one appears); the map may change only by insert(fresh id) in a "
              "request handler and remove(request_id) in accept_request / reject_request" % "; ".join(sorted(set(bad_touch))[:3]), bodies["accept_request"].span if "accept_request" in bodies else None)
    # ------------------------------------------------------------------ R8 a refused application call leaves the session as it was
    n8 = 0
    for name, paths in sorted(traces.items()):
        b = bodies[name]
        if not b.is_pub or b.arg_count < 1:
            continue
        for p in paths:
            rets = [t for t in p if t[0] == "returns"]
            text = rets[-1][1] if rets else ""
            if not text.startswith("Err(ServerSessionError::"):
                continue
            n8 += 1
            eff = ["%s := %s" % (t[1], t[2][:40]) for t in p if t[0] == "store" and not t[1].startswith("via:*call(")]
            eff += ["%s.%s" % (t[2], t[1]) for t in p if t[0] == "mut" and t[1].split("::")[-1] not in READS and not t[2].startswith("local:") and
                    not (t[2] == "outstanding_requests" and t[1] == "remove" and "InvalidRequestId" in text)]
            pr = [t for t in p if t[0] == "probe"]
            written = pr[-1][1][1] if pr and isinstance(pr[-1][1], tuple) and len(pr[-1][1]) > 1 else ()
            if written:
                eff.append("the state of a stream in active_streams is overwritten")
            vname = text[len("Err(ServerSessionError::"):].split("(")[0].split(")")[0]
            rep.check("C09.R8", "%s|refusal:%s|effect-free" % (name, vname), not eff, "%s: the path that refuses with %s changes nothing" % (name, vname),
                      "%s refuses with %s but has already changed the session: %s (a refused call must not have side effects: a publishing stream would stop raising media and finished events)" % (
                          b.pretty, vname, "; ".join(sorted(set(eff))[:3])), b.span)
    rep.floor("C09.R8", "refusing paths of public application calls", n8, 2)
    # ------------------------------------------------------------------ R6 close / delete
    paths = traces.get("handle_command_close_stream", [])
    n6, bad6 = 0, []
    for p in paths:
        evs = events_on(p)
        if not evs or not evs[0]:
            continue
        n6 += 1
        pr = [t for t in p if t[0] == "probe"]
        finals = pr[-1][1][1] if pr else ()
        pub_vi = [v["vi"] for v in stream_adt["variants"] if v["name"] in ("Publishing", "Playing")]

        def idle(x):
            if isinstance(x, int):
                return x not in pub_vi
            return isinstance(x, tuple) and x and all(y not in pub_vi for y in x)
        if not finals or not all(idle(x) for x in finals):
            st = [t for t in p if t[0] == "store" and t[1].startswith("via:") and t[1].endswith(".current_state")]
            bad6.append("after raising %s the stream's state is %s" % (evs[0], [t[2] for t in st] or ("left unchanged" if not finals else "still possibly publishing / playing")))
    rep.check("C09.R6", "close-resets-state", n6 >= 2 and not bad6, "closeStream leaves the stream neither publishing nor playing (%d event paths)" % n6,
              "; ".join(bad6) or "fewer than two event paths in handle_command_close_stream", bodies["handle_command_close_stream"].span if "handle_command_close_stream" in bodies else None)
    paths = traces.get("handle_command_delete_stream", [])
    n6, bad6 = 0, []
    for p in paths:
        evs = events_on(p)
        if not evs or not evs[0]:
            continue
        n6 += 1
        if not any(t[0] == "mut" and t[1] == "remove" and t[2] == "active_streams" for t in p):
            bad6.append("%s is raised although the stream stays in active_streams" % evs[0])
    rep.check("C09.R6", "delete-removes-stream", n6 >= 2 and not bad6, "deleteStream removes the stream it reports as finished (%d event paths)" % n6,
              "; ".join(sorted(set(bad6))) or "fewer than two event paths in handle_command_delete_stream", bodies["handle_command_delete_stream"].span if "handle_command_delete_stream" in bodies else None)
    # closeStream / deleteStream act on the stream the command *names* (its first argument), whatever message stream carried the command
    for hname in ("handle_command_close_stream", "handle_command_delete_stream"):
        keys_used = set()
        for p in traces.get(hname, []):
            for t in p:
                if t[0] == "mut" and t[2] == "active_streams" and t[1].split("::")[-1] in ("get", "get_mut", "remove", "entry") and t[3]:
                    keys_used.add(str(t[3][0]))
        okk = bool(keys_used) and all(re.match(r"^&?\(?elem\[0\](?: of \w+)?(?: as Number\.0)?( as u32|\)|$)", k) for k in keys_used)
        rep.check("C09.R6", "%s|acts-on-the-named-stream" % hname, okk, "the stream looked up is the command's first argument (%s)" % sorted(keys_used)[:1],
                  "%s looks the stream up under %s: the stream that is closed / deleted must be the one the command names (its first argument), not the message stream the command arrived on" % (
                      hname, sorted(k[:80] for k in keys_used) or "nothing"), bodies[hname].span if hname in bodies else None)
    # ------------------------------------------------------------------ R7 ping echo
    paths = traces.get("handle_user_control", [])
    okp = False
    for p in paths:
        for t in p:
            if t[0] == "call" and t[1].endswith("into_message_payload") and "UserControlEventType::PingResponse" in t[2][0]:
                okp = re.search(r"UserControlEventType::PingResponse, None, None, load\(timestamp\)\)", t[2][0]) is not None
    rep.check("C09.R7", "ping-echo", okp, "the PingResponse carries the PingRequest's timestamp", "the ping response is not built with the request's own timestamp",
              bodies["handle_user_control"].span if "handle_user_control" in bodies else None)
