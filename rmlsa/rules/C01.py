"""C01 - chunk codec round trip (DESIGN.md section 5, C01): the four structural necessary conditions."""
import re
from .common import *
from . import chunk
from .. import grammar
from ..grammar import fmt_tok


def writer_kinds(m, vi):
    wf, ext = m.writer_fields(vi)
    if wf is None:
        return None, ext
    return [(h, t[0]) for h, t in wf], ext


from ..framework import wants


def run(env, rep):
    rep.explanation = (
        "R1: for each of the four header formats the writer's emitted field list (width, byte order, order, presence; helper "
        "functions analysed under the assumption format = F) equals the reader's typed reads along its stage cycle under the same "
        "assumption; R2: the set of 24-bit field values for which the extended timestamp is written equals the set for which it "
        "is read (computed from the guarding comparisons, insensitive to < vs <=); R3: continuation chunks inherit the first "
        "chunk's timestamp field, the header remembered per chunk stream is the header that was emitted, and the reader stores "
        "the timestamp field only from the 24-bit value it read; R4: every path of serialize to Ok(Packet) emits at least one "
        "chunk; R5: a format-0 header carries the absolute timestamp and the other formats the difference to the previous header of the chunk stream, on both sides; R6: a stage of the reader that returns 'not enough bytes' has no observable effect (C15 R1), so the result does not depend on how the bytes are split.  R7: a changed chunk size is announced under the old size before it is used, and no empty chunk follows a complete payload (C07 R5-R6); R8: partial messages are kept per chunk stream between chunks (C16 R1-R2); R9: the reader holds nothing back - get_next_message gives up only on a stage's report of a shortage and a stage waits only for its own bytes (C15 R5, C06 R7), so a zero-length message at the end of the input is delivered.  Not decided: the round trip over all histories, exact payload slicing.")
    rep.assumptions = ["byteorder's write/read_uN::<E> encode the named width and byte order"]
    m = chunk.ChunkModel(env, rep, "C01.anchors")
    if not m.ok:
        return
    # ------------------------------------------------------------------ R1
    n = 0
    for vi, vn in enumerate(m.variants):
        wk, wext = writer_kinds(m, vi)
        rf, rext, rpay = m.reader_fields(vi)
        if wk is None or m.emitters is None:
            rep.cannot_analyse("C01.R1", "format:%s" % vn, "the writer's helpers do not have one unconditional shape for format %s" % vn)
            continue
        w = [k for h, k in wk][1:]            # without the basic header byte
        w_payload = w and w[-1] == "bytes"
        w_hdr = [k for k in w if k != "bytes"]
        r_hdr = [k for name, ks, fl in rf for k in ks]
        n += 1
        rep.check("C01.R1", "layout:%s" % vn, w_hdr == r_hdr and w_payload and rpay is not None,
                  "format %s: writer emits %s, reader reads %s, then extended timestamp (conditional) and payload on both sides" % (vn, w_hdr, r_hdr),
                  "format %s: writer emits message header %s%s but the reader reads %s%s" % (vn, w_hdr, "" if w_payload else " (no payload)", r_hdr, "" if rpay else " (no payload stage)"),
                  m.b["add_chunk"].span, detail={"writer": [fmt_tok(t) for h, t in (m.writer_fields(vi)[0] or [])], "reader": rf})
        # position of the extended timestamp: after the message header, before the payload, on both sides
        if wext is not None and rext is not None:
            w_names = [h for h, a in m.w_layout[vi]]
            r_names = [nme for nme, sh in m.r_layout[vi]]
            w_pos_ok = w_names.index(wext[0]) == len(w_names) - 2
            r_pos_ok = r_names.index(rext[0]) == len(r_names) - 2
            wkind = sorted({t[0] for a in wext[1] for t in a[0]})
            rkind = sorted({k for sh in rext[1] for k in m._kinds(sh[0])})
            rep.check("C01.R1", "ext-position:%s" % vn, w_pos_ok and r_pos_ok and wkind == rkind == ["u32be"],
                      "format %s: extended timestamp is a u32be between message header and payload on both sides" % vn,
                      "format %s: extended timestamp is %s at helper %s of %s on the writer and %s at stage %s of %s on the reader" % (
                          vn, wkind, wext[0], w_names, rkind, rext[0], r_names), m.b["add_chunk"].span)
        else:
            rep.bad("C01.R1", "ext-position:%s" % vn, "format %s: no conditional extended-timestamp step found on the %s side" % (vn, "writer" if wext is None else "reader"))
    rep.floor("C01.R1", "header formats compared", n, 4)
    # ------------------------------------------------------------------ R2
    for vi, vn in enumerate(m.variants):
        wf, wext = m.writer_fields(vi)
        rf, rext, rpay = m.reader_fields(vi)
        if wext is None or rext is None:
            continue
        wsets = set()
        for toks, cond in wext[1]:
            if toks:
                wsets.add(chunk.interval_from_decisions(cond, "timestamp_field"))
        rsets = set()
        for sh in rext[1]:
            if m._kinds(sh[0]):
                rsets.add(chunk.interval_from_decisions(sh[1], "timestamp_field"))
        rep.check("C01.R2", "ext-predicate:%s" % vn, len(wsets) == 1 and wsets == rsets,
                  "format %s: extended timestamp present iff the 24-bit field is in %s on both sides" % (vn, sorted(wsets)),
                  "format %s: the writer adds the extended timestamp when the field is in %s, the reader expects it when the field is in %s" % (vn, sorted(wsets), sorted(rsets)),
                  m.b["add_chunk"].span)
        # both sides must look at the header's 24-bit field, not at another quantity: a variable decides the presence
        # of the field if the paths that read it do not cover the variable's whole range
        cand = {re.match(r"^\((.*) (Lt|Le|Gt|Ge|Eq|Ne) \d+\)$", t[1]).group(1) for sh in rext[1] for t in sh[1] if re.match(r"^\((.*) (Lt|Le|Gt|Ge|Eq|Ne) \d+\)$", t[1])}
        rvars = set()
        for v in cand:
            ivs = [chunk.interval_from_decisions([t for t in sh[1] if v in t[1]], v[-40:]) for sh in rext[1] if m._kinds(sh[0])]
            lo = min(i[0] for i in ivs) if ivs else 0
            hi = max(i[1] for i in ivs) if ivs else 4294967295
            covered = sorted(ivs)
            full = lo == 0 and hi == 4294967295 and all(covered[i][1] + 1 >= covered[i + 1][0] for i in range(len(covered) - 1))
            if not full:
                rvars.add(v)
        rep.check("C01.R2", "ext-scrutinee:%s" % vn, all(v.endswith("current_header.timestamp_field)") for v in rvars) and bool(rvars),
                  "format %s: the reader's test is on current_header.timestamp_field" % vn,
                  "format %s: the reader decides on %s whether an extended timestamp follows; the writer decides on the 24-bit timestamp field" % (vn, sorted(rvars)), m.b["get_next"].span)
    # ------------------------------------------------------------------ R3
    # writer: on continuation chunks the header's timestamp_field is the previous header's; the stored header is the emitted one
    cont_ok, cont_n = True, 0
    stored_ok, stored_n = True, 0
    why = []
    for p in m.add_chunk_paths:
        calls = {t[1].split("::")[-1]: t for t in p if t[0] == "call"}
        ext_call = calls.get("add_extended_timestamp")
        its = calls.get("add_initial_timestamp")
        ins = [t for t in p if t[0] == "mut" and t[1] == "insert" and t[2] == "previous_headers"]
        if ext_call is None:
            continue
        hdr = ext_call[2][0] if ext_call[2] else ""
        if ins:
            stored_n += 1
            if len(ins) != 1 or ("&" + ins[0][3][1]) != hdr:
                stored_ok = False
                why.append("the header inserted into previous_headers (%s) is not the header whose fields were emitted (%s)" % (ins[0][3][1][:120], hdr[:120]))
        elif chunk.param_on_path(p, "continued_chunk") is not True and p and p[-1] == ("end", "ok"):
            stored_ok = False
            why.append("a path that writes the first chunk of a message does not remember its header: the next message on the chunk stream would be compressed against a header the peer has replaced")
        has_prev = any(t[0] == "when" and t[1].startswith("discr(HashMap::get(") and "previous_headers" in t[1] and t[2] == "1" for t in p)
        if chunk.param_on_path(p, "continued_chunk") is True and chunk.param_on_path(p, "force_uncompressed") is False and has_prev:
            cont_n += 1
            fields = hdr.split(", ")
            if len(fields) < 3 or not re.search(r"Some\.0\.timestamp_field\)$", fields[2]):
                cont_ok = False
                why.append("on a continuation chunk the header's timestamp_field is %s, not the previous header's field" % (fields[2] if len(fields) > 2 else hdr)[:160])
    rep.floor("C01.R3.w", "add_chunk paths with an emitted and stored header", stored_n, 4)
    rep.check("C01.R3", "writer:continuation-inherits-field", cont_ok and cont_n >= 1, "continuation chunks reuse the previous header's timestamp field (%d path(s))" % cont_n,
              "; ".join(why) or "no continuation-chunk path found", m.b["add_chunk"].span)
    rep.check("C01.R3", "writer:stored-header-is-emitted-header", stored_ok, "the header remembered per chunk stream is the one that was written (%d paths)" % stored_n,
              "; ".join(why), m.b["add_chunk"].span)
    # reader: timestamp_field is stored only from the u24 just read
    bad = []
    nstores = 0
    for (vi, s), paths in m.r_paths.items():
        for sp in paths:
            reads_ = [t[1] for t in sp if t[0] == "read"]
            for t in sp:
                if t[0] == "store" and t[1] == "current_header.timestamp_field":
                    nstores += 1
                    if not (t[2] == "#1" and reads_[:1] == ["u24be"]):
                        bad.append("%s stores %s" % (env.prog.bodies[m.stage_fn[s]].pretty.split("::")[-1], t[2]))
    rep.check("C01.R3", "reader:timestamp-field-from-read", not bad and nstores >= 3, "the reader stores timestamp_field only from the 24-bit value it just read (%d stores)" % nstores,
              "the reader's timestamp_field (which governs the extended timestamp of later chunks) is also written from something else: %s" % sorted(set(bad)), m.b["get_next"].span)
    chunk.timestamp_semantics(m, rep, "C01.R5")
    from . import C15
    C15.suspend_paths(env, rep, "C01.R6", m)
    # ------------------------------------------------------------------ R4
    se = m.b["serialize"]
    tr = grammar.trace(env, se.key, "w")
    n_ok = 0
    empty = []
    for p in grammar.ok_paths(tr):
        rets = [t for t in p if t[0] == "returns"]
        if not rets or not rets[-1][1].startswith("Ok("):
            continue
        n_ok += 1
        if not any(t[0] == "call" and t[1].endswith("add_chunk") for t in p):
            empty.append(" ".join(fmt_tok(t) for t in chunk.sig(p) if t[0] == "when")[:300])
    rep.floor("C01.R4", "Ok paths of ChunkSerializer::serialize", n_ok, 1)
    rep.check("C01.R4", "non-empty-packet", not empty, "every Ok path of serialize emits at least one chunk (%d paths)" % n_ok,
              "serialize can return Ok(Packet) without emitting any chunk (the message would be lost silently) on the path: %s" % (empty[:1]), se.span)
    # ------------------------------------------------------------------ R7 / R8 shared rules the round trip rests on
    from ..framework import PrefixReport
    from . import C07, C16
    if wants(rep, "C01.R7"):
        C07.run(env, PrefixReport(rep, "C07.", "C01.R7.", only=("C07.R5", "C07.R6")))
    if wants(rep, "C01.R8"):
        C16.run(env, PrefixReport(rep, "C16.", "C01.R8.", only=("C16.R1", "C16.R2")))
    if wants(rep, "C01.R9"):
        # every accepted message comes back: the reader's driver loop and its stages hold nothing back (zero-length messages included)
        from . import C15, C06
        C15.run(env, PrefixReport(rep, "C15.R5", "C01.R9", only=("C15.R5",), keys=lambda k: str(k).startswith("deserializer") or "anchor" in str(k)))
        C06.run(env, PrefixReport(rep, "C06.R7", "C01.R9", only=("C06.R7",)))
    if wants(rep, "C01.R10"):
        from . import C06 as _C06b
        _C06b.run(env, PrefixReport(rep, "C06.R3", "C01.R10", only=("C06.R3",)))
    if wants(rep, "C01.R11"):
        from . import chunk as _chunk
        _m = _chunk.ChunkModel(env, rep, "C01.anchors")
        if _m.ok:
            _chunk.setter_applies_size(_m, rep, "C01.R11")
