"""C11 - handshake digests and signatures (DESIGN.md section 5, C11)."""
import json, os, re
from .common import *
from .. import grammar
from ..absint import *
from ..interp import stable
from ..loader import Place
from .. import interp as I
from .chunk import sig
from ..grammar import fmt_tok
from . import facts

SPEC = os.path.join(os.path.dirname(os.path.dirname(os.path.dirname(os.path.abspath(__file__)))), "spec", "handshake.json")
ROLE = {0: "Server", 1: "Client"}


def role_on_path(p):
    for t in p:
        if t[0] == "when" and re.match(r"^discr\(load\(\*?load\(self\)\.peer_type\)\)$", t[1]) and t[2].isdigit():
            return ROLE.get(int(t[2]))
    return None


def offset_form(v):
    """(byte indices, modulus, constant added) when v = (sum of the bytes at those indices of the first parameter) % modulus + constant"""
    consts, terms = [], []

    def add_terms(x, out_c, out_t):
        while isinstance(x, tuple) and x[0] == "cast":
            x = x[2]
        if isinstance(x, tuple) and x[0] == "bin" and x[1] in ("Add", "AddW"):
            add_terms(x[3], out_c, out_t)
            add_terms(x[4], out_c, out_t)
        elif const_val(x) is not None and isinstance(const_val(x), int):
            out_c.append(const_val(x))
        else:
            out_t.append(x)
    add_terms(v, consts, terms)
    if len(terms) != 1 or not (isinstance(terms[0], tuple) and terms[0][0] == "bin" and terms[0][1] == "Rem"):
        return None
    modulus = const_val(terms[0][4])
    c2, t2 = [], []
    add_terms(terms[0][3], c2, t2)
    if c2 or not isinstance(modulus, int):
        return None
    idx = []
    for x in t2:
        if isinstance(x, tuple) and x[0] == "elem" and isinstance(x[2], int) and len(x) > 3 and isinstance(x[3], tuple) and x[3][0][0] == "P" and is_param_load(x[3][0][1], 1):
            idx.append(x[2])
        elif isinstance(x, tuple) and x[0] == "model" and x[1] == "sum-of-bytes":
            vw = x[2]
            while isinstance(vw, tuple) and vw[0] == "upd":
                vw = vw[1]
            if isinstance(vw, tuple) and vw[0] == "model" and vw[1] == "view" and const_val(vw[3]) is not None and const_val(vw[4]) is not None \
                    and contains(vw[2], lambda z: is_param_load(z, 1) or (isinstance(z, tuple) and z[0] == "ld" and z[1][0][0] == "P" and is_param_load(z[1][0][1], 1))):
                idx.extend(range(const_val(vw[3]), const_val(vw[3]) + const_val(vw[4])))
            else:
                return None
        else:
            return None
    if len(set(idx)) != len(idx):
        return None
    return (tuple(sorted(idx)), modulus, sum(consts))


def run(env, rep):
    prog, ctx = env.prog, env.ctx
    rep.explanation = (
        "R1: the three role -> key tables (packet-1 generation, packet-1 verification, packet-2 signature) are extracted by "
        "path-sensitive evaluation of the match on peer_type; verification(role) = generation(opposite role), packet-2 base key = "
        "generation(own role) followed by the 32-byte suffix, and the evaluated constants equal the table written from the RTMPE "
        "description; R2: the digest offset functions read bytes 8..11 / 772..775, reduce modulo 728 and add 12 / 776 (interval "
        "[12,739] / [776,1503] from the evaluated constants), generation uses the role's own scheme and verification tries both, and "
        "the digest returned is the one that was verified; R3: the packet-2 signature is HMAC(key = HMAC(key = packet-2 key, msg = "
        "peer digest), msg = first 1504 bytes of the outgoing packet) stored at [1504,1536) - checked as argument provenance of the "
        "two HMAC calls; R4: without a digest the response is the received packet itself.  R5: the 32 digest bytes of the own packet 1 are stored in full at [offset, offset + 32).  Not decided: that HMAC-SHA256 is "
        "computed correctly (trusted crates hmac, sha2).")
    with open(SPEC) as f:
        spec = json.load(f)
    need = {"gen": "handshake::Handshake::generate_outbound_p0_and_p1", "p1": "handshake::Handshake::parse_p1",
            "dig": "handshake::get_digest_for_received_packet", "coff": "handshake::get_client_digest_offset", "soff": "handshake::get_server_digest_offset",
            "hmac": "handshake::calc_hmac", "hmacp": "handshake::calc_hmac_from_parts", "parts": "handshake::get_message_parts"}
    b = {}
    for k, p in need.items():
        x = body_by_pretty(prog, p)
        if x is None:
            rep.anchor_missing("C11.anchors", p)
            return
        b[k] = x
        rep.fn(x.key)
    K = spec["keys"]
    units = grammar.named_units(prog)
    peer_ty = facts.field_proj(prog, "handshake::Handshake", ["peer_type"])

    def replay(body, call_probe=None, probe=None, raw_decisions=False):
        ex = grammar.Extractor(env, body.key, "r")
        ex.all_local_calls = True
        ex.track_ext = True
        ex.track_local_muts = True
        ex.inline = True
        ex.inline_pred = lambda cb, t: cb.pretty.split("::")[-1] not in units
        ex.call_probe = call_probe
        ex.probe = probe
        ex.raw_decisions = raw_decisions
        return ex.run()

    def role_of(it, S):
        """the role the path is taken for: what its state knows about the value self.peer_type had on entry"""
        if peer_ty is None:
            return None
        v = State().read((("P", facts.entry_self(it)), peer_ty))
        vals = facts.discr_values(S, v, (0, 1))
        return ROLE.get(next(iter(vals))) if len(vals) == 1 else None

    def arg_values(it, S, t, args):
        return tuple(a if is_const(a) else it.deref_value(S, a, 2, it.op_type(o)) for a, o in zip(args, t["args"]))

    def text(bs):
        return bytes(bs).decode("latin1") if bs is not None else None

    def hmac_probe(ex, it, S, t, args):
        # at every HMAC computation and digest search: the call's result value, its arguments as values, the bytes of those that
        # are constant, and the role the path is taken for so far
        cp = callee_path(t)
        kind = {b["hmac"].key: "hmac", b["hmacp"].key: "hmac-parts", b["dig"].key: "search"}.get(cp)
        if kind is None:
            if callee_name(t).endswith("_digest_offset") and cp in (b["coff"].key, b["soff"].key):
                return ("offset", short(cp).split("::")[-1], role_of(ex.outer.it, S))
            return None
        vals = arg_values(it, S, t, args)
        return (kind, ("call", it.site(), cp), vals, tuple(facts.byte_content(it, S, v) for v in vals), role_of(ex.outer.it, S))

    # ------------------------------------------------------------------ R1 key tables
    gen_key, gen_off = {}, {}
    for p in grammar.ok_paths(replay(b["gen"], hmac_probe, role_of)):
        role = next((t[1] for t in p if t[0] == "probe"), None) or role_on_path(p)
        for t in p:
            if t[0] != "cprobe":
                continue
            if t[1][0] in ("hmac", "hmac-parts"):
                gen_key.setdefault(role, set()).add(text(t[1][3][-1]))
            elif t[1][0] == "offset":
                gen_off.setdefault(role, set()).add(t[1][1])
    ver_key, p2_key = {}, {}
    p1_ex = replay(b["p1"], hmac_probe, lambda it, S: (role_of(it, S), S.read((it.L(0), ()))))
    p1_paths = p1_ex.paths
    sig_ok, sig_n, sig_why = True, 0, []
    signed_local = set()
    for p in p1_paths:
        role = next((t[1][0] for t in p if t[0] == "probe"), None) or role_on_path(p)
        hm = [t[1] for t in p if t[0] == "cprobe" and t[1][0] == "hmac"]
        for t in p:
            if t[0] == "cprobe" and t[1][0] == "search":
                ver_key.setdefault(t[1][4] or role, set()).add(text(t[1][3][-1]))
        if len(hm) >= 1:
            p2_key.setdefault(hm[0][4] or role, set()).add(text(hm[0][3][1]))
        if p and p[-1] == ("end", "ok") and hm:
            # ---- R3: the two computations of the packet-2 signature on this path
            sig_n += 1
            search = [t[1] for t in p if t[0] == "cprobe" and t[1][0] == "search"]
            digest = project(search[-1][1], (("dc", 0, "Ok"), ("f", 0, "0"))) if search else None

            def unview(x):
                while isinstance(x, tuple) and ((x[0] == "model" and x[1] == "view" and const_val(x[3]) == 0) or x[0] == "upd"):
                    x = x[2] if x[0] == "model" else x[1]
                return x
            good = len(hm) == 2 and digest is not None and unview(hm[0][2][0]) == digest and unview(hm[1][2][1]) == hm[0][1]
            m2 = hm[1][2][0] if len(hm) == 2 else None
            pre = spec["packet2"]["signed_prefix"]
            good = good and isinstance(m2, tuple) and m2[0] == "model" and m2[1] == "view" and const_val(m2[3]) == 0 and const_val(m2[4]) == pre
            if not good:
                sig_ok = False
                sig_why.append("HMAC computations on the path: %s" % "; ".join("HMAC(key = %s, msg = %s)" % (stable(h[2][1])[:70], stable(h[2][0])[:70]) for h in hm))
    want_gen = {"Server": {K["server_generation"]}, "Client": {K["client_generation"]}}
    rep.check("C11.R1", "generation-keys", gen_key == want_gen, "packet-1 digests are generated with %s" % {k: sorted(v) for k, v in gen_key.items()},
              "packet-1 generation keys are %s; the description gives %s" % ({k: sorted(map(str, v)) for k, v in gen_key.items()}, {k: sorted(v) for k, v in want_gen.items()}), b["gen"].span)
    want_ver = {"Server": want_gen["Client"], "Client": want_gen["Server"]}
    rep.check("C11.R1", "verification-keys", ver_key == want_ver, "a role verifies the peer's packet 1 with the opposite role's key",
              "packet-1 verification keys are %s; each role must verify with the key the opposite role generates with: %s" % (
                  {k: sorted(map(str, v)) for k, v in ver_key.items()}, {k: sorted(v) for k, v in want_ver.items()}), b["p1"].span)
    suffix = bytes.fromhex(K["suffix_hex"]).decode("latin1")
    base_tab = {r: {k[:-len(suffix)] if k is not None and k.endswith(suffix) else k for k in ks} for r, ks in p2_key.items()}
    rep.check("C11.R1", "packet2-keys", base_tab == want_gen, "the packet-2 key starts with the role's own generation key",
              "packet-2 base keys are %s; each role signs with its own key %s (a swapped table is invisible to the library's tests because packet-2 verification is disabled)" % (
                  {k: sorted(repr(x)[:60] for x in v) for k, v in base_tab.items()}, {k: sorted(v) for k, v in want_gen.items()}), b["p1"].span)
    okx = bool(p2_key) and all(k is not None and k.endswith(suffix) and len(k) > len(suffix) for ks in p2_key.values() for k in ks)
    rep.check("C11.R1", "packet2-suffix", okx, "the 32-byte suffix appended to the packet-2 key equals the description's",
              "the packet-2 key does not end with the 32-byte suffix of the description: %s" % sorted(repr(k)[-80:] for ks in p2_key.values() for k in ks)[:2], b["p1"].span)
    # ------------------------------------------------------------------ R2 offsets
    for nm, bk in (("client", "coff"), ("server", "soff")):
        row = spec["offset_schemes"][nm]
        # the value returned, evaluated with helpers followed in place: (sum of bytes) mod M + constants, however it is spelled
        exo = grammar.trace(env, b[bk].key, "r", probe=lambda it_, S_: S_.read((it_.L(0), ())))
        forms = set()
        r = ""
        for pth in exo.paths:
            if not pth or pth[-1][0] != "end" or pth[-1][1] not in ("ok", "ret"):
                continue
            for tk in pth:
                if tk[0] == "probe":
                    forms.add(offset_form(tk[1]))
                    r = stable(tk[1])
        idx, modulus, base_c = [], None, None
        if len(forms) == 1 and None not in forms:
            idx, modulus, base_c = next(iter(forms))
            idx = sorted(idx)
        m = None
        shape = ctx.ret_shape(b[bk].key)
        d = shape["dom"] if shape else None
        good = idx == row["bytes"] and modulus == row["modulus"] and base_c == row["base"] and d is not None and [d.lo, d.hi] == row["range"]
        rep.check("C11.R2", "offset:%s" % nm, good, "%s scheme: (b%s+..+b%s) mod %d + %d in %s" % (nm, row["bytes"][0], row["bytes"][3], row["modulus"], row["base"], row["range"]),
                  "%s digest offset is computed as %s with range %s; the description says bytes %s, modulus %d, base %d, range %s" % (nm, r[:160], d, row["bytes"], row["modulus"], row["base"], row["range"]), b[bk].span)
        # the 32 digest bytes lie inside the packet and do not overlap the offset bytes
        if d is not None:
            rep.check("C11.R2", "offset:%s:region" % nm, d.hi + spec["digest_length"] <= spec["packet_size"] and (d.lo > max(row["bytes"]) or d.hi + spec["digest_length"] <= min(row["bytes"])),
                      "digest region [off, off+32) stays inside the packet and clear of the offset bytes", "digest region for offsets in %s overlaps the offset bytes %s or leaves the %d-byte packet" % (d, row["bytes"], spec["packet_size"]), b[bk].span)
    want_off = {"Server": {"get_server_digest_offset"}, "Client": {"get_client_digest_offset"}}
    rep.check("C11.R2", "generation-scheme", gen_off == want_off, "each role places its digest by its own scheme", "generation uses %s" % {k: sorted(v) for k, v in gen_off.items()}, b["gen"].span)
    # verification: both schemes are tried, and the digest returned is the one whose HMAC matched.  Every Ok path of the search is
    # replayed (helpers followed in place); the path must have decided  HMAC(parts of R, key) == digest of R  to be true for the
    # very R = get_message_parts(packet, offset) whose digest it returns.
    db = b["dig"]

    def ver_probe(ex, it, S, t, args):
        cp = callee_path(t)
        if cp in (b["hmacp"].key, b["hmac"].key):
            return ("hmac", ("call", it.site(), cp), arg_values(it, S, t, args))
        if cp == b["parts"].key:
            return ("parts", ("call", it.site(), cp), tuple(args))
        return None
    vex = replay(db, ver_probe, lambda it, S: S.read((it.L(0), ())), raw_decisions=True)
    key_param = next((i for i in range(1, db.arg_count + 1) if db.locals[i].get("name") == "key"), db.arg_count)
    n_ok, bad, schemes = 0, [], set()

    def base_of(x):
        while isinstance(x, tuple) and x[0] in ("proj", "upd"):
            x = x[1]
        return x
    for p in vex.paths:
        if not p or p[-1] != ("end", "ok"):
            continue
        ret = next((t[1] for t in p if t[0] == "probe"), None)
        while isinstance(ret, tuple) and ret[0] == "upd":
            ret = ret[1]
        if not (isinstance(ret, tuple) and ret[0] == "agg" and ret[1] == "core::result::Result" and ret[2] == 0):
            continue
        n_ok += 1
        val = ret[3][0]
        R = base_of(val)
        parts = {t[1][1]: t[1][2] for t in p if t[0] == "cprobe" and t[1][0] == "parts"}
        hmacs = {t[1][1]: t[1][2] for t in p if t[0] == "cprobe" and t[1][0] == "hmac"}
        if R not in parts:
            bad.append("the digest returned (%s) is not the digest field of a get_message_parts result" % stable(val)[:80])
            continue
        off = parts[R][1] if len(parts[R]) > 1 else None
        if isinstance(off, tuple) and off[0] == "call" and off[2] in (b["coff"].key, b["soff"].key):
            schemes.add(short(off[2]).split("::")[-1])
        else:
            bad.append("the digest returned was cut out at %s, not at an offset computed by one of the two schemes" % stable(off)[:80])
        # the equalities decided true on the path
        proven = []
        for t in p:
            if t[0] == "when" and len(t) > 3:
                dv, truth = t[3], (t[2].startswith("other") or t[2] == "1")
                if isinstance(dv, tuple) and dv[0] == "not":
                    dv, truth = dv[1], not truth
                if isinstance(dv, tuple) and dv[0] == "seqeq" and truth:
                    proven.append((dv[1], dv[2]))
        ok_here = False
        for a_, b_ in proven:
            for h, d in ((a_, b_), (b_, a_)):
                if d == val and h in hmacs:
                    hv = hmacs[h]
                    from_same = all(base_of(x) == R for x in hv[:-1]) and len(hv) >= 2
                    keyed = contains(hv[-1], lambda z: is_param_load(z, key_param)) or (isinstance(hv[-1], tuple) and hv[-1][0] == "ld" and hv[-1][1][0][0] == "P" and is_param_load(hv[-1][1][0][1], key_param))
                    if from_same and keyed:
                        ok_here = True
        if not ok_here:
            bad.append("a digest is returned on a path that has not found HMAC(message parts around it, key) equal to it (equalities decided true on the path: %s)" % (
                ["%s == %s" % (stable(x)[:50], stable(y)[:50]) for x, y in proven] or "none"))
    rep.check("C11.R2", "verification-tries-both", schemes == {"get_client_digest_offset", "get_server_digest_offset"},
              "verification looks for the digest at the position of either scheme", "verification returns digests found by %s only" % (sorted(schemes) or "no scheme"), db.span)
    rep.check("C11.R2", "returned-digest-is-verified-digest", not bad and n_ok >= 2, "each Ok return hands back the digest whose HMAC matched (%d paths)" % n_ok,
              "; ".join(sorted(set(bad))[:2]) or "fewer than two Ok paths found", db.span)
    # ------------------------------------------------------------------ R5 the digest is written into the own packet 1 in full
    # all 32 bytes, at [offset, offset + 32): an indexed store packet[offset + i] := digest[i] whose i ranges over [0, 31], or one
    # copy of 32 bytes to packet[offset..] - not a write that may stop early (a zip over a window that ends before the digest does)
    gb = b["gen"]
    git_ = ctx.interp(gb.key)
    I.CUR_BODY[0] = gb
    placed5, seen_store = False, 0
    dlen = spec["digest_length"]
    for bi in gb.rpo:
        blk = gb.blocks[bi]
        for si, st in enumerate(blk["stmts"]):
            pl = st["place"]
            pr = pl["p"]
            if not (pr and isinstance(pr[-1], dict) and "ix" in pr[-1] and len(pr) >= 2 and isinstance(pr[-2], dict) and pr[-2].get("n") == "sent_p1"):
                continue
            S = git_.entry_states.get(bi)
            if S is None:
                continue
            S = S.copy()
            for j, s2 in enumerate(blk["stmts"][:si]):
                git_.cur = (bi, j)
                git_.transfer_stmt(S, s2)
            idx = S.read((git_.L(pr[-1]["ix"]), ()))
            if const_val(idx) is not None:
                continue             # the version bytes
            seen_store += 1
            if isinstance(idx, tuple) and idx[0] == "bin" and idx[1] in ("Add", "AddW"):
                for off_sv, i_sv in ((idx[3], idx[4]), (idx[4], idx[3])):
                    di = S.dom(i_sv)
                    do = S.dom(off_sv)
                    # the other operand is the digest offset: one of the two schemes' values (a join of the role arms, so judged by its range)
                    if di.lo == 0 and di.hi == dlen - 1 and const_val(off_sv) is None and do.lo >= 12 and do.hi <= spec["packet_size"] - dlen - 1:
                        placed5 = True
    if not placed5:
        for bi in gb.rpo:
            S = git_.exit_state(bi)
            if S is None or placed5:
                continue
            for (root, proj), v in list(S.mem.items()):
                if proj and proj[-1] == ("regions",) and len(proj) >= 2 and proj[-2][0] == "f" and proj[-2][2] == "sent_p1" and isinstance(v, tuple) and v[0] == "model" and v[1] == "regions":
                    for start, ln, src in v[2]:
                        ds = S.dom(start)
                        lnc = const_val(ln)
                        if lnc is None and isinstance(ln, tuple) and ln[0] == "bin" and ln[1] == "Sub" and isinstance(ln[3], tuple) and ln[3][0] == "bin" and ln[3][1] == "Add":
                            # (start + 32) - start
                            if ln[3][3] == ln[4]:
                                lnc = const_val(ln[3][4])
                            elif ln[3][4] == ln[4]:
                                lnc = const_val(ln[3][3])
                        if lnc == dlen and const_val(start) is None and ds.lo >= 12 and ds.hi <= spec["packet_size"] - dlen - 1:
                            placed5 = True
    rep.check("C11.R5", "own-digest-written-in-full", placed5, "the %d digest bytes are stored at [offset, offset + %d) of the own packet 1" % (dlen, dlen),
              "generate_outbound_p0_and_p1 does not store the digest as %d bytes at packet[offset + i], i in [0, %d] (nor as one %d-byte copy to packet[offset..]): a write that can stop "
              "early leaves a truncated digest for the offsets near the end of the window" % (dlen, dlen - 1, dlen), gb.span)
    # ------------------------------------------------------------------ R3 packet 2
    pb = b["p1"]
    rep.check("C11.R3", "packet2-signature", sig_ok and sig_n >= 2,
              "signature = HMAC(key = HMAC(key = packet-2 key, msg = peer digest), msg = first %d bytes of the outgoing packet) on %d path(s)" % (spec["packet2"]["signed_prefix"], sig_n),
              "the packet-2 signature is not HMAC(key = HMAC(key = own key, msg = peer digest), msg = first %d bytes of the outgoing packet) - swapped arguments are invisible to "
              "the library's own tests: %s" % (spec["packet2"]["signed_prefix"], "; ".join(sorted(set(sig_why))[:2]) or "no path computes a signature"), pb.span)
    # signature placement: the bytes [1504, 1536) of the packet that is sent are the second HMAC
    prefix = spec["packet2"]["signed_prefix"]
    it = ctx.interp(pb.key)
    I.CUR_BODY[0] = pb
    placed = False
    for bi in pb.rpo:
        for st in pb.blocks[bi]["stmts"]:
            pl = st["place"]
            if pl["p"] and isinstance(pl["p"][-1], dict) and "ix" in pl["p"][-1] and pb.locals[pl["l"]]["t"].get("k") == "array" and pb.locals[pl["l"]]["t"].get("len") == spec["packet_size"]:
                S = it.exit_state(bi)
                if S is None:
                    continue
                idx = S.read((it.L(pl["p"][-1]["ix"]), ()))
                base, off = S.norm(idx)
                d = S.dom(idx)
                src = it.eval_rvalue(S, st["rv"], Place(pl)) if hasattr(it, "eval_rvalue") else None
                if off == prefix and d.lo >= prefix and d.hi <= spec["packet_size"] - 1:
                    placed = True
    if not placed:
        # or: copied there in one piece (copy_from_slice into packet[1504..])
        for bi in pb.rpo:
            S = it.exit_state(bi)
            if S is None or placed:
                continue
            for li, l in enumerate(pb.locals):
                if l["t"].get("k") == "array" and l["t"].get("len") == spec["packet_size"]:
                    rg = S.read((it.L(li), (("regions",),)))
                    if isinstance(rg, tuple) and rg[0] == "model" and rg[1] == "regions":
                        for start, ln, src in rg[2]:
                            if const_val(start) == prefix and const_val(ln) == spec["packet_size"] - prefix and \
                                    contains(src, lambda x: isinstance(x, tuple) and x[0] == "call" and "calc_hmac" in str(x[2])):
                                placed = True
    rep.check("C11.R3", "signature-placement", placed, "the signature is stored at bytes [1504, 1536) of the outgoing packet", "the packet-2 signature is not stored at offset 1504..1535 of the outgoing packet", pb.span)
    # ------------------------------------------------------------------ R4 echo
    # a path that answers (InProgress) without having computed a signature is the digest-less fallback: its response is the packet received
    echo_n, echo_ok, echo_why = 0, True, set()
    for p in p1_paths:
        if not p or p[-1] != ("end", "ok") or any(t[0] == "cprobe" and t[1][0] == "hmac" for t in p):
            continue
        val = next((t[1][1] for t in p if t[0] == "probe"), None)
        if not contains(val, lambda x: isinstance(x, tuple) and x[0] == "agg" and isinstance(x[1], str) and x[1].endswith("HandshakeProcessResult")):
            continue
        resp = next((x for x in subterms(val) if isinstance(x, tuple) and x[0] == "agg" and isinstance(x[1], str) and x[1].endswith("HandshakeProcessResult")), None)
        rb = resp[3][0] if resp is not None and resp[3] else None
        rl = project(rb, (("len",),)) if rb is not None else None
        if const_val(rl) == 0:
            continue          # nothing is answered (not enough input yet)
        searched = any(t[0] == "cprobe" and t[1][0] == "search" for t in p)
        failed = any(t[0] == "when" and re.match(r"^discr\(call\(handshake::get_digest_for_received_packet\)\)$", t[1]) and t[2] in ("1", "other:0") for t in p)
        if not (searched and failed):
            echo_n += 1
            echo_ok = False
            echo_why.add("a packet 1 is answered with the plain echo on a path that has not searched it for a digest (decisions: %s): a peer that sent a valid digest would not get a signed packet 2" % (
                " ".join(fmt_tok(t) for t in p if t[0] == "when")[-200:]))
            continue
        if pb.loops and not any(t[0] == "again" for t in p) and not contains(val, lambda x: isinstance(x, tuple) and x[0] == "model" and x[1] == "regions"):
            continue          # the copy loop passed without an iteration: the same answer is examined on the path that iterates
        echo_n += 1

        def first_packet(x):
            if not (isinstance(x, tuple) and x[0] == "model" and x[1] == "regions" and len(x[2]) == 1):
                return False
            start, ln, src = x[2][0]
            return const_val(start) == 0 and const_val(ln) == spec["packet_size"] and contains(
                src, lambda y: isinstance(y, tuple) and y[0] == "model" and y[1] == "view" and const_val(y[3]) == 0 and
                contains(y[2], lambda z: isinstance(z, tuple) and z[0] == "ld" and z[1][1] and z[1][1][-1][0] == "f" and z[1][1][-1][2] == "input_buffer"))
        good = contains(val, lambda x: isinstance(x, tuple) and x[0] == "model" and x[1] == "to_vec") and (
            contains(val, lambda x: isinstance(x, tuple) and x[0] == "call" and "drain" in (x[2] or "").lower()) or contains(val, first_packet))
        echo_ok = echo_ok and good
    rep.check("C11.R4", "echo-without-digest", echo_ok and echo_n >= 1, "without a digest the response is a copy of the received packet 1 (%d path(s))" % echo_n,
              "; ".join(sorted(echo_why)) or "the digest-less fallback does not answer with the received packet", pb.span)
    # a packet 1 without a digest is never an error: once 1536 bytes are there, no path of the packet-1 stage returns Err
    # (the digest search fails only with 'no digest found', and that case is answered with the echo)
    ex = grammar.trace(env, pb.key, "r")
    errs = [p for p in ex.paths if p and p[-1] == ("end", "err")]
    why = sorted({" ".join(fmt_tok(t) for t in p if t[0] == "when")[-260:] for p in errs})
    rep.check("C11.R4", "packet-1-never-refused", not errs and not ex.truncated and len(ex.paths) >= 2, "no path of the packet-1 stage ends in an error (%d paths)" % len(ex.paths),
              "the packet-1 stage can return an error: %s - a peer using the original handshake (no digest, any version field) must get its packet echoed, not be refused" % (why[:2] or "paths could not be enumerated"), pb.span)
