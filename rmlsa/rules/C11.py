"""C11 - handshake digests and signatures (DESIGN.md section 5, C11)."""
import json, os, re
from .common import *
from .. import grammar
from ..absint import *
from ..interp import stable
from ..loader import Place
from .. import interp as I
from .chunk import sig
from ..grammar import fmt_tok

SPEC = os.path.join(os.path.dirname(os.path.dirname(os.path.dirname(os.path.abspath(__file__)))), "spec", "handshake.json")
ROLE = {0: "Server", 1: "Client"}


def role_on_path(p):
    for t in p:
        if t[0] == "when" and re.match(r"^discr\(load\(\*?load\(self\)\.peer_type\)\)$", t[1]) and t[2].isdigit():
            return ROLE.get(int(t[2]))
    return None


def offset_form(v):
    """(byte indices, modulus, constant added) when v = (sum of the bytes at those indices of the first parameter) % modulus + constant"""
    consts, terms = [], []

    def add_terms(x, out_c, out_t):
        while isinstance(x, tuple) and x[0] == "cast":
            x = x[2]
        if isinstance(x, tuple) and x[0] == "bin" and x[1] in ("Add", "AddW"):
            add_terms(x[3], out_c, out_t)
            add_terms(x[4], out_c, out_t)
        elif const_val(x) is not None and isinstance(const_val(x), int):
            out_c.append(const_val(x))
        else:
            out_t.append(x)
    add_terms(v, consts, terms)
    if len(terms) != 1 or not (isinstance(terms[0], tuple) and terms[0][0] == "bin" and terms[0][1] == "Rem"):
        return None
    modulus = const_val(terms[0][4])
    c2, t2 = [], []
    add_terms(terms[0][3], c2, t2)
    if c2 or not isinstance(modulus, int):
        return None
    idx = []
    for x in t2:
        if isinstance(x, tuple) and x[0] == "elem" and isinstance(x[2], int) and len(x) > 3 and isinstance(x[3], tuple) and x[3][0][0] == "P" and is_param_load(x[3][0][1], 1):
            idx.append(x[2])
        elif isinstance(x, tuple) and x[0] == "model" and x[1] == "sum-of-bytes":
            vw = x[2]
            while isinstance(vw, tuple) and vw[0] == "upd":
                vw = vw[1]
            if isinstance(vw, tuple) and vw[0] == "model" and vw[1] == "view" and const_val(vw[3]) is not None and const_val(vw[4]) is not None \
                    and contains(vw[2], lambda z: is_param_load(z, 1) or (isinstance(z, tuple) and z[0] == "ld" and z[1][0][0] == "P" and is_param_load(z[1][0][1], 1))):
                idx.extend(range(const_val(vw[3]), const_val(vw[3]) + const_val(vw[4])))
            else:
                return None
        else:
            return None
    if len(set(idx)) != len(idx):
        return None
    return (tuple(sorted(idx)), modulus, sum(consts))


def run(env, rep):
    prog, ctx = env.prog, env.ctx
    rep.explanation = (
        "R1: the three role -> key tables (packet-1 generation, packet-1 verification, packet-2 signature) are extracted by "
        "path-sensitive evaluation of the match on peer_type; verification(role) = generation(opposite role), packet-2 base key = "
        "generation(own role) followed by the 32-byte suffix, and the evaluated constants equal the table written from the RTMPE "
        "description; R2: the digest offset functions read bytes 8..11 / 772..775, reduce modulo 728 and add 12 / 776 (interval "
        "[12,739] / [776,1503] from the evaluated constants), generation uses the role's own scheme and verification tries both, and "
        "the digest returned is the one that was verified; R3: the packet-2 signature is HMAC(key = HMAC(key = packet-2 key, msg = "
        "peer digest), msg = first 1504 bytes of the outgoing packet) stored at [1504,1536) - checked as argument provenance of the "
        "two HMAC calls; R4: without a digest the response is the received packet itself.  Not decided: that HMAC-SHA256 is "
        "computed correctly (trusted crates hmac, sha2).")
    with open(SPEC) as f:
        spec = json.load(f)
    need = {"gen": "handshake::Handshake::generate_outbound_p0_and_p1", "p1": "handshake::Handshake::parse_p1",
            "dig": "handshake::get_digest_for_received_packet", "coff": "handshake::get_client_digest_offset", "soff": "handshake::get_server_digest_offset",
            "hmac": "handshake::calc_hmac", "hmacp": "handshake::calc_hmac_from_parts", "parts": "handshake::get_message_parts"}
    b = {}
    for k, p in need.items():
        x = body_by_pretty(prog, p)
        if x is None:
            rep.anchor_missing("C11.anchors", p)
            return
        b[k] = x
        rep.fn(x.key)
    K = spec["keys"]
    # ------------------------------------------------------------------ R1 key tables
    gen_key, gen_off = {}, {}
    ex = grammar.Extractor(env, b["gen"].key, "r")
    ex.all_local_calls = True
    for p in [sig(p) for p in grammar.ok_paths(ex.run())]:
        role = role_on_path(p)
        calls = [t for t in p if t[0] == "call"]
        for t in calls:
            if t[1].endswith("calc_hmac_from_parts") and len(t[2]) >= 3:
                gen_key.setdefault(role, set()).add(t[2][2].lstrip("&*"))
            if t[1].endswith("_digest_offset"):
                gen_off.setdefault(role, set()).add(t[1].split("::")[-1])
    ver_key, p2_base = {}, {}
    ex = grammar.Extractor(env, b["p1"].key, "r")
    ex.all_local_calls = True
    ex.track_ext = True
    ex.track_local_muts = True
    p1_paths = [sig(p) for p in ex.run().paths]
    for p in p1_paths:
        role = role_on_path(p)
        for t in p:
            if t[0] == "call" and t[1].endswith("get_digest_for_received_packet") and len(t[2]) >= 2:
                m = re.search(r"to_vec\((.*)\)$", t[2][1])
                ver_key.setdefault(role, set()).add(m.group(1) if m else t[2][1])
        ext = [t for t in p if t[0] == "mut" and t[1] == "extend_from_slice" and t[2] == "local:p2_key"]
        firsth = [t for t in p if t[0] == "call" and t[1].endswith("handshake::calc_hmac")]
        if ext and firsth:
            # the packet-2 key before the suffix is appended: second role decision on the path
            roles = [ROLE.get(int(t[2])) for t in p if t[0] == "when" and re.match(r"^discr\(load\(\*?load\(self\)\.peer_type\)\)$", t[1]) and t[2].isdigit()]
            p2_base.setdefault(roles[-1] if roles else None, set()).add(ext[0][3][0])
    want_gen = {"Server": {K["server_generation"]}, "Client": {K["client_generation"]}}
    rep.check("C11.R1", "generation-keys", gen_key == want_gen, "packet-1 digests are generated with %s" % {k: sorted(v) for k, v in gen_key.items()},
              "packet-1 generation keys are %s; the description gives %s" % ({k: sorted(v) for k, v in gen_key.items()}, {k: sorted(v) for k, v in want_gen.items()}), b["gen"].span)
    want_ver = {"Server": want_gen["Client"], "Client": want_gen["Server"]}
    rep.check("C11.R1", "verification-keys", ver_key == want_ver, "a role verifies the peer's packet 1 with the opposite role's key",
              "packet-1 verification keys are %s; each role must verify with the key the opposite role generates with: %s" % (
                  {k: sorted(v) for k, v in ver_key.items()}, {k: sorted(v) for k, v in want_ver.items()}), b["p1"].span)
    # packet-2 key: own generation key + suffix.  The base key is the value of p2_key before extend_from_slice: read it from the state
    it = ctx.interp(b["p1"].key)
    I.CUR_BODY[0] = b["p1"]
    p2_tab = {}
    suffix = set()
    for bi, t in b["p1"].calls():
        if callee_name(t) == "alloc::vec::Vec::extend_from_slice":
            S, args = args_at(ctx, b["p1"].key, bi)
            if S is None:
                continue
            tgt = it.target(args[0])
            if tgt[0][0] == "L" and b["p1"].locals[tgt[0][1]]["name"] == "p2_key":
                suffix.add(stable(it.deref_value(S, args[1], 2, it.op_type(t["args"][1]))) if not is_const(args[1]) else stable(args[1]))
                src = S.read((tgt[0], ()))
                # a phi of the two role arms: evaluate per role by path replay instead
    ex2 = grammar.Extractor(env, b["p1"].key, "r")
    ex2.all_local_calls = True
    ex2.track_local_muts = True
    ex2.track_ext = True
    for p in [sig(p) for p in ex2.run().paths]:
        ext = [i for i, t in enumerate(p) if t[0] == "mut" and t[1] == "extend_from_slice" and t[2] == "local:p2_key"]
        if not ext:
            continue
        roles = [ROLE.get(int(t[2])) for t in p[:ext[0]] if t[0] == "when" and re.match(r"^discr\(load\(\*?load\(self\)\.peer_type\)\)$", t[1]) and t[2].isdigit()]
        hm = [t for t in p if t[0] == "call" and t[1].endswith("handshake::calc_hmac") and len(t[2]) >= 2]
        if roles and hm:
            m = re.search(r"to_vec\(([^)]*)\)", hm[0][2][1])
            p2_tab.setdefault(roles[-1], set()).add(m.group(1) if m else hm[0][2][1][:80])
        for t in [p[i] for i in ext]:
            suffix.add(t[3][0].lstrip("&*"))
    rep.check("C11.R1", "packet2-keys", p2_tab == want_gen, "the packet-2 key starts with the role's own generation key",
              "packet-2 base keys are %s; each role signs with its own key %s (a swapped table is invisible to the library's tests because packet-2 verification is disabled)" % (
                  {k: sorted(v) for k, v in p2_tab.items()}, {k: sorted(v) for k, v in want_gen.items()}), b["p1"].span)
    okx = any(K["suffix_hex"] in s for s in suffix) and len(suffix) >= 1
    rep.check("C11.R1", "packet2-suffix", okx, "the 32-byte suffix appended to the packet-2 key equals the description's", "the packet-2 key suffix is %s" % sorted(suffix)[:2], b["p1"].span)
    # ------------------------------------------------------------------ R2 offsets
    for nm, bk in (("client", "coff"), ("server", "soff")):
        row = spec["offset_schemes"][nm]
        # the value returned, evaluated with helpers followed in place: (sum of bytes) mod M + constants, however it is spelled
        exo = grammar.trace(env, b[bk].key, "r", probe=lambda it_, S_: S_.read((it_.L(0), ())))
        forms = set()
        r = ""
        for pth in exo.paths:
            if not pth or pth[-1][0] != "end" or pth[-1][1] not in ("ok", "ret"):
                continue
            for tk in pth:
                if tk[0] == "probe":
                    forms.add(offset_form(tk[1]))
                    r = stable(tk[1])
        idx, modulus, base_c = [], None, None
        if len(forms) == 1 and None not in forms:
            idx, modulus, base_c = next(iter(forms))
            idx = sorted(idx)
        m = None
        shape = ctx.ret_shape(b[bk].key)
        d = shape["dom"] if shape else None
        good = idx == row["bytes"] and modulus == row["modulus"] and base_c == row["base"] and d is not None and [d.lo, d.hi] == row["range"]
        rep.check("C11.R2", "offset:%s" % nm, good, "%s scheme: (b%s+..+b%s) mod %d + %d in %s" % (nm, row["bytes"][0], row["bytes"][3], row["modulus"], row["base"], row["range"]),
                  "%s digest offset is computed as %s with range %s; the description says bytes %s, modulus %d, base %d, range %s" % (nm, r[:160], d, row["bytes"], row["modulus"], row["base"], row["range"]), b[bk].span)
        # the 32 digest bytes lie inside the packet and do not overlap the offset bytes
        if d is not None:
            rep.check("C11.R2", "offset:%s:region" % nm, d.hi + spec["digest_length"] <= spec["packet_size"] and (d.lo > max(row["bytes"]) or d.hi + spec["digest_length"] <= min(row["bytes"])),
                      "digest region [off, off+32) stays inside the packet and clear of the offset bytes", "digest region for offsets in %s overlaps the offset bytes %s or leaves the %d-byte packet" % (d, row["bytes"], spec["packet_size"]), b[bk].span)
    want_off = {"Server": {"get_server_digest_offset"}, "Client": {"get_client_digest_offset"}}
    rep.check("C11.R2", "generation-scheme", gen_off == want_off, "each role places its digest by its own scheme", "generation uses %s" % {k: sorted(v) for k, v in gen_off.items()}, b["gen"].span)
    # verification: both schemes are tried, and the digest returned is the one whose HMAC matched
    db = b["dig"]
    it = ctx.interp(db.key)
    I.CUR_BODY[0] = db
    parts_calls = {}      # result SV -> offset function used
    for bi, t in db.calls():
        if callee_path(t) == b["parts"].key:
            S, args = args_at(ctx, db.key, bi)
            if S is None:
                continue
            R = ("call", (db.key, bi, len(db.blocks[bi]["stmts"])), b["parts"].key)
            off = args[1]
            parts_calls[R] = stable(off)
    both = sorted(parts_calls.values())
    rep.check("C11.R2", "verification-tries-both", both == ["call(handshake::get_client_digest_offset)", "call(handshake::get_server_digest_offset)"],
              "verification computes the digest position by both schemes", "verification looks for the digest at %s" % both, db.span)
    n_ok, bad = 0, []
    for bi in db.rpo:
        for si, st in enumerate(db.blocks[bi]["stmts"]):
            rv = st["rv"]
            if st["place"]["l"] == 0 and not st["place"]["p"] and rv["k"] == "agg" and rv.get("adt") == "core::result::Result" and rv["vi"] == 0:
                S = it.entry_states[bi].copy()
                for j, s2 in enumerate(db.blocks[bi]["stmts"][:si]):
                    it.cur = (bi, j)
                    it.transfer_stmt(S, s2)
                it.cur = (bi, si)
                val = it.eval_op(S, rv["ops"][0])
                n_ok += 1
                # provenance of the returned digest
                base = val
                while isinstance(base, tuple) and base[0] in ("proj", "upd"):
                    base = base[1]
                # the dominating equality test
                x = bi
                test = None
                while True:
                    nb = db.idom.get(x)
                    if nb is None or nb == x:
                        break
                    tt = db.blocks[nb]["term"]
                    if tt["k"] == "switch":
                        pred = [p for p in db.preds[nb]]
                        # the switch operand is the result of an equality call in a predecessor block
                        for pb in [nb] + pred:
                            t2 = db.blocks[pb]["term"]
                            if t2["k"] == "call" and "PartialEq" in (t2["callee"].get("orig_pretty") or "") and db.dominates(pb, bi):
                                Sx, ax = args_at(ctx, db.key, pb)
                                if Sx is not None:
                                    vals = [it.deref_value(Sx, a, 2, it.op_type(o)) for a, o in zip(ax, t2["args"])]
                                    test = vals
                        if test is not None:
                            break
                    x = nb
                if test is None:
                    bad.append("a digest is returned without a dominating equality test")
                    continue
                tested_bases = []
                for v in test:
                    bb = v
                    while isinstance(bb, tuple) and bb[0] in ("proj", "upd"):
                        bb = bb[1]
                    tested_bases.append(bb)
                if base not in tested_bases or val not in test:
                    bad.append("the digest returned comes from %s but the equality that guards the return tested %s" % (
                        parts_calls.get(base, stable(base)), [parts_calls.get(x, stable(x)) for x in tested_bases]))
    rep.check("C11.R2", "returned-digest-is-verified-digest", not bad and n_ok >= 2, "each Ok return hands back the digest whose HMAC matched (%d return sites)" % n_ok,
              "; ".join(bad) or "fewer than two Ok returns found", db.span)
    # ------------------------------------------------------------------ R3 packet 2
    pb = b["p1"]
    it = ctx.interp(pb.key)
    I.CUR_BODY[0] = pb
    hcalls = []
    for bi, t in pb.calls():
        if callee_path(t) == b["hmac"].key:
            S, args = args_at(ctx, pb.key, bi)
            if S is not None:
                hcalls.append((bi, S, args, t))
    if len(hcalls) != 2:
        rep.bad("C11.R3", "packet2-signature", "expected two HMAC computations for the packet-2 signature, found %d" % len(hcalls), pb.span)
    else:
        (b1, S1, a1, t1), (b2, S2, a2, t2) = sorted(hcalls, key=lambda x: pb.rpo_index[x[0]])
        R1 = ("call", (pb.key, b1, len(pb.blocks[b1]["stmts"])), b["hmac"].key)
        msg1 = it.deref_value(S1, a1[0], 2, it.op_type(t1["args"][0]))
        key1_loc = it.target(a1[1])
        ok_msg1 = contains(msg1, lambda x: x[0] == "call" and x[2] == b["dig"].key) or "get_digest_for_received_packet" in stable(msg1)
        key1_name = None
        if isinstance(a1[1], tuple) and a1[1][0] == "ref":
            of = S1.mem.get((a1[1][1][0], (("of",),)))
            src = of if of is not None else a1[1]
            if isinstance(src, tuple) and src[0] == "ref" and src[1][0][0] == "L":
                key1_name = pb.locals[src[1][0][1]]["name"]
        key2 = it.deref_value(S2, a2[1], 2, it.op_type(t2["args"][1]))
        if isinstance(key2, tuple) and key2[0] == "model" and key2[1] == "view":
            key2 = key2[2]
        ok_key2 = key2 == R1
        msg2_len = it.len_of_ref(S2, a2[0], it.op_type(t2["args"][0]))
        msg2_of = None
        if isinstance(a2[0], tuple) and a2[0][0] == "ref":
            of = S2.mem.get((a2[0][1][0], (("of",),)))
            st_ = S2.mem.get((a2[0][1][0], (("start",),)))
            if isinstance(of, tuple) and of[0] == "ref" and of[1][0][0] == "L":
                msg2_of = pb.locals[of[1][0][1]]["name"]
                msg2_start = const_val(st_) if st_ is not None else None
        prefix = spec["packet2"]["signed_prefix"]
        good = ok_msg1 and key1_name == "p2_key" and ok_key2 and const_val(msg2_len) == prefix and msg2_of == "output_packet"
        rep.check("C11.R3", "packet2-signature", good,
                  "signature = HMAC(key = HMAC(key = p2_key, msg = peer digest), msg = output_packet[..%d])" % prefix,
                  "packet-2 signature is computed as HMAC(key = %s, msg = %s[..%s]) with inner HMAC(key = %s, msg = %s); the description requires "
                  "HMAC(key = HMAC(key = own key, msg = peer digest), msg = first %d bytes of the outgoing packet) - swapped arguments are invisible to the library's own tests" % (
                      stable(key2)[:60], msg2_of, stable(msg2_len), key1_name, stable(msg1)[:80], prefix), pb.span)
    # signature placement: stores into output_packet[1504 + index] from hmac2[index]
    placed = False
    for bi in pb.rpo:
        for st in pb.blocks[bi]["stmts"]:
            pl = st["place"]
            if pl["p"] and isinstance(pl["p"][-1], dict) and "ix" in pl["p"][-1] and pb.locals[pl["l"]]["name"] == "output_packet":
                S = it.exit_state(bi)
                if S is None:
                    continue
                idx = S.read((it.L(pl["p"][-1]["ix"]), ()))
                base, off = S.norm(idx)
                d = S.dom(idx)
                placed = off == prefix and d.lo >= prefix and d.hi <= spec["packet_size"] - 1
    if not placed:
        # or: copied there in one piece (copy_from_slice into output_packet[1504..])
        for bi in pb.rpo:
            S = it.exit_state(bi)
            if S is None or placed:
                continue
            for li, l in enumerate(pb.locals):
                if l["name"] == "output_packet":
                    rg = S.read((it.L(li), (("regions",),)))
                    if isinstance(rg, tuple) and rg[0] == "model" and rg[1] == "regions":
                        for start, ln, src in rg[2]:
                            if const_val(start) == prefix and const_val(ln) == spec["packet_size"] - prefix and \
                                    contains(src, lambda x: isinstance(x, tuple) and x[0] == "call" and "calc_hmac" in str(x[2])):
                                placed = True
    rep.check("C11.R3", "signature-placement", placed, "the signature is stored at output_packet[1504 + i], i < 32", "the packet-2 signature is not stored at offset 1504..1535 of the outgoing packet", pb.span)
    # ------------------------------------------------------------------ R4 echo
    echo = False
    it = ctx.interp(pb.key)
    for bi in pb.rpo:
        for si, st in enumerate(pb.blocks[bi]["stmts"]):
            rv = st["rv"]
            if rv["k"] == "agg" and rv.get("variant") == "InProgress" and rv["adt"].endswith("HandshakeProcessResult"):
                # an InProgress result built in a block that is not dominated by an HMAC computation = the fallback
                if any(pb.dominates(hb_, bi) for hb_, _, _, _ in hcalls):
                    continue
                S = it.entry_states.get(bi)
                if S is None:
                    continue
                S = S.copy()
                for j, s2 in enumerate(pb.blocks[bi]["stmts"][:si]):
                    it.cur = (bi, j)
                    it.transfer_stmt(S, s2)
                it.cur = (bi, si)
                val = it.eval_op(S, rv["ops"][0])
                if contains(val, lambda x: x[0] == "model" and x[1] == "to_vec"):
                    # the copied array was filled from the drained input, item by item ...
                    echo = contains(val, lambda x: x[0] == "call" and "drain" in (x[2] or "").lower())
                    # ... or in one piece from the first 1536 bytes of the input buffer
                    def first_packet(x):
                        if not (isinstance(x, tuple) and x[0] == "model" and x[1] == "regions" and len(x[2]) == 1):
                            return False
                        start, ln, src = x[2][0]
                        return const_val(start) == 0 and const_val(ln) == spec["packet_size"] and contains(
                            src, lambda y: isinstance(y, tuple) and y[0] == "model" and y[1] == "view" and const_val(y[3]) == 0 and
                            contains(y[2], lambda z: isinstance(z, tuple) and z[0] == "ld" and z[1][1] and z[1][1][-1][0] == "f" and z[1][1][-1][2] == "input_buffer"))
                    echo = echo or contains(val, first_packet)
    rep.check("C11.R4", "echo-without-digest", echo, "without a digest the response is a copy of the received packet 1", "the digest-less fallback does not answer with the received packet", pb.span)
    # a packet 1 without a digest is never an error: once 1536 bytes are there, no path of the packet-1 stage returns Err
    # (the digest search fails only with 'no digest found', and that case is answered with the echo)
    ex = grammar.trace(env, pb.key, "r")
    errs = [p for p in ex.paths if p and p[-1] == ("end", "err")]
    why = sorted({" ".join(fmt_tok(t) for t in p if t[0] == "when")[-260:] for p in errs})
    rep.check("C11.R4", "packet-1-never-refused", not errs and not ex.truncated and len(ex.paths) >= 2, "no path of the packet-1 stage ends in an error (%d paths)" % len(ex.paths),
              "the packet-1 stage can return an error: %s - a peer using the original handshake (no digest, any version field) must get its packet echoed, not be refused" % (why[:2] or "paths could not be enumerated"), pb.span)
