"""C08 - dropping droppable packets leaves the stream decodable (DESIGN.md section 5, C08)."""
import re
from .common import *
from . import chunk
from .. import grammar
from ..grammar import fmt_tok


def decision(p, name):
    for t in p:
        if t[0] == "when" and t[1] == name:
            return "true" if t[2].startswith("other") else ("false" if t[2] == "0" else t[2])
    return None


def run(env, rep):
    rep.explanation = (
        "R1: the header-format decision of add_chunk is tabulated over its four inputs (force_uncompressed, a stored previous "
        "header for the chunk stream, continuation chunk, previous header droppable) by enumerating every feasible path "
        "path-sensitively; on every row with a previous header, not a continuation chunk and the previous header flagged droppable "
        "the format is the constant Full, and the flag consulted is the one stored in previous_headers[csid of this message]; R2: the "
        "can_be_dropped stored in the remembered header and in the returned Packet is the caller's argument; R3: all chunks of one "
        "message go into the one buffer that becomes Packet.bytes; R4 (= the writer clauses of C01 R3 and R5): continuation chunks repeat the first chunk's timestamp field and a type-0 header carries the absolute time - what a surviving packet carries must decode on its own.  Not decided: decodability after each of the 2^k drop sets.")
    rep.exhaustive = True
    m = chunk.ChunkModel(env, rep, "C08.anchors")
    if not m.ok:
        return
    full = m.variants[0]
    rows = {}
    flag_re = re.compile(r"^load\(\*?HashMap::get\(load\(\*?_?\.?.*previous_headers\),call\(serializer::get_csid_for_message_type\)\) as Some\.0\.can_be_dropped\)$")
    n_drop_rows = 0
    bad = []
    for p in m.add_chunk_paths:
        force = decision(p, "load(force_uncompressed)")
        prev = None
        for t in p:
            if t[0] == "when" and t[1].startswith("discr(HashMap::get(") and "previous_headers" in t[1]:
                prev = "some" if t[2] == "1" else "none"
        cont = decision(p, "load(continued_chunk)")
        drop = None
        for t in p:
            if t[0] == "when" and flag_re.match(t[1]):
                drop = "true" if t[2].startswith("other") else "false"
        fmt = chunk.format_on_path(m, p)
        if fmt is None and any(t[0] == "call" and t[1].endswith("get_header_format") for t in p):
            fmt = "computed"
        rows.setdefault((force, prev, cont, drop), set()).add(fmt)
    # any decision on a droppable flag that is not the stored header's flag?
    other_flags = set()
    for p in m.add_chunk_paths:
        for t in p:
            if t[0] == "when" and ("can_be_dropped" in t[1] or "droppable" in t[1]) and not flag_re.match(t[1]) and t[1] != "load(can_be_dropped)":
                other_flags.add(t[1])
    rep.check("C08.R1", "flag-consulted", not other_flags, "the only droppable flag consulted is previous_headers[csid].can_be_dropped",
              "add_chunk decides on %s: the 'previous packet may have been dropped' precaution must follow the chunk stream whose header will be inherited, i.e. the flag stored in previous_headers under this message's csid" % sorted(other_flags)[:2],
              m.b["add_chunk"].span)
    # the 16 input rows: every feasible combination was enumerated; check those that require Full
    req = [k for k in rows if k[0] == "false" and k[1] == "some" and k[2] == "false" and k[3] == "true"]
    rep.floor("C08.R1", "decision rows enumerated (feasible combinations of the four inputs)", len(rows), 4)
    rep.extra["decision_table"] = {"%s|%s|%s|%s" % k: sorted(str(x) for x in v) for k, v in sorted(rows.items(), key=str)}
    if not req:
        rep.bad("C08.R1", "row:prev-droppable", "no path of add_chunk tests the stored header's can_be_dropped flag before choosing a compressed format: "
                                               "after a droppable packet the next packet on that chunk stream could inherit fields from a packet the peer never received", m.b["add_chunk"].span)
    for k in req:
        rep.check("C08.R1", "row:prev-droppable", rows[k] == {full}, "previous header droppable (not forced, not a continuation) => format is Full",
                  "with a droppable previous header the format can be %s" % sorted(str(x) for x in rows[k]), m.b["add_chunk"].span)
    # on rows where the flag was not consulted although a previous header exists and the chunk is not a continuation, a compressed format must be impossible
    for k, v in rows.items():
        if k[0] == "false" and k[1] == "some" and k[2] == "false" and k[3] is None:
            rep.check("C08.R1", "row:flag-not-consulted", v == {full}, "format is Full",
                      "a path with a stored previous header chooses %s without consulting its can_be_dropped flag" % sorted(str(x) for x in v), m.b["add_chunk"].span)
        if k[3] == "false" or k[1] == "none" or k[0] == "true" or k[2] == "true":
            rep.ok("C08.R1", "row:%s" % "|".join(str(x) for x in k), "format %s" % sorted(str(x) for x in v), nontrivial=False)
    # get_header_format itself must not be entered when the previous header is droppable (checked above by the constant Full);
    # ------------------------------------------------------------------ R2 provenance
    ok_h, ok_n, why_h = True, 0, []
    n_cont_skip = 0
    for p in m.add_chunk_paths:
        if not p or p[-1][0] != "end" or p[-1][1] not in ("ok", "ret", "ok|err"):
            continue
        rets = [t for t in p if t[0] == "returns"]
        if rets and not rets[-1][1].startswith("Ok("):
            continue
        ins = [t for t in p if t[0] == "mut" and t[1] == "insert" and t[2] == "previous_headers"]
        other = [t for t in p if t[0] == "mut" and t[2] == "previous_headers" and t[1] in ("get_mut", "entry", "remove", "clear")]
        ok_n += 1
        if not ins and not other and chunk.param_on_path(p, "continued_chunk") is True:
            # a continuation chunk repeats the header its message's first chunk stored (same message, same flags: serialize
            # passes them unchanged to every chunk of a message, checked below): leaving the remembered header alone is the same
            n_cont_skip += 1
            continue
        if len(ins) != 1:
            ok_h = False
            why_h.append("a path that emits a chunk %s" % ("does not replace the remembered header of the chunk stream (it is %s): the droppable flag of the packet just written is not remembered" % (
                "changed through " + ", ".join(sorted({t[1] for t in other})) if other else "left as it was") if not ins else "stores the remembered header %d times" % len(ins)))
            continue
        fields = ins[0][3][1].rstrip(")").split(", ")
        if not fields[-1].startswith("load(can_be_dropped"):
            ok_h = False
            why_h.append("the remembered header's can_be_dropped is %s" % fields[-1][:60])
    rep.check("C08.R2", "stored-flag-provenance", ok_h and ok_n >= 4, "every path that emits a chunk remembers its header with the caller's can_be_dropped flag (%d paths)" % ok_n,
              "the header remembered per chunk stream does not carry the caller's can_be_dropped flag on every path: %s" % "; ".join(sorted(set(why_h))), m.b["add_chunk"].span)
    se = m.b["serialize"]
    tr = [chunk.sig(p) for p in grammar.ok_paths(grammar.trace(env, se.key, "w"))]
    okp, np_, okarg, okbuf = True, 0, True, True
    for sp in tr:
        rets = [t for t in sp if t[0] == "returns" and t[1].startswith("Ok(Packet(")]
        if not rets:
            continue
        np_ += 1
        inner = rets[-1][1]
        if not inner.rstrip(")").endswith("load(can_be_dropped"):
            okp = False
        for t in sp:
            if t[0] == "call" and t[1].endswith("add_chunk"):
                if not (t[2] and t[2][-1] == "load(can_be_dropped)" and t[2][1] == "load(force_uncompressed)"):
                    okarg = False
    rep.check("C08.R2", "packet-flag-provenance", okp and okarg and np_ >= 1, "Packet.can_be_dropped and add_chunk's flags are serialize's own arguments (%d paths)" % np_,
              "Packet.can_be_dropped / the flags handed to add_chunk are not serialize's arguments", se.span)
    # ------------------------------------------------------------------ R3 one buffer
    it = env.ctx.interp(se.key)
    sinks = set()
    for bi, t in se.calls():
        if callee_path(t) == m.b["add_chunk"].key:
            S, args = args_at(env.ctx, se.key, bi)
            if S is not None:
                sinks.add(args[1])
    inner_ok = False
    for bi, t in se.calls():
        if callee_name(t) == "std::io::cursor::Cursor::into_inner":
            S, args = args_at(env.ctx, se.key, bi)
            if S is not None and sinks and all(isinstance(s, tuple) and s[0] == "ref" and S.read(s[1]) == args[0] for s in sinks):
                inner_ok = True
    rep.check("C08.R3", "one-buffer", len(sinks) == 1 and inner_ok, "every chunk of a message is written to the one cursor whose buffer becomes Packet.bytes",
              "the chunks of one message are not all written to the buffer that is returned as Packet.bytes (sinks: %d)" % len(sinks), se.span)
    # ------------------------------------------------------------------ R4: what the chunks around a dropped packet carry
    from ..framework import PrefixReport, wants
    if wants(rep, "C08.R4"):
        from . import C01
        C01.run(env, PrefixReport(rep, "C01.", "C08.R4.", only=("C01.R2", "C01.R3", "C01.R5")))
        from . import C07
        C07.run(env, PrefixReport(rep, "C07.", "C08.R4.", only=("C07.R5",)))
