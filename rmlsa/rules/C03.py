"""C03 - no network input can panic, overflow, hang or exhaust memory (DESIGN.md section 5, C03)."""
from .common import *
from . import loops


def run(env, rep):
    rep.explanation = (
        "R1: every panic-capable site (MIR Assert terminators for bounds/overflow/division, library calls with a "
        "documented panic precondition, explicit panic calls) in every function reachable from the six network entry "
        "points is discharged by the abstract interpreter (intervals, difference constraints, container lengths, "
        "callee post-conditions, caller-established entry states, private-field invariants); R2: every natural loop "
        "in those functions matches a mechanically checked progress idiom; R3: sizes passed to allocating calls are "
        "bounded by 16 MiB or by data already held.  Not decided: peak memory as a number, stack depth (C14).")
    rep.assumptions = ["A-MEM: no in-memory collection holds >= 2^32 elements / 2^63 bytes", "A-TIME: elapsed time < 2^53 ms",
                       "A-LIB: documented post-conditions of std / bytes / byteorder / hmac", "shared references do not mutate (no interior mutability in the two crates)"]
    entries = net_entries(env.prog, rep, "C03.R1")
    rep.floor("C03.R1.entries", "network entry points", len(entries), 6)
    bodies, n = panic_sites(env, rep, "C03.R1", entries, "NET")
    rep.floor("C03.R1", "panic-capable sites in NET-reachable functions", n, 60)
    rep.floor("C03.R1.functions", "functions reachable from the network entry points", len(bodies), 70)
    loops.loop_progress(env, rep, "C03.R2", bodies)
    loops.allocation_sizes(env, rep, "C03.R3", bodies)
    # R4: the cross-function argument behind the reviewed debug_assert sites of user_control (the decoder builds Some(timestamp) for
    # ping events, so the echoed value is Some) is a rule of C13 R2; it is checked here under this property's name
    from ..framework import PrefixReport, wants
    if wants(rep, "C03.R4"):
        from . import C13
        C13.run(env, PrefixReport(rep, "C13.R2", "C03.R4", only=("C13.R2",)))
