"""C15 - results do not depend on how the input is split (DESIGN.md section 5, C15)."""
import re
from .common import *
from . import loops, chunk
from .. import grammar
from ..grammar import fmt_tok
from ..loader import Place
from .chunk import sig
from ..interp import stable


def reads_before_write(body, field):
    """is there a path from the entry of `body` on which self.<field> (or a sub-field) is read before it is written in this function"""
    # per block: first access kind
    def touches(pl):
        p = pl["p"]
        return pl["l"] == 1 and len(p) >= 2 and p[0] == "*" and isinstance(p[1], dict) and p[1].get("n") == field

    def whole_write(pl):
        p = pl["p"]
        return pl["l"] == 1 and len(p) == 2 and p[0] == "*" and isinstance(p[1], dict) and p[1].get("n") == field

    def operands(rv):
        out = []
        for k in ("a", "b"):
            if k in rv and isinstance(rv[k], dict):
                for m in ("c", "m"):
                    if m in rv[k]:
                        out.append(rv[k][m])
        if "place" in rv:
            out.append(rv["place"])
        for o in rv.get("ops", []):
            for m in ("c", "m"):
                if m in o:
                    out.append(o[m])
        return out

    first = {}
    for bi in body.rpo:
        kind = None
        for st in body.blocks[bi]["stmts"]:
            if any(touches(pl) for pl in operands(st["rv"])):
                kind = "read"
                break
            if whole_write(st["place"]):
                kind = "write"
                break
            if touches(st["place"]):
                kind = "read"      # partial write of a sub-field keeps the rest: treat as a use of the old value
                break
        if kind is None:
            t = body.blocks[bi]["term"]
            if t["k"] == "call":
                for a in t["args"]:
                    for m in ("c", "m"):
                        if m in a and touches(a[m]):
                            kind = "read"
                if kind is None and whole_write(t["dest"]):
                    kind = "write"
            elif t["k"] == "switch":
                for m in ("c", "m"):
                    if m in t["discr"] and touches(t["discr"][m]):
                        kind = "read"
        first[bi] = kind
    # forward search from entry through blocks without access
    seen, stack = set(), [0]
    while stack:
        b = stack.pop()
        if b in seen:
            continue
        seen.add(b)
        if first.get(b) == "read":
            return True
        if first.get(b) == "write":
            continue
        stack.extend(body.succs[b])
    return False


SELF_LOAD = re.compile(r"load\(\*?load\(self\)\.([A-Za-z0-9_.]+?)(?:\.len)?\)")


def related(f, g):
    """is one field path a prefix of the other (the same storage overlaps)"""
    a, b = f.split("."), g.split(".")
    n = min(len(a), len(b))
    return a[:n] == b[:n]


def written_first_on_all_paths(paths, f):
    """on every path that does not end in an error, the first thing that happens to self.<f> is a store that covers it:
    the value it had at entry (left there by a suspended attempt) can never be observed"""
    def mentions(x):
        if isinstance(x, str):
            return any(related(f, g) for g in SELF_LOAD.findall(x))
        if isinstance(x, (tuple, list)):
            return any(mentions(y) for y in x)
        return False
    for p in paths:
        if p and p[-1] == ("end", "err"):
            continue
        verdict = None
        for t in p:
            if t[0] in ("end", "final", "probe"):
                continue
            if t[0] == "store":
                if mentions(t[2]):
                    verdict = False
                    break
                g = t[1]
                if not g.startswith("via:") and (g == f or f.startswith(g + ".")):
                    verdict = True
                    break
                continue
            if mentions(t[1:]):
                verdict = False
                break
        if verdict is False:
            return False
        if verdict is None and not (p and p[-1][0] == "end" and p[-1][1] == "err"):
            # never touched on a path that carries on: whatever the suspended attempt left stays visible later
            rets = [t for t in p if t[0] == "returns"]
            if not (rets and "NotEnoughBytes" in rets[-1][1]):
                return False
    return True


def suspend_paths(env, rep, rule, m):
    prog, ctx = env.prog, env.ctx
    gn = m.b["get_next"]
    pub_methods = [b for b in prog.bodies.values() if b.kind == "assoc" and b.impl and b.impl.get("trait") is None and b.impl["self_ty"] == gn.impl["self_ty"] and b.is_pub and b.key != gn.key]
    n_susp = 0
    for s, ck in sorted(m.stage_fn.items()):
        sb = prog.bodies[ck]
        rep.fn(sb.key)
        name = sb.pretty.split("::")[-1]
        all_paths = [sig(p) for p in grammar.trace(env, sb.key, "r").paths]
        for p in all_paths:
            rets = [t for t in p if t[0] == "returns"]
            if not rets or "NotEnoughBytes" not in rets[-1][1]:
                continue
            n_susp += 1
            takes = [t for t in p if t[0] == "take"]
            muts = [t for t in p if t[0] == "mut"]
            fin = dict([t for t in p if t[0] == "final"][-1][1]) if [t for t in p if t[0] == "final"] else {}
            stores = {t[1] for t in p if t[0] == "store"} | set(fin)
            problems = []
            if takes or any(t[2] == "buffer" for t in muts):
                problems.append("it has already removed bytes from the buffer (%s)" % ", ".join(sorted({fmt_tok(t) for t in takes})))
            if "current_stage" in stores:
                problems.append("it has already stored the next stage (on resumption the unfinished stage is skipped)")
            for t in muts:
                if t[2] != "buffer":
                    problems.append("it has already changed %s via %s" % (t[2], t[1]))
            for f in sorted(stores - {"current_stage"}):
                top = f.split(".")[0]
                if top == "buffer":
                    continue
                live = reads_before_write(sb, top) and not written_first_on_all_paths(all_paths, f)
                others = [b.pretty.split("::")[-1] for b in pub_methods if reads_before_write(b, top)]
                if live or others:
                    problems.append("it has already written %s, whose old value %s" % (f, "the same stage function reads when it is re-entered" if live else "is read by " + ", ".join(others)))
            rep.check(rule, "%s|suspend-no-effect" % name, not problems, "returning NotEnoughBytes leaves no observable effect",
                      "%s can return 'not enough bytes' although %s; when the call is repeated after more input arrived the result differs from delivering the bytes in one piece" % (
                          sb.pretty, "; ".join(sorted(set(problems)))), sb.span)
    rep.floor(rule, "suspend (NotEnoughBytes) paths of the stage functions", n_susp, 6)


def _only_from_get_next_message(b, u, t):
    """the switch of block u discriminates a local all of whose definitions are (the `?`-payload of) a get_next_message result"""
    op = t["discr"]
    pl = op.get("m") or op.get("c")
    if pl is None or pl.get("p"):
        return False
    d_local = pl["l"]
    src = None
    for st in b.blocks[u]["stmts"]:
        if st["place"]["l"] == d_local and not st["place"]["p"] and st["rv"]["k"] == "discr":
            src = st["rv"]["place"]["l"]
    if src is None:
        return False
    seen = set()

    def ok_local(L, depth=0):
        if depth > 8:
            return False
        if L in seen:
            return True
        seen.add(L)
        defs = 0
        for blk in b.blocks:
            if blk["cleanup"]:
                continue
            for st in blk["stmts"]:
                if st["place"]["l"] == L and not st["place"]["p"]:
                    defs += 1
                    rv = st["rv"]
                    if rv["k"] != "use":
                        return False
                    a = rv["a"]
                    p2 = a.get("m") or a.get("c")
                    if p2 is None or not ok_local(p2["l"], depth + 1):
                        return False
            tt = blk["term"]
            if tt["k"] == "call" and tt["dest"]["l"] == L and not tt["dest"]["p"]:
                defs += 1
                name = tt["callee"].get("pretty") or ""
                if name.endswith("get_next_message"):
                    continue
                if "Try" in (tt["callee"].get("orig_pretty") or name) and "branch" in name and tt["args"]:
                    a = tt["args"][0]
                    p2 = a.get("m") or a.get("c")
                    if p2 is None or not ok_local(p2["l"], depth + 1):
                        return False
                    continue
                return False
        return defs >= 1
    return ok_local(src)


def run(env, rep):
    prog, ctx = env.prog, env.ctx
    rep.explanation = (
        "R1: on every path of every deserializer stage function that returns 'not enough bytes' no byte is consumed, the stage is "
        "not stored, and any other field written is dead at stage entry (that stage function writes it before reading it on every "
        "path, the stage is unchanged so the same function runs next, and no other public method reads it); R2: get_next_message "
        "appends the caller's bytes to the buffer before the first stage runs and nothing else appends to it; R3: in both sessions "
        "the slice passed to get_next_message is the caller's bytes on the first call and provably empty on every later iteration.  "
        "R5: the driver loops run until the input is used up - get_next_message answers 'no message yet' only on a stage's report of a shortage, and the sessions leave their message loop only when get_next_message has nothing more (or with an error).  R4 (= C06 R4 and R2): no stage turns a shortage of bytes into an error - every error path is one of the two refusals that do not depend on how much input has arrived, and the basic-header forms wait for their 1/2/3 bytes.  "
        "Not decided: equality of outputs under two partitions as such.")
    m = chunk.ChunkModel(env, rep, "C15.anchors")
    if not m.ok:
        return
    gn = m.b["get_next"]
    suspend_paths(env, rep, "C15.R1", m)
    # ------------------------------------------------------------------ R2
    it = ctx.interp(gn.key)
    head = list(gn.loops)[0]
    app = []
    for bi, t in gn.calls():
        if callee_name(t) in ("bytes::bytes_mut::BytesMut::extend_from_slice", "bytes::buf::buf_mut::BufMut::put_slice", "bytes::bytes_mut::BytesMut::extend"):
            S, args = args_at(ctx, gn.key, bi)
            if S is None:
                continue
            tgt = it.target(args[0])
            if tgt[1] and tgt[1][-1][0] == "f" and tgt[1][-1][2] == "buffer":
                app.append((bi, is_param_load(args[1], 2) or (isinstance(args[1], tuple) and args[1][0] == "ref" and args[1][1][0][0] == "P" and is_param_load(args[1][1][0][1], 2))))
    rep.check("C15.R2", "append-before-parse", len(app) == 1 and app[0][1] and gn.dominates(app[0][0], head),
              "get_next_message appends its argument to the buffer once, before the stage loop",
              "get_next_message does not append exactly its argument to the buffer before parsing (appends: %s)" % app, gn.span)
    extra = []
    for s, ck in m.stage_fn.items():
        sb = prog.bodies[ck]
        for bi, t in sb.calls():
            if callee_name(t) in ("bytes::bytes_mut::BytesMut::extend_from_slice", "bytes::buf::buf_mut::BufMut::put_slice"):
                S, args = args_at(ctx, sb.key, bi)
                if S is None:
                    continue
                tgt = ctx.interp(sb.key).target(args[0])
                if tgt[1] and tgt[1][-1][0] == "f" and tgt[1][-1][2] == "buffer":
                    extra.append(sb.pretty)
    rep.check("C15.R2", "no-other-append", not extra, "no stage function puts bytes back into the input buffer", "%s append to the input buffer" % extra, gn.span)
    # ------------------------------------------------------------------ R3
    for which in ("server", "client"):
        hb = body_by_pretty(prog, "sessions::%s::%sSession::handle_input" % (which, which.capitalize()))
        if hb is None:
            rep.anchor_missing("C15.R3", "%s handle_input" % which)
            continue
        rep.fn(hb.key)
        found = False
        for head in sorted(hb.loops):
            r = loops.session_loop(env, hb, head)
            if r is None:
                continue
            found = True
            rep.check("C15.R3", "%s|single-feed" % which, r[0], r[1], "%s::handle_input: %s" % (which, r[1]), hb.blocks[head]["term"]["span"])
        if not found:
            rep.bad("C15.R3", "%s|single-feed" % which, "no loop around get_next_message found in %s handle_input" % which, hb.span)
    # ------------------------------------------------------------------ R5: the driver loops run until the input is used up
    # (a) the deserializer: get_next_message answers "no message yet" only when a stage reported a shortage of bytes - never on a test
    # of its own (an "empty buffer" fast path keeps the payload stage of a zero-length message from running; a "bytes awaited" gate
    # holds complete chunks back)
    from ..framework import wants as _wants
    if _wants(rep, "C15.R5"):
        gn = m.b["get_next"]
        stage_names = {prog.bodies[ck].pretty.split("::")[-1] for ck in m.stage_fn.values()}
        ex = grammar.Extractor(env, gn.key, "r")
        ex.all_local_calls = True
        ex.run()
        n5, bad5 = 0, []
        if ex.truncated:
            rep.cannot_analyse("C15.R5", "get_next_message", "too many paths in get_next_message", gn.span)
        for p in ex.paths:
            rets = [t for t in p if t[0] == "returns"]
            if not p or p[-1] != ("end", "ok") or not rets:
                continue
            whens = [t for t in p if t[0] == "when"]
            if not whens:
                continue
            last = whens[-1]
            n5 += 1
            by_stage = any(("::" + sn + ")") in last[1] or ("(" + sn + ")") in last[1] for sn in stage_names) and "call(" in last[1]
            by_message = "complete" in last[1] or "message" in last[1].lower() and "call(" not in last[1]
            if not (by_stage or by_message):
                bad5.append("a path returns after the decision [%s=%s], which is not the result of a stage" % (last[1][:100], last[2]))
        rep.check("C15.R5", "deserializer-loop-ends-only-on-a-stage-result", n5 >= 2 and not bad5,
                  "get_next_message returns only after a stage reported a shortage of bytes or completed a message (%d returning paths)" % n5,
                  "; ".join(sorted(set(bad5))[:2]) or "returning paths of get_next_message not found", gn.span)
        # (b) the sessions: the message loop of handle_input is left only when get_next_message has no further message, or by an error
        for which, ty in (("server", "sessions::server::ServerSession"), ("client", "sessions::client::ClientSession")):
            hb = body_by_pretty(prog, ty + "::handle_input")
            if hb is None:
                rep.anchor_missing("C15.R5", ty + "::handle_input")
                continue
            it = ctx.interp(hb.key)
            nx, badx = 0, []
            for head, blocks in hb.loops.items():
                if not any(callee_name(hb.blocks[bi]["term"]).endswith("get_next_message") for bi in blocks if hb.blocks[bi]["term"]["k"] == "call"):
                    continue
                for u in sorted(blocks):
                    t = hb.blocks[u]["term"]
                    outs = [v for v in hb.succs[u] if v not in blocks and not hb.blocks[v]["cleanup"]]
                    if not outs:
                        continue
                    nx += 1
                    desc = None
                    if t["k"] == "switch":
                        S = it.exit_state(u)
                        if S is not None:
                            it.cur = (u, len(hb.blocks[u]["stmts"]))
                            desc = stable(it.eval_op(S, t["discr"]))
                    ok = desc is not None and (re.match(r"^discr\(call\([^()]*\)\)$", desc) is not None or
                                               re.match(r"^discr\(call\([^()]*get_next_message\) as Ok\.0\)$", desc) is not None)
                    if not ok and t["k"] == "switch":
                        # the message may be held in a local that is assigned before the loop and again at its end: every value that
                        # reaches the scrutinised local must come from get_next_message
                        ok = _only_from_get_next_message(hb, u, t)
                    if not ok:
                        badx.append("the loop is left on %s" % (("the decision " + desc[:100]) if desc else "a " + t["k"]))
            rep.check("C15.R5", "%s-loop-ends-only-when-no-message-is-left" % which, nx >= 2 and not badx,
                      "%s handle_input leaves its message loop only when get_next_message has nothing more, or with an error (%d exits)" % (which, nx),
                      "%s: messages that are already buffered would stay in the deserializer until the next call (and for ever at the end of the stream)" % ("; ".join(sorted(set(badx))[:2]) or "message loop not found"), hb.span)
    # ------------------------------------------------------------------ R4: a shortage of bytes is never turned into an error
    from ..framework import PrefixReport, wants
    if wants(rep, "C15.R4"):
        from . import C06
        C06.run(env, PrefixReport(rep, "C06.", "C15.R4.", only=("C06.R4", "C06.R2")))
    if wants(rep, "C15.R6"):
        chunk.setter_applies_size(m, rep, "C15.R6")
