"""C07 - the serializer's output is a spec-conformant chunk stream (DESIGN.md section 5, C07)."""
import re
from .common import *
from . import chunk, facts
from .. import grammar
from ..grammar import fmt_tok
from ..interp import stable
from ..absint import State


def writer_masks(m):
    masks = {}
    for vi, vn in enumerate(m.variants):
        wf, _ = m.writer_fields(vi)
        if not wf:
            continue
        t = wf[0][1]
        if t[0] == "u8" and t[1] == "hole":
            mm = re.match(r"^\(\(load\(csid\) as u8\) BitOr (\d+)\)$", t[2])
            if mm:
                masks[vn] = int(mm.group(1))
            elif re.match(r"^\(load\(csid\) as u8\)$", t[2]):
                masks[vn] = 0
    return masks


def run(env, rep):
    rep.explanation = (
        "R1: the writer's per-format field list (helpers analysed under format = F) equals the RTMP 1.0 section 5.3.1 table, the "
        "format-bit masks equal the specification's and the reader's, a format-0 header carries the absolute timestamp and the "
        "compressed formats the delta; R2: the chunk stream ids the serializer can choose lie in [2,63], the range for which its "
        "one-byte basic header is the minimal legal encoding; R3: a compressed format is chosen only on paths that established the "
        "equalities the specification requires between the new header and the stored previous header of that chunk stream (or on "
        "continuation chunks); R4: the 24-bit field is capped at 0xFFFFFF and the extended field carries the uncapped value exactly "
        "when the field is >= 0xFFFFFF; R5: max_chunk_size is stored only after the SetChunkSize message carrying the same value was "
        "serialized under the old size; R7 (= the writer clauses of C01 R3): the continuation chunks of a message repeat the timestamp field "
        "(and therefore the extended timestamp) of the chunk that started it, and the header remembered per chunk stream is the one that was written; R8 (= C19 R1 for the serializer): the chunk size in force is always in [1, 2^31-1], the values a SetChunkSize message can announce - "
        "a size the announcement cannot carry would be announced as something else than what is used.  R9: every payload slice the splitting construct takes is at most max_chunk_size long (end <= start + max, or chunks(max)).  Not decided: parsing by an independent decoder.")
    spec = chunk.load_spec()
    m = chunk.ChunkModel(env, rep, "C07.anchors")
    if not m.ok:
        return
    prog, ctx = env.prog, env.ctx
    # ------------------------------------------------------------------ R1
    masks = writer_masks(m)
    fmt_no = {vn: int(k) for k, b in spec["format_bits"].items() for vn, mk in masks.items() if mk == b}
    rep.check("C07.R1", "format-bits", len(fmt_no) == 4 and sorted(fmt_no.values()) == [0, 1, 2, 3],
              "format bits written: %s" % masks, "the basic header's format bits are %s; the specification says %s" % (masks, spec["format_bits"]), m.b["add_chunk"].span)
    # the reader's table must be the same
    rbits = {vn: cls * 64 for vn, cls in chunk.reader_format_table(m).items()}
    rep.check("C07.R1", "format-bits:reader-agrees", rbits == masks, "reader and writer use the same format-bit table",
              "writer masks %s, reader masks %s" % (masks, rbits), m.b["get_format"].span)
    n = 0
    for vi, vn in enumerate(m.variants):
        k = fmt_no.get(vn)
        if k is None:
            continue
        wf, wext = m.writer_fields(vi)
        if wf is None:
            rep.cannot_analyse("C07.R1", "writer-layout:fmt%d" % k, "helpers have several unconditional shapes")
            continue
        got = []
        for h, t in wf[1:]:
            if t[0] == "bytes":
                continue
            role = t[2] if t[1] == "hole" else str(t[2])
            field = "timestamp" if "timestamp_field" in role else ("message_length" if "length" in role else ("message_type_id" if "type_id" in role else ("message_stream_id" if "stream_id" in role else role)))
            got.append([field, t[0]])
        want = [list(x) for x in spec["message_header"][str(k)]]
        n += 1
        rep.check("C07.R1", "writer-layout:fmt%d" % k, got == want and wf[-1][1][0] == "bytes",
                  "format %d: writes %s then payload" % (k, want), "format %d: the writer emits %s, the specification says %s" % (k, got, want), m.b["add_chunk"].span)
        # the call site passes the header's own fields to the helpers
    rep.floor("C07.R1", "header formats compared with the specification", n, 4)
    argbad = []
    for p in m.add_chunk_paths:
        calls = {t[1].split("::")[-1]: t for t in p if t[0] == "call"}
        lt = calls.get("add_message_length_and_type_id")
        ms = calls.get("add_message_stream_id")
        if lt and len(lt[2]) >= 3:
            if not ("data.len" in lt[2][1] and "type_id" in lt[2][2]):
                argbad.append("length/type helper receives (%s, %s)" % (lt[2][1][:60], lt[2][2][:60]))
        if ms and len(ms[2]) >= 2 and "message_stream_id" not in ms[2][1]:
            argbad.append("stream-id helper receives %s" % ms[2][1][:80])
    rep.check("C07.R1", "writer-args", not argbad, "helpers receive the message's length, type id and message stream id", "; ".join(sorted(set(argbad))[:2]), m.b["add_chunk"].span)
    chunk.timestamp_semantics(m, rep, "C07.R1")
    # ------------------------------------------------------------------ R2
    shape = ctx.ret_shape(m.b["csid_map"].key)
    d = shape["dom"] if shape else None
    lo, hi = spec["basic_header"]["one_byte"]["csid"]
    rep.check("C07.R2", "csid-range", d is not None and d.lo >= lo and d.hi <= hi, "chunk stream ids chosen lie in %s (allowed for the one-byte form: [%d,%d])" % (d, lo, hi),
              "get_csid_for_message_type can return %s; the one-byte basic header the serializer writes is only legal for csid in [%d,%d]" % (d, lo, hi), m.b["csid_map"].span)
    # ------------------------------------------------------------------ R3
    ghf = m.b["get_header_format"]
    req = spec["compression_requires_equal"]
    n3 = 0
    HDR = "chunk_io::chunk_header::ChunkHeader"
    all_req = sorted({f for fs in req.values() for f in fs})

    def eq_probe(it, S):
        # which fields of the header being written (its value when the function returns) the path's state proves equal to the
        # same field of the previous header: the comparison may be on the field itself or on the value just stored in it
        out = []
        # the header being written and the stored previous header: the first and the last parameter that refer to a ChunkHeader
        hp = [i for i in range(1, ghf.arg_count + 1) if "ChunkHeader" in str(ghf.locals[i]["t"].get("s", "")) and "Format" not in str(ghf.locals[i]["t"].get("s", ""))]
        ci, pi_ = (hp[0], hp[-1]) if len(hp) >= 2 else (1, 2)
        cur, prev = State().read((it.L(ci), ())), State().read((it.L(pi_), ()))
        # an integer parameter found equal to a field of the previous header stands for the value the caller puts into that field of
        # the header being written (the delta handed over separately): recorded as ("via-param", field, index), verified at the call site
        for i in range(1, ghf.arg_count + 1):
            if i in hp or ghf.locals[i]["t"].get("k") not in ("uint", "int"):
                continue
            pv = State().read((it.L(i), ()))
            for f in all_req:
                pr = facts.field_proj(prog, HDR, [f])
                if pr is not None and facts.equal(S, pv, S.read((("P", prev), pr))):
                    out.append("via-param:%s:%d" % (f, i))
        for f in all_req:
            pr = facts.field_proj(prog, HDR, [f])
            if pr is None:
                continue
            a = S.read((("P", cur), pr))
            b = S.read((("P", prev), pr))
            if facts.equal(S, a, b):
                out.append(f)
        return tuple(out)
    for p in grammar.trace(env, ghf.key, "r", probe=eq_probe, inline=False).paths:
        r = [t for t in p if t[0] == "returns"]
        if not r or not re.match(r"^ChunkHeaderFormat::(\w+)$", r[-1][1]):
            continue
        vn = r[-1][1].split("::")[1]
        k = fmt_no.get(vn)
        if not k:
            continue
        eq = set()
        for t in p:
            if t[0] == "probe":
                eq |= set(t[1])
        for t in p:
            if t[0] != "when":
                continue
            mm = re.match(r"^\(load\(\*?load\(current_header\)\.(\w+)\) (Ne|Eq) load\(\*?load\(previous_header\)\.(\w+)\)\)$", t[1])
            if mm and mm.group(1) == mm.group(3):
                equal = (mm.group(2) == "Ne" and t[2] == "0") or (mm.group(2) == "Eq" and t[2].startswith("other"))
                if equal:
                    eq.add(mm.group(1))
        # a field compared through a parameter counts if, at every call of get_header_format in add_chunk, the argument for that
        # parameter is the value the emitted (compressed) header carries in that field
        for e in sorted(x for x in eq if str(x).startswith("via-param:")):
            _, f, i = e.split(":")
            ok_site, n_site = True, 0
            fidx = {"timestamp_field": 2}.get(f)
            for ap in m.add_chunk_paths:
                calls = [t for t in ap if t[0] == "call" and t[1].endswith("get_header_format")]
                if not calls or fidx is None or len(calls[0][2]) < int(i):
                    continue
                arg = calls[0][2][int(i) - 1]
                emitted = [t for t in ap if t[0] == "call" and t[1].endswith("add_initial_timestamp") and len(t[2]) >= 2]
                if not emitted:
                    continue
                fields = emitted[0][2][1].lstrip("&").split(", ")
                fmt_ap = chunk.format_on_path(m, ap)
                if fmt_ap == m.variants[0] or len(fields) <= fidx:
                    continue
                n_site += 1
                if fields[fidx].strip("()") != arg.strip("()"):
                    ok_site = False
            if ok_site and n_site >= 1:
                eq.add(f)
        eq = {x for x in eq if not str(x).startswith("via-param:")}
        n3 += 1
        missing = sorted(set(req[str(k)]) - eq)
        rep.check("C07.R3", "compress:fmt%d" % k, not missing, "format %d is returned only after %s were found equal to the previous header" % (k, sorted(eq)),
                  "get_header_format can return %s (format %d) without having established equality of %s with the previous header: a receiver would reuse stale values" % (vn, k, missing), ghf.span)
    rep.floor("C07.R3", "compressed return paths of get_header_format", n3, 3)
    # in add_chunk a compressed constant format is used only for continuation chunks, and get_header_format compares with the stored header of this csid
    ok_cont, ok_prev = True, True
    why = []
    for p in m.add_chunk_paths:
        fmt = chunk.format_on_path(m, p)
        if fmt is not None and fmt_no.get(fmt, 0) != 0:
            cont = [t for t in p if t[0] == "when" and t[1] == "load(continued_chunk)"]
            gh = [t for t in p if t[0] == "call" and t[1].endswith("get_header_format")]
            if not gh and not (cont and cont[0][2].startswith("other") and fmt_no.get(fmt) == 3):
                ok_cont = False
                why.append("constant format %s is used on a path that is not a continuation chunk" % fmt)
        for t in p:
            if t[0] == "call" and t[1].endswith("get_header_format") and len(t[2]) >= 2:
                if not any(re.match(r"^&?\*?HashMap::get\(load\(\*?_?\.?.*previous_headers\),call\(serializer::get_csid_for_message_type\)\) as Some\.0$", a_) for a_ in t[2][1:]):
                    ok_prev = False
                    why.append("get_header_format compares with %s" % t[2][-1][:120])
    rep.check("C07.R3", "compress:only-vs-stored-header", ok_cont and ok_prev, "compressed formats come from the comparison with previous_headers[csid] or are Empty on continuation chunks",
              "; ".join(sorted(set(why))[:2]), m.b["add_chunk"].span)
    # ------------------------------------------------------------------ R4
    cap = spec["extended_timestamp"]["timestamp_field_cap"]
    for vi, vn in enumerate(m.variants):
        k = fmt_no.get(vn)
        wf, wext = m.writer_fields(vi)
        if wf is None or k is None:
            continue
        ts = [t for h, t in wf if t[0] == "u24be" and "timestamp_field" in (t[2] if t[1] == "hole" else "")]
        if ts:
            t = ts[0]
            rep.check("C07.R4", "cap:fmt%d" % k, t[4] <= cap and re.match(r"^min\(load\(\*?load\(header\)\.timestamp_field\),%d\)$" % cap, t[2]) is not None,
                      "format %d: the 24-bit field is min(timestamp_field, 0xFFFFFF)" % k, "format %d: the 24-bit timestamp is written as %s in [%s,%s]" % (k, t[2], t[3], t[4]), m.b["add_chunk"].span)
        if wext is not None:
            wsets = {chunk.interval_from_decisions(cond, "timestamp_field") for toks, cond in wext[1] if toks}
            roles = {tk[2] for toks, cond in wext[1] for tk in toks if tk[1] == "hole"}
            want_set = tuple(spec["extended_timestamp"]["present_when_field_in"])
            rep.check("C07.R4", "ext:fmt%d" % k, wsets == {want_set} and all(re.match(r"^load\(\*?load\(header\)\.timestamp_field\)$", r) for r in roles) and bool(roles),
                      "format %d: the extended field carries the uncapped timestamp field iff it is >= 0xFFFFFF" % k,
                      "format %d: extended timestamp %s written when the field is in %s; specification: the full value, when in %s" % (k, sorted(roles), sorted(wsets), list(want_set)), m.b["add_chunk"].span)
    # ------------------------------------------------------------------ R5
    sm = m.b["set_size"]
    tr = [chunk.sig(p) for p in grammar.ok_paths(grammar.trace(env, sm.key, "w"))]
    n5, ok5, why5 = 0, True, []
    for sp in tr:
        rets = [t for t in sp if t[0] == "returns"]
        st = [i for i, t in enumerate(sp) if t[0] == "store" and t[1] == "max_chunk_size"]
        if not st:
            if rets and rets[-1][1].startswith("Ok("):
                ok5 = False
                why5.append("an Ok path does not store the new size")
            continue
        n5 += 1
        ser = [i for i, t in enumerate(sp) if t[0] == "call" and t[1].endswith("ChunkSerializer::serialize")]
        msg = [t for t in sp if t[0] == "call" and t[1].endswith("from_rtmp_message")]
        val = sp[st[0]][2]
        if not ser or ser[0] > st[0]:
            ok5 = False
            why5.append("max_chunk_size is stored before the SetChunkSize message is serialized (the announcement itself would be split at the new size)")
        if not msg or ("RtmpMessage::SetChunkSize(%s)" % val) not in msg[0][2][0]:
            ok5 = False
            why5.append("the stored size %s is not the size announced in %s" % (val, msg[0][2][0][:80] if msg else "no message"))
    rep.check("C07.R5", "announce-before-use", ok5 and n5 >= 1, "max_chunk_size := new_size only after serialize(SetChunkSize{new_size}) succeeded (%d path(s))" % n5,
              "; ".join(sorted(set(why5))) or "no storing path", sm.span)
    # no other writer of the field
    others = []
    for b in prog.bodies.values():
        if b.kind == "promoted" or b.key == sm.key or is_derived(b):
            continue
        for blk in b.blocks:
            for st in blk["stmts"]:
                pp = st["place"]["p"]
                if pp and isinstance(pp[-1], dict) and pp[-1].get("n") == "max_chunk_size" and (pp[-1].get("a") or "").endswith("ChunkSerializer"):
                    others.append(b.pretty)
    rep.check("C07.R5", "single-writer", not others, "only set_max_chunk_size (and the constructor aggregate) writes ChunkSerializer::max_chunk_size",
              "ChunkSerializer::max_chunk_size is also assigned in %s" % sorted(set(others)), sm.span)
    # ------------------------------------------------------------------ R6 no empty chunk after the payload
    se = m.b["serialize"]
    it = ctx.interp(se.key)
    from .. import interp as I
    I.CUR_BODY[0] = se
    from ..models import range_bounds
    n6 = 0
    n9 = [0]
    for head, blocks in se.loops.items():
        for bi in sorted(blocks):
            t = se.blocks[bi]["term"]
            if t["k"] != "call" or "Index" not in (t["callee"].get("orig_pretty") or ""):
                continue
            S, args = args_at(ctx, se.key, bi)
            if S is None:
                continue
            ln = it.len_of_ref(S, args[0], it.op_type(t["args"][0]))
            rb = range_bounds(it, S, args[1], ln)
            if rb is None:
                continue
            n6 += 1
            from ..interp import stable
            # R9: the slice is at most one chunk size long (end <= start + max_chunk_size, the size stored in the serializer)
            selfv = State().read((it.L(1), ()))
            mxi = [i for i, f in enumerate(next(a for a in prog.adts.values() if a["pretty"] == "chunk_io::serializer::ChunkSerializer")["variants"][0]["fields"]) if f["name"] == "max_chunk_size"]
            if mxi:
                mx = S.read((("P", selfv), (("f", mxi[0], "max_chunk_size"),)))
                cands = [mx, ("cast", "usize", mx)]
                ok9 = any(S.prove_le(rb[1], ("bin", "Add", "usize", rb[0], c), 0) or S.prove_le(("bin", "Sub", "usize", rb[1], rb[0]), c, 0) for c in cands)
                n9[0] += 1
                rep.check("C07.R9", "slice-at-most-one-chunk-size", ok9, "every slice taken in the splitting loop is at most max_chunk_size long (end %s <= start + max)" % stable(rb[1])[:80],
                          "the splitting loop takes the slice %s .. %s, whose length is not provably <= the chunk size in force: a chunk would carry more payload than was announced" % (
                              stable(rb[0])[:80], stable(rb[1])[:120]), t["span"])
            rep.check("C07.R6", "slice-starts-inside-payload", S.prove_lt(rb[0], ln), "every slice taken in the splitting loop starts before the end of the payload (start %s < len)" % stable(rb[0]),
                      "the splitting loop can take a slice starting at %s, which is not provably < the payload length: a message whose length is an exact multiple of the chunk size "
                      "would get an extra, empty chunk after it is complete" % stable(rb[0]), t["span"])
    for o in it.walk():
        if o.kind == "precond:chunks":
            # <[T]>::chunks never yields an empty slice (std documentation)
            n6 += 1
            rep.ok("C07.R6", "slices-from-chunks", "the payload is split by <[T]>::chunks, which yields only non-empty slices", o.span)
            # <[T]>::chunks(n) yields slices of at most n elements (std documentation); n must be the chunk size in force
            n9[0] += 1
            rep.check("C07.R9", "chunks-of-chunk-size", "max_chunk_size" in o.what, "the payload is split by chunks(max_chunk_size)",
                      "the payload is split by chunks(n) with n = %s, which is not the chunk size in force" % o.what, o.span)
    rep.floor("C07.R6", "payload slices taken by the splitting construct", n6, 1)
    rep.floor("C07.R9", "payload slices whose length was compared with the chunk size", n9[0], 1)
    # ------------------------------------------------------------------ R7 continuation chunks repeat the first chunk's timestamp field
    from ..framework import PrefixReport, wants
    if wants(rep, "C07.R7"):
        from . import C01
        C01.run(env, PrefixReport(rep, "C01.R3", "C07.R7", only=("C01.R3",), keys=lambda k: not str(k).startswith("reader:")))
    # ------------------------------------------------------------------ R8 only announceable chunk sizes are ever in force
    if wants(rep, "C07.R8"):
        from . import C19
        C19.run(env, PrefixReport(rep, "C19.R1", "C07.R8", only=("C19.R1",), keys=lambda k: "ChunkSerializer" in str(k) or "anchor" in str(k)))
