"""C06 - the deserializer decodes every spec-conformant foreign chunk stream (DESIGN.md section 5, C06)."""
import re
from .common import *
from . import chunk
from .. import grammar
from ..grammar import fmt_tok


WIDTH = {"u8": 1, "i8": 1, "u16": 2, "i16": 2, "u24": 3, "i24": 3, "u32": 4, "i32": 4, "u64": 8, "i64": 8, "f64": 8, "f32": 4}


def field_index(prog, pretty, name):
    for k, a in prog.adts.items():
        if a["pretty"] == pretty:
            for i, f in enumerate(a["variants"][0]["fields"]):
                if f["name"] == name:
                    return i
    return None


def byte_weights(sv, depth=0):
    """sv as  sum(weight_i * byte_i) + constant  over the elements of one byte sequence: ({index: weight}, constant), or None"""
    from ..absint import const_val
    if depth > 12:
        return None
    c = const_val(sv)
    if isinstance(c, int) and not isinstance(c, bool):
        return ({}, c)
    if not isinstance(sv, tuple):
        return None
    h = sv[0]
    if h == "cast":
        return byte_weights(sv[2], depth + 1)
    if h == "elem" and len(sv) > 2 and isinstance(sv[2], int):
        return ({sv[2]: 1}, 0)
    if h == "proj" and sv[2] and sv[2][-1][0] == "ix" and len(sv[2][-1]) > 1 and isinstance(sv[2][-1][1], int):
        return ({sv[2][-1][1]: 1}, 0)
    if h == "bin" and sv[1] in ("Add", "AddW", "BitOr"):
        a, b = byte_weights(sv[3], depth + 1), byte_weights(sv[4], depth + 1)
        if a is None or b is None:
            return None
        if sv[1] == "BitOr":
            # an or of disjoint byte lanes is their sum: every weight a power of 256 and no index twice
            if set(a[0]) & set(b[0]) or a[1] or b[1] or any(w not in (1, 256, 65536, 16777216) for w in list(a[0].values()) + list(b[0].values())):
                return None
        w = dict(a[0])
        for k, v in b[0].items():
            w[k] = w.get(k, 0) + v
        return (w, a[1] + b[1])
    if h == "bin" and sv[1] in ("Mul", "MulW", "Shl", "ShlW"):
        a = byte_weights(sv[3], depth + 1)
        k = const_val(sv[4])
        if a is None or not isinstance(k, int):
            a2, k2 = byte_weights(sv[4], depth + 1), const_val(sv[3])
            if sv[1].startswith("Mul") and a2 is not None and isinstance(k2, int):
                a, k = a2, k2
            else:
                return None
        f = k if sv[1].startswith("Mul") else 2 ** k
        return ({i: v * f for i, v in a[0].items()}, a[1] * f)
    return None


def refusals(env, rep, m):
    """R4: classify every Err path of every stage function by what the path state proves about the input"""
    from ..absint import Dom
    prog = env.prog
    DES, HDR = "chunk_io::deserializer::ChunkDeserializer", "chunk_io::chunk_header::ChunkHeader"
    hi, pi, phi = field_index(prog, DES, "current_header"), field_index(prog, DES, "current_payload_data"), field_index(prog, DES, "previous_headers")
    mli = field_index(prog, HDR, "message_length")
    if None in (hi, pi, phi, mli):
        rep.anchor_missing("C06.R4", "fields current_header.message_length / current_payload_data / previous_headers of the deserializer")
        return

    def is_prev_headers(x):
        return isinstance(x, tuple) and x[0] == "ld" and x[1][1] and x[1][1][-1][0] == "f" and x[1][1][-1][2] == "previous_headers"

    def probe(it, S):
        selfv = S.read((it.L(1), ()))
        sloc = it.target(selfv)
        ml = S.read((sloc[0], sloc[1] + (("f", hi, "current_header"), ("f", mli, "message_length"))))
        pl = S.read((sloc[0], sloc[1] + (("f", pi, "current_payload_data"), ("len",))))
        shorter = bool(S.prove_le(("cast", "usize", ml), pl, -1) or S.prove_le(ml, pl, -1))
        no_prev = False
        for sv, d in S.doms.items():
            if isinstance(sv, tuple) and sv[0] == "discr" and isinstance(sv[1], tuple) and sv[1][0] == "model" and str(sv[1][1]).startswith("HashMap::") \
                    and contains(sv[1][2], is_prev_headers) and d.lo == d.hi == 0:
                no_prev = True
        return (shorter, no_prev)
    n_err, n_fn = 0, 0
    for s_, ck in sorted(m.stage_fn.items()):
        b = prog.bodies[ck]
        n_fn += 1
        ex = grammar.trace(env, ck, "r", probe=probe)
        if ex.truncated:
            rep.cannot_analyse("C06.R4", b.pretty, "too many paths in %s" % b.pretty, b.span)
            continue
        seen = set()
        for p in ex.paths:
            if not p or p[-1] != ("end", "err"):
                continue
            pr = [t for t in p if t[0] == "probe"]
            shorter, no_prev = pr[-1][1] if pr else (False, False)
            decisions = tuple(fmt_tok(t) for t in p if t[0] == "when")
            kind = "shorter-than-held" if shorter else "no-previous-header" if no_prev else "other"
            if kind == "other":
                # the error of a typed read from bytes that were just taken out of the buffer: cannot occur when the bytes taken
                # cover the widths read (reading from memory has no other failure)
                # (whatever follows that branch - the error travelling up through helpers - is on a path that cannot be taken)
                taken, need, known = 0, 0, True
                for t in p:
                    if t[0] == "take" and str(t[2]).isdigit():
                        taken, need = int(t[2]), 0       # typed reads are over the bytes of the latest take
                    elif t[0] == "read":
                        w = WIDTH.get(re.sub(r"(be|le)$", "", t[1]))
                        known = known and w is not None
                        need += w or 0
                    elif t[0] == "when" and re.match(r"^discr\(call\(ReadBytesExt::read_\w+\)\)$", t[1]) and t[2] == "1":
                        if known and 0 < need <= taken:
                            kind = "read-from-held-bytes"
                        break
            if (kind, decisions) in seen:
                continue
            seen.add((kind, decisions))
            n_err += 1
            fname = b.pretty.split("::")[-1]
            rep.check("C06.R4", "%s|refusal:%s" % (fname, kind), kind != "other",
                      "%s: error path %s" % (fname, {"shorter-than-held": "taken only when the announced message length is smaller than the bytes already held", "no-previous-header": "taken only when there is no previous header for the chunk stream of a compressed header",
                                                 "read-from-held-bytes": "is the failure branch of a typed read over bytes just taken from the buffer (%d byte(s) taken cover the read), which cannot fail" % (taken if kind == "read-from-held-bytes" else 0)}.get(kind, "")),
                      "%s returns an error on a path that is neither 'compressed header without a previous header on that chunk stream' nor 'announced length < bytes already held': "
                      "decisions on the path: %s (a conformant chunk, e.g. an empty message or the last byte of a message, would be refused)" % (fname, " ".join(decisions)[:400]), b.span)
    rep.floor("C06.R4", "stage functions whose refusals were classified", n_fn, 5)


from ..framework import wants


def run(env, rep):
    rep.explanation = (
        "R1: the reader's typed reads per header format (stage functions analysed under format = F, in the order of the extracted "
        "stage cycle) and the field each value is stored in equal the table written from RTMP 1.0 section 5.3.1, including the "
        "extended-timestamp predicate and the format-bit table; R2: the three basic-header forms consume 1/2/3 bytes and yield "
        "chunk stream ids in [2,63] / [64,319] / [64,65599]; R3: non-Full formats take their working header from the per-csid map "
        "under the csid just parsed, the finished chunk's header goes back under its own csid, format 0 sets and the other formats "
        "add the timestamp, and a type-3 header re-applies the delta only at the first chunk of a message; R4: the only inputs a stage "
        "of the reader refuses (returns Err for) are a compressed header on a chunk stream without a previous header and an announced "
        "message length smaller than the bytes already held for that message (strictly) - every other chunk, including an empty "
        "message, is accepted.  R6: each chunk's payload is min(bytes still missing of the message, chunk size) as section 5.3.1 prescribes, decided at the call that takes the bytes; R7: a stage answers 'not enough bytes' only while the buffer holds fewer bytes than that stage consumes, so a complete chunk (a zero-length message at the end of the input) is never held back waiting for the next one.  R5: a stage that suspends for lack of bytes leaves no observable effect (C15 R1), so a conformant stream decodes the same however it is fragmented.  Not decided: the decoding function over all legal encodings.")
    spec = chunk.load_spec()
    m = chunk.ChunkModel(env, rep, "C06.anchors")
    if not m.ok:
        return
    prog = env.prog
    # format bits of the reader
    gf = m.b["get_format"]
    bits = chunk.reader_format_table(m)       # variant -> top two bits of the first byte
    fmt_no = {}
    for k, b in spec["format_bits"].items():
        for vn, cls in bits.items():
            if cls * 64 == b:
                fmt_no[vn] = int(k)
    rep.check("C06.R1", "format-bits", sorted(fmt_no.values()) == [0, 1, 2, 3] and len(fmt_no) == 4,
              "the two top bits select the header format: %s" % {v: k for k, v in sorted(fmt_no.items(), key=lambda x: x[1])},
              "get_format maps the format bits as %s; the specification says bits 00/01/10/11 = formats 0..3" % bits, gf.span)
    m.fmt_no = fmt_no
    n = 0
    for vi, vn in enumerate(m.variants):
        k = fmt_no.get(vn)
        if k is None:
            continue
        rf, rext, rpay = m.reader_fields(vi)
        got = []
        for name, ks, fields in rf:
            for kind in ks:
                fl = [f for f in fields if f != "timestamp_field"] or fields
                got.append([fl[0] if fl else "?", kind])
        want = [[f if f != "timestamp" else "timestamp", kk] for f, kk in spec["message_header"][str(k)]]
        got_n = [["timestamp" if g[0] in ("timestamp", "timestamp_field") else g[0], g[1]] for g in got]
        n += 1
        rep.check("C06.R1", "reader-layout:fmt%d" % k, got_n == want and rpay is not None and rext is not None,
                  "format %d: reads %s" % (k, want), "format %d: the reader reads %s, the specification says %s" % (k, got_n, want), m.b["get_next"].span)
        if rext is not None:
            rsets = {chunk.interval_from_decisions(sh[1], "timestamp_field") for sh in rext[1] if m._kinds(sh[0])}
            rkinds = {tuple(m._kinds(sh[0])) for sh in rext[1] if m._kinds(sh[0])}
            want_set = tuple(spec["extended_timestamp"]["present_when_field_in"])
            rep.check("C06.R1", "reader-ext:fmt%d" % k, rsets == {want_set} and rkinds == {(spec["extended_timestamp"]["kind"],)},
                      "format %d: a u32be extended timestamp is read iff the 24-bit field is 0xFFFFFF" % k,
                      "format %d: the reader expects %s as extended timestamp when the field is in %s; specification: %s when in %s" % (k, sorted(rkinds), sorted(rsets), spec["extended_timestamp"]["kind"], list(want_set)), m.b["get_next"].span)
    rep.floor("C06.R1", "header formats compared with the specification", n, 4)
    # ------------------------------------------------------------------ R2 basic header forms
    gc = m.b["get_csid"]
    forms = []
    for p in grammar.reads(env, gc.key).paths:
        w = [t for t in p if t[0] == "when" and "BitAnd 63" in t[1]]
        r = [t for t in p if t[0] == "returns" and "Value(" in t[1]]
        if w and r:
            leaves = {name: (lo, hi, ex) for name, lo, hi, ex in r[-1][3]}
            forms.append((w[-1][2], leaves.get("val"), leaves.get("next_index")))
    want_forms = spec["basic_header"]
    ok_forms = []
    for nm, row in want_forms.items():
        low = row["low_bits"]
        hit = None
        for sel, val, ni in forms:
            if low[0] == low[1] and sel == str(low[0]):
                hit = (val, ni)
            if low[0] != low[1] and sel.startswith("other:"):
                hit = (val, ni)
        good = hit is not None and hit[0] is not None and hit[1] is not None and list(hit[0][:2]) == row["csid"] and hit[1][0] == hit[1][1] == row["bytes"]
        ok_forms.append(good)
        rep.check("C06.R2", "basic-header:%s" % nm, good, "%s form: %d byte(s), csid in %s" % (nm, row["bytes"], row["csid"]),
                  "%s basic header form: the reader consumes %s byte(s) and yields a csid in %s; specification: %s byte(s), csid in %s" % (
                      nm, hit and hit[1] and hit[1][:2], hit and hit[0] and list(hit[0][:2]), row["bytes"], row["csid"]), gc.span)
    rep.floor("C06.R2", "basic header forms", len(forms), 3)
    # ... and the two extended forms by the weights of their bytes: csid = 64 + b1 (+ 256 * b2), section 5.3.1.1 (little endian)
    def wprobe(it, S):
        v = S.read((it.L(0), ()))
        while isinstance(v, tuple) and v[0] == "upd":
            v = v[1]
        if isinstance(v, tuple) and v[0] == "agg" and v[3]:
            w = byte_weights(v[3][0])
            return ("weights", (tuple(sorted(w[0].items())), w[1]) if w is not None else None)
        return ("weights", None)
    exw = grammar.Extractor(env, gc.key, "r")
    exw.probe = wprobe
    exw.run()
    got_w = set()
    for p in exw.paths:
        r = [t for t in p if t[0] == "returns" and "Value(" in str(t[1])]
        pr = [t for t in p if t[0] == "probe"]
        sel = [t for t in p if t[0] == "when" and "BitAnd 63" in t[1]]
        if r and pr and sel and not sel[-1][2].startswith("other"):
            got_w.add(pr[-1][1][1])
    want_w = {(((1, 1),), 64), (((1, 1), (2, 256)), 64)}
    ext = got_w
    rep.check("C06.R2", "basic-header:byte-weights", ext == want_w,
              "the extended forms compute the chunk stream id as 64 + b1 and 64 + b1 + 256 * b2",
              "the extended basic-header forms compute the chunk stream id as %s (index: weight, constant); the specification says 64 + byte1 and 64 + byte1 + 256 * byte2 - "
              "with the bytes swapped, 3-byte ids alias 2-byte ids of other chunk streams" % sorted(ext, key=str), gc.span)
    # the consumed byte count of form_header is the form's size
    fh = prog.bodies[m.stage_fn[m.stage_start]]
    takes = set()
    for p in grammar.ok_paths(grammar.trace(env, fh.key, "r")):
        for t in p:
            if t[0] == "take" and t[1] == "buffer":
                takes.add(t[2])
    rep.check("C06.R2", "basic-header:consumed", takes and all("next_index" in x for x in takes), "form_header consumes exactly the basic header's size (%s)" % sorted(takes),
              "form_header removes %s from the buffer, not the size of the basic header form" % sorted(takes), fh.span)
    # ------------------------------------------------------------------ R3 inheritance
    tr = [chunk.sig(p) for p in grammar.ok_paths(grammar.trace(env, fh.key, "r"))]
    inherit_ok, fresh_ok, n_in = True, True, 0
    why = []
    for sp in tr:
        rets = [t for t in sp if t[0] == "returns"]
        if not rets or "Success" not in rets[-1][1]:
            continue
        st = [t for t in sp if t[0] == "store" and t[1] == "current_header"]
        fmts = chunk.discr_set_on_path(sp, "call(deserializer::get_format)", range(len(m.variants)))
        if not st or fmts is None:
            continue
        n_in += 1
        full_no = [vi for vi, vn in enumerate(m.variants) if fmt_no.get(vn) == 0]
        full = bool(full_no) and fmts == {full_no[0]}
        if not full and full_no and full_no[0] in fmts:
            inherit_ok = False
            why.append("a path sets the working header up without deciding whether the header is Full")
        val = st[-1][2]
        if full:
            if not re.match(r"^ChunkHeader\(call\(deserializer::get_csid\) as Value\.val, ", val):
                fresh_ok = False
                why.append("a Full header starts from %s" % val[:100])
        else:
            if not re.match(r"^HashMap::remove\(load\(\*?load\(self\)\.previous_headers\),call\(deserializer::get_csid\) as Value\.val\) as Some\.0$", val):
                inherit_ok = False
                why.append("a compressed header continues from %s instead of previous_headers[csid just parsed]" % val[:140])
    rep.check("C06.R3", "inherit:previous-header-by-csid", inherit_ok and fresh_ok and n_in >= 2,
              "compressed headers continue from previous_headers[csid], Full headers start fresh with the parsed csid", "; ".join(why) or "header set-up paths not found", fh.span)
    # the finished chunk's header is stored under its own csid
    pd = None
    for s, ck in m.stage_fn.items():
        if any(any("bytes(" in k for k in m._kinds(sh[0])) for (nm, shapes) in m.r_layout[0] if nm == prog.bodies[ck].pretty.split("::")[-1] for sh in shapes):
            pd = prog.bodies[ck]
    if pd is None:
        rep.anchor_missing("C06.R3", "payload stage of the deserializer")
    else:
        ins_ok, n_ins = True, 0
        for sp in [chunk.sig(p) for p in grammar.ok_paths(grammar.trace(env, pd.key, "r"))]:
            rets = [t for t in sp if t[0] == "returns"]
            if not rets or "Success" not in rets[-1][1]:
                continue
            ins = [t for t in sp if t[0] == "mut" and t[2] == "previous_headers" and t[1] == "insert"]
            n_ins += 1
            if len(ins) != 1 or not re.match(r"^load\(\*?load\(self\)\.current_header\.chunk_stream_id\)$", ins[0][3][0]) or not re.match(r"^load\(\*?load\(self\)\.current_header\)$", ins[0][3][1]):
                ins_ok = False
        rep.check("C06.R3", "inherit:store-under-own-csid", ins_ok and n_ins >= 2, "after each chunk the working header is stored under its own chunk stream id (%d paths)" % n_ins,
                  "the payload stage does not put the working header back into previous_headers under its own csid on every path", pd.span)
    refusals(env, rep, m)
    chunk.timestamp_semantics_reader_only(m, rep, "C06.R3")
    # type-3 delta only on the first chunk of a message
    ok3, n3 = False, 0
    empty_vi = [vi for vi, vn in enumerate(m.variants) if fmt_no.get(vn) == 3]
    if empty_vi:
        vi = empty_vi[0]
        first_stage = m.stage_order[1]
        applied, skipped = [], []
        for sp in m.r_paths.get((vi, first_stage), []):
            fin = [t for t in sp if t[0] == "final"]
            d = dict(fin[-1][1]) if fin else {}
            changed = any(k.startswith("current_header.timestamp") and k != "current_header.timestamp_field" for k in d)
            cond = [t for t in sp if t[0] == "when" and "current_payload_data.len" in t[1]]
            (applied if changed else skipped).append(cond)
        n3 = len(applied) + len(skipped)
        ok3 = len(applied) >= 1 and len(skipped) >= 1 and all(c and chunk.interval_from_decisions(c, "current_payload_data.len") == (0, 0) for c in applied) \
            and all(c and chunk.interval_from_decisions(c, "current_payload_data.len")[0] >= 1 for c in skipped)
    rep.check("C06.R3", "type3-delta-first-chunk-only", ok3, "a type-3 header adds the previous delta only when no payload of the message has been received yet",
              "the type-3 timestamp rule is not guarded by 'first chunk of the message' (payload received so far == 0): %d paths" % n3, m.b["get_next"].span)
    # ------------------------------------------------------------------ R7: a stage waits only for the bytes it consumes itself
    if wants(rep, "C06.R7"):
        chunk.suspend_gates(m, rep, "C06.R7")
    # ------------------------------------------------------------------ R6: payload bytes per chunk
    if wants(rep, "C06.R6"):
        chunk.payload_take(m, rep, "C06.R6")
    # ------------------------------------------------------------------ R5: a foreign stream may be split anywhere
    from ..framework import PrefixReport
    from . import C15
    if wants(rep, "C06.R5"):
        C15.run(env, PrefixReport(rep, "C15.", "C06.R5.", only=("C15.R1",)))
