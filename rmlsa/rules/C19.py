"""C19 - every configuration value is honoured or refused, never a hang (DESIGN.md section 5, C19)."""
from .common import *
from . import loops
from ..absint import *
from ..interp import stable

CHUNK_MIN, CHUNK_MAX = 1, 2147483647
MAX_MESSAGE = 16777215


from ..framework import wants


def run(env, rep):
    prog, ctx = env.prog, env.ctx
    rep.explanation = (
        "R1: the private field max_chunk_size of ChunkSerializer and of ChunkDeserializer has the interval invariant [1, 2^31-1]: "
        "the hull of the abstract value of every store in the crate (constructor aggregates included, no &mut of the field "
        "escapes), where a bound may come from the function's own guard or from a success post-condition of a callee; R2: the "
        "splitting loop of serialize is a counted loop whose stride (the chunk size) is >= 1 under that invariant, so it "
        "terminates; R3: the payload-length limit (<= 16 777 215) holds at every call that emits the length; R4: no public "
        "function of the API types has an undischarged panic site (C03 R1 with the whole public API as entry set); R6: an accepted chunk size takes effect only after it was announced under the old "
        "size (C07 R5) - otherwise small sizes are accepted but not honoured; R8 (= C03 R3 over the whole public API): no size passed to an allocating call exceeds one maximum-size message unless it is the length of data already held (an accepted chunk size of 2^31-1 must not reserve 2 GiB); R9 (= C16 R1): partial messages are kept per chunk stream also across type-0 continuation chunks, which the library's own forced messages produce for chunk sizes below their length.  R7 (= C04 R1-R2): AMF0 strings and property names whose byte length does not fit the u16 length field are refused, "
        "not truncated (every narrowing cast in the encoder has its source inside the target type), and the reserved name length 0 is not emitted.  Not decided: "
        "that every accepted value yields a working codec or session.")
    rep.assumptions = ["fields are only written by the crate that declares them (privacy is enforced by rustc)"]
    # ------------------------------------------------------------------ R1
    n = 0
    for ty in ("chunk_io::serializer::ChunkSerializer", "chunk_io::deserializer::ChunkDeserializer"):
        adt_key = None
        for k, a in prog.adts.items():
            if a["pretty"] == ty:
                adt_key = k
        if adt_key is None:
            rep.anchor_missing("C19.R1", "struct " + ty)
            continue
        fi = None
        for i, f in enumerate(prog.adts[adt_key]["variants"][0]["fields"]):
            if f["name"] == "max_chunk_size":
                fi = i
                vis = f["vis"]
        if fi is None:
            rep.anchor_missing("C19.R1", ty + "::max_chunk_size")
            continue
        cand = ctx.field_cands.get((adt_key, fi))
        n += 1
        if vis == "pub":
            rep.bad("C19.R1", "%s|private" % ty, "%s::max_chunk_size is public: any user could store a value that was never validated" % ty)
            continue
        if cand is None or cand["escaped"]:
            rep.bad("C19.R1", "%s|invariant" % ty, "a mutable reference to %s::max_chunk_size escapes; its stores cannot be enumerated" % ty)
            continue
        worst = None
        for dom, (fn, span) in cand["stores"]:
            ok = dom.lo >= CHUNK_MIN and dom.hi <= CHUNK_MAX
            rep.check("C19.R1", "%s|store-in:%s" % (ty, prog.bodies[fn].pretty), ok,
                      "stores a chunk size in %s" % dom,
                      "%s stores a chunk size in %s into %s::max_chunk_size; accepted values must lie in [%d, %d] (0 makes the splitting loop spin forever, a value above 2^31-1 cannot be announced)" % (
                          prog.bodies[fn].pretty, dom, ty.split("::")[-1], CHUNK_MIN, CHUNK_MAX), span)
        rep.rule_info.setdefault("C19.R1.stores:" + ty.split("::")[-1], {"count": len(cand["stores"]), "floor": 2, "what": "stores to max_chunk_size"})
        if len(cand["stores"]) < 2:
            rep.bad("C19.R1", "%s|anchor-floor" % ty, "fewer than two stores to %s::max_chunk_size were found (constructor and setter expected)" % ty)
    rep.floor("C19.R1", "chunk-size fields checked", n, 2)
    # ------------------------------------------------------------------ R2
    se = body_by_pretty(prog, "chunk_io::serializer::ChunkSerializer::serialize")
    if se is None:
        rep.anchor_missing("C19.R2", "ChunkSerializer::serialize")
    else:
        rep.fn(se.key)
        found = 0
        for head in sorted(se.loops):
            ok, why = loops.counted_stride_loop(env, se, head)
            if ok is None:
                continue
            found += 1
            rep.check("C19.R2", loops.loop_key(se, head), ok, "L4: " + why, "the payload-splitting loop may not terminate: " + why, se.blocks[head]["term"]["span"])
        # the split may instead be delegated to <[T]>::chunks(n), which needs n >= 1 (it panics on 0 - refused values must not get here)
        for o in ctx.interp(se.key).walk():
            if o.kind == "precond:chunks":
                found += 1
                rep.check("C19.R2", "serialize|" + o.what, o.proved, "the payload is split by chunks(n) with n >= 1: " + o.detail,
                          "the payload is split by chunks(n) and n may be 0 (%s): serialize would panic for a chunk size that was accepted" % o.detail, o.span)
        rep.floor("C19.R2", "payload splitting constructs in serialize (counted stride loop or chunks(n))", found, 1)
        # ------------------------------------------------------------------ R3
        it = ctx.interp(se.key)
        n3 = 0
        for bi, t in se.calls():
            p = callee_path(t)
            if p in prog.bodies and prog.bodies[p].pretty.endswith("::add_chunk"):
                S, args = args_at(ctx, se.key, bi)
                if S is None:
                    continue
                msg = None
                for ai, op in enumerate(t["args"]):
                    ty = it.op_type(op)
                    if ty.get("k") == "ref" and ty["to"].get("s", "").endswith("MessagePayload"):
                        msg = args[ai]
                if msg is None:
                    rep.cannot_analyse("C19.R3", "payload-limit-at-add_chunk", "add_chunk does not receive the message payload by reference", t["span"])
                    continue
                loc = it.target(msg)
                mp = None
                for k, a in prog.adts.items():
                    if a["pretty"].endswith("message_payload::MessagePayload"):
                        for i, f in enumerate(a["variants"][0]["fields"]):
                            if f["name"] == "data":
                                mp = i
                data_len = S.read((loc[0], loc[1] + (("f", mp, "data"), ("len",))))
                set_ty(data_len, "usize")
                d = S.dom(data_len)
                n3 += 1
                rep.check("C19.R3", "payload-limit-at-add_chunk", d.hi <= MAX_MESSAGE, "payload length is in %s at the call that emits it" % d,
                          "serialize reaches add_chunk with a payload length in %s: the 24-bit message-length field holds at most %d (the guard must refuse longer payloads with an error)" % (d, MAX_MESSAGE), t["span"])
        rep.floor("C19.R3", "calls of add_chunk in serialize", n3, 1)
    # ------------------------------------------------------------------ R4
    if wants(rep, "C19.R4") or wants(rep, "C19.R5"):
        entries = api_entries(prog, rep, "C19.R4")
        rep.floor("C19.R4.entries", "public functions of the API types", len(entries), 25)
        bodies, ns = panic_sites(env, rep, "C19.R4", entries, "API")
        rep.floor("C19.R4", "panic-capable sites in API-reachable functions", ns, 60)
        nl = loops.loop_progress(env, rep, "C19.R5", bodies)
    # ------------------------------------------------------------------ R6: an accepted chunk size is announced before it is used
    from ..framework import PrefixReport
    from . import C07
    if wants(rep, "C19.R6"):
        C07.run(env, PrefixReport(rep, "C07.", "C19.R6.", only=("C07.R5",)))
    # ------------------------------------------------------------------ R7: AMF0 length limits are refused, not truncated
    if wants(rep, "C19.R7"):
        from . import C04
        C04.run(env, PrefixReport(rep, "C04.", "C19.R7.", only=("C04.R1", "C04.R2")))
    # ------------------------------------------------------------------ R8: no accepted value sizes an allocation beyond one message
    if wants(rep, "C19.R8"):
        api_bodies = analysable_bodies(prog, reachable(prog, api_entries(prog, rep, "C19.R8")))
        loops.allocation_sizes(env, rep, "C19.R8", api_bodies)
    # ------------------------------------------------------------------ R9: small accepted chunk sizes still give a working codec
    if wants(rep, "C19.R9"):
        from . import C16
        C16.run(env, PrefixReport(rep, "C16.R1", "C19.R9", only=("C16.R1",)))
