"""C16 - interleaved chunk streams (DESIGN.md section 5, C16): between two chunks nothing that belongs to one
message may live outside a container keyed by chunk stream id."""
import re
from .common import *
from . import chunk
from .. import grammar
from ..grammar import fmt_tok
from .chunk import sig

CSID_PARSED = r"call\(deserializer::get_csid\) as Value\.val"
OWN_CSID = r"load\(\*?load\(self\)\.current_header\.chunk_stream_id\)"


from ..framework import wants


def run(env, rep):
    prog, ctx = env.prog, env.ctx
    rep.explanation = (
        "R1: (a) on every path of the payload stage to its Success return (the chunk boundary) every un-keyed field that can hold "
        "payload bytes has abstract length 0 - the bytes were delivered as a message or moved into a map under the working header's "
        "chunk stream id; (b) what is loaded into the working payload field when a chunk starts is the map entry removed under the "
        "chunk stream id parsed from this chunk's basic header, or a fresh empty buffer; R2: the working header comes from / goes "
        "back to previous_headers under the same discipline, and a delivered message's timestamp, type id and message stream id "
        "are copied from the working header on every delivering path.  R3: the chunk stream id parsed from the three basic-header forms is the specification's (C06 R2), so different chunk streams never share a key.  Not decided: correct reassembly under every interleaving "
        "(follows from R1 + R2 + C06 by an argument over chunk sequences, stated not mechanised).")
    m = chunk.ChunkModel(env, rep, "C16.anchors")
    if not m.ok:
        return
    # fields of the deserializer that can hold bytes
    byte_fields, keyed_fields = [], []
    for f in m.de_adt["variants"][0]["fields"]:
        ts = f["t"]["s"]
        if ts in ("bytes::BytesMut", "bytes::bytes_mut::BytesMut", "std::vec::Vec<u8>", "alloc::vec::Vec<u8>", "bytes::Bytes"):
            byte_fields.append(f["name"])
        if "HashMap<u32," in ts and ("BytesMut" in ts or "Vec<u8>" in ts):
            keyed_fields.append(f["name"])
    # the payload stage and the header stage
    pay = None
    for s, ck in m.stage_fn.items():
        nm = prog.bodies[ck].pretty.split("::")[-1]
        if any(nm == name and any(any("bytes(" in k for k in m._kinds(sh[0])) for sh in shapes) for name, shapes in m.r_layout[0]):
            pay = prog.bodies[ck]
    hdr = prog.bodies[m.stage_fn[m.stage_start]]
    if pay is None:
        rep.anchor_missing("C16.R1", "payload stage of the deserializer")
        return
    rep.fn(pay.key)
    rep.fn(hdr.key)
    ptr = [sig(p) for p in grammar.ok_paths(grammar.trace(env, pay.key, "r"))]
    # which un-keyed byte fields receive payload bytes?
    working = set()
    for p in ptr:
        for t in p:
            if t[0] == "mut" and t[1] in ("extend_from_slice", "put_slice", "extend", "append") and t[2] in byte_fields and t[2] != "buffer":
                working.add(t[2])
    rep.check("C16.R1", "working-fields", bool(working) or bool(keyed_fields), "payload bytes are accumulated in %s (keyed containers: %s)" % (sorted(working), keyed_fields),
              "no field of the deserializer receives the payload bytes", pay.span)
    n_b = 0
    for p in ptr:
        rets = [t for t in p if t[0] == "returns"]
        if not rets or "Success" not in rets[-1][1]:
            continue
        n_b += 1
        fin = dict([t for t in p if t[0] == "final"][-1][1])
        delivered = any(t[0] == "store" and t[1].endswith("current_payload.data") for t in p) or any(t[0] == "store" and "data" in t[1] and "into_bytes" in t[2] for t in p)
        for f in sorted(working):
            ln = fin.get(f + ".len")
            moved = [t for t in p if t[0] == "mut" and t[1] == "insert" and t[2] in keyed_fields and re.match("^" + OWN_CSID + "$", t[3][0]) and re.search(r"\." + f + r"\)", t[3][1])]
            ok = (ln == "0") and (delivered or len(moved) == 1)
            rep.check("C16.R1", "boundary:%s:%s" % (f, "delivered" if delivered else "partial"), ok,
                      "at the chunk boundary %s is empty (%s)" % (f, "message delivered" if delivered else "partial payload parked under the working header's csid"),
                      "at the end of a chunk %s %s: the next chunk may belong to another chunk stream, and its bytes would be appended to this message's bytes" % (
                          f, ("still holds the partial payload (length %s) in an un-keyed field" % ln) if ln != "0" else
                          "was emptied, but the partial payload was not stored under the working header's chunk stream id (%s)" % [t[3][0] for t in p if t[0] == "mut" and t[1] == "insert" and t[2] in keyed_fields]), pay.span)
    rep.floor("C16.R1", "Success paths of the payload stage", n_b, 2)
    # (b) what is loaded at chunk start
    htr = [sig(p) for p in grammar.ok_paths(grammar.trace(env, hdr.key, "r"))]
    n_h = 0
    for p in htr:
        rets = [t for t in p if t[0] == "returns"]
        if not rets or "Success" not in rets[-1][1]:
            continue
        n_h += 1
        for f in sorted(working):
            st = [t for t in p if t[0] == "store" and t[1] == f]
            rm = [t for t in p if t[0] == "mut" and t[1] == "remove" and t[2] in keyed_fields]
            fin = dict([t for t in p if t[0] == "final"][-1][1]) if [t for t in p if t[0] == "final"] else {}
            # the key: the csid parsed from this chunk, or the chunk_stream_id of the header taken from previous_headers under that
            # csid (headers are stored under their own csid: C06 R3, reused as R3 below)
            key_ok = len(rm) == 1 and (re.match("^&?" + CSID_PARSED + "$", rm[0][3][0]) is not None or
                                       re.match(r"^&?\*?HashMap::remove\(load\(\*?load\(self\)\.previous_headers\)," + CSID_PARSED + r"\) as Some\.0\.chunk_stream_id$", rm[0][3][0]) is not None)
            none_path = any(t[0] == "when" and t[1].startswith("discr(HashMap::remove(load(*load(self).%s)" % rm[0][2]) and t[2] == "0" for t in p) if rm else False
            val_ok = len(st) == 1 and ("unwrap_or" in st[0][2] or st[0][2].startswith("HashMap::remove(load(*load(self).%s)" % (rm[0][2] if rm else "?")) or
                                       (none_path and fin.get(f + ".len") == "0"))
            ok = key_ok and val_ok
            rep.check("C16.R1", "chunk-start:%s" % f, ok, "%s is loaded from the keyed map under the csid parsed from this chunk (or starts empty)" % f,
                      "when a chunk starts %s is %s (keyed removals: %s); it must continue the partial payload of the chunk stream id just parsed, or start empty" % (
                          f, [t[2][:80] for t in st] or "left as it is", [(t[2], t[3][0]) for t in rm]), hdr.span)
    rep.floor("C16.R1.start", "Success paths of the basic-header stage", n_h, 2)
    # (c) a keyed container is only ever touched one key at a time: anything that affects other chunk streams' entries
    # (clear, drain, retain, replacing the whole map) loses or mixes the partial messages of streams that are not being parsed
    ONE_KEY = {"insert", "remove", "get", "get_mut", "contains_key", "entry", "remove_entry", "get_or_insert_with"}
    des_ty = m.de_adt["pretty"]
    n_mut, bad_mut = 0, []
    for b in prog.bodies.values():
        if b.kind != "assoc" or not b.impl or b.impl.get("trait") is not None or b.impl["self_ty"] != des_ty or b.name == "new":
            continue
        ex = grammar.trace(env, b.key, "r")
        for p in ex.paths:
            for t in p:
                if t[0] == "mut" and t[2] in keyed_fields:
                    n_mut += 1
                    op = t[1].split("::")[-1]
                    if op not in ONE_KEY:
                        bad_mut.append("%s calls %s on %s" % (b.name, t[1], t[2]))
                    elif op in ("insert", "remove", "remove_entry", "get_mut", "entry") and t[3]:
                        # ... and that key is the chunk stream id of the chunk being parsed (parsed from its basic header, or the
                        # working header's own id), never a number taken from anywhere else - e.g. from a message body
                        k = str(t[3][0])
                        own = re.match("^&?\\*?" + CSID_PARSED + "$", k) or re.match("^&?\\*?" + OWN_CSID + "$", k) or \
                            re.match(r"^&?\*?HashMap::remove\(load\(\*?load\(self\)\.previous_headers\)," + CSID_PARSED + r"\) as Some\.0\.chunk_stream_id$", k) or \
                            re.match(r"^&?\*?load\(\w+\)$", k)       # a parameter of a helper: judged where the helper is followed in place
                        if not own:
                            bad_mut.append("%s calls %s on %s under the key %s, which is not the chunk stream id of the chunk being parsed" % (b.name, op, t[2], k[:80]))
                if t[0] == "store" and t[1] in keyed_fields:
                    bad_mut.append("%s replaces %s as a whole" % (b.name, t[1]))
    if keyed_fields:
        rep.check("C16.R1", "keyed-containers-touched-one-key-at-a-time", n_mut >= 2 and not bad_mut,
                  "%s is only accessed through single-key operations (%d call sites on the replayed paths)" % (keyed_fields, n_mut),
                  "a container holding partial messages per chunk stream is changed as a whole: %s (a chunk on one chunk stream must not affect what was received on the others)" % sorted(set(bad_mut)), pay.span)
    # ------------------------------------------------------------------ R2
    deliver_ok, n_d = True, 0
    why = []
    for p in ptr:
        if not any(t[0] == "store" and "current_payload.data" in t[1] for t in p):
            continue
        n_d += 1
        for fld, src in (("current_payload.timestamp", "current_header.timestamp"), ("current_payload.type_id", "current_header.message_type_id"),
                         ("current_payload.message_stream_id", "current_header.message_stream_id")):
            st = [t for t in p if t[0] == "store" and t[1] == fld]
            if not st or not re.match(r"^load\(\*?load\(self\)\.%s\)$" % re.escape(src), st[-1][2]):
                deliver_ok = False
                why.append("%s is %s" % (fld, st[-1][2][:60] if st else "not set on a delivering path"))
    rep.check("C16.R2", "delivered-fields-from-working-header", deliver_ok and n_d >= 1, "a delivered message takes timestamp, type id and message stream id from the working header (%d delivering paths)" % n_d,
              "a message can be delivered with header fields that were not copied from the header of the chunk that completes it: %s" % sorted(set(why)), pay.span)
    # ------------------------------------------------------------------ R4: a chunk carries min(missing, chunk size) bytes
    if wants(rep, "C16.R4"):
        chunk.payload_take(m, rep, "C16.R4")
    # ------------------------------------------------------------------ R6: a chunk-size change takes effect at once and in full
    if wants(rep, "C16.R6"):
        chunk.setter_applies_size(m, rep, "C16.R6")
    # ------------------------------------------------------------------ R5: "never failing" - what the reader refuses does not depend on other chunk streams
    if wants(rep, "C16.R5"):
        from ..framework import PrefixReport as _PR
        from . import C06 as _C06
        _C06.run(env, _PR(rep, "C06.R4", "C16.R5", only=("C06.R4",)))
    # ------------------------------------------------------------------ R3: distinct chunk streams get distinct keys
    from ..framework import PrefixReport
    from . import C06
    if wants(rep, "C16.R3"):
        C06.run(env, PrefixReport(rep, "C06.", "C16.R3.", only=("C06.R2", "C06.R3")))
