"""AMF0 codec rules shared by C04 (encode/decode agreement, length guards) and C12 (conformance to the
specification table /verif/spec/amf0.json) and C14 (bounded decoding)."""
import json, os, re
from .common import *
from .. import grammar
from ..grammar import fmt_path
from ..interp import stable
from ..absint import *

SPEC = os.path.join(os.path.dirname(os.path.dirname(os.path.dirname(os.path.abspath(__file__)))), "spec", "amf0.json")


def load_spec():
    with open(SPEC) as f:
        return json.load(f)


def is_io_plumbing(tok):
    """decision on the Result of a library I/O call or on an iterator step (not part of the wire grammar)"""
    if tok[0] != "when":
        return False
    d = tok[1]
    if not d.startswith("discr(call("):
        return False
    inner = d[len("discr(call("):]
    return inner.startswith(("WriteBytesExt::", "ReadBytesExt::", "Read::", "Write::", "{impl#")) or "::next" in inner.split(")")[0]


def is_comparison(desc):
    return any(op in desc for op in (" Eq ", " Ne ", " Gt ", " Lt ", " Ge ", " Le ")) or desc.startswith("discr(")


def canon_ident(x):
    """strip reference / dereference / load wrappers:  &*load(value) -> value"""
    prev = None
    while prev != x:
        prev = x
        x = x.lstrip("&*")
        m = re.match(r"^load\((.*)\)$", x)
        if m:
            x = m.group(1)
    return x


def canon_role(role):
    r = role
    m = re.match(r"^\((.*) as u(8|16|32|64|size)\)$", r)
    inner = m.group(1) if m else r
    m2 = re.match(r"^load\((.*)\.len\)$", inner)
    if m2:
        return "len:" + canon_ident(m2.group(1))
    return canon_ident(inner)


def canon_bytes(role):
    return canon_ident(role)


def norm_write_path(path, value_fn="serialize_value"):
    """canonical string of an encoder path: constants, typed holes with symbolic provenance, calls, loop mark"""
    out = []
    names = {}

    def sym(x):
        if x not in names:
            names[x] = "ABCDEFGH"[len(names)] if len(names) < 8 else "X%d" % len(names)
        return names[x]

    for t in path:
        k = t[0]
        if k in ("when", "end", "returns"):
            continue
        if k == "again":
            out.append("*")
        elif k == "loop-open":
            out.append("(")
        elif k == "loop-close":
            out.append(")*")
        elif k == "call":
            out.append("<VALUE>" if t[1].endswith(value_fn) else "<%s>" % t[1].split("::")[-1])
        elif k == "bytes":
            out.append("bytes:" + sym(canon_bytes(t[1])))
        elif k == "unmodelled":
            out.append("UNMODELLED:" + t[1])
        elif len(t) >= 3 and t[1] == "const":
            out.append("%s=%s" % (k, t[2]))
        elif len(t) >= 3 and t[1] == "hole":
            role = canon_role(t[2])
            if role.startswith("len:"):
                out.append("%s(len:%s)" % (k, sym(role[4:])))
            elif t[3] == 0 and t[4] == 1 and k == "u8":
                out.append("%s(bool:%s)" % (k, sym(role)))
            else:
                out.append("%s(%s)" % (k, sym(role)))
    return " ".join(out)


_CONST_TOK = re.compile(r"^(u16|u24|u32|u64|i16|i32|i64)(be|le)=(-?\d+)$")


def flatten_consts(path_str):
    """constants of multi-byte fields as their bytes, so that  u16be=0  and  u8=0 u8=0  are the same output"""
    out = []
    for tok in path_str.split(" "):
        m = _CONST_TOK.match(tok)
        if not m:
            out.append(tok)
            continue
        n = {"u16": 2, "i16": 2, "u24": 3, "u32": 4, "i32": 4, "u64": 8, "i64": 8}[m.group(1)]
        v = int(m.group(3)) % (1 << (8 * n))
        bs = [(v >> (8 * i)) & 0xFF for i in range(n)]
        if m.group(2) == "be":
            bs.reverse()
        out.extend("u8=%d" % b for b in bs)
    return " ".join(out)


def canon_loops(paths):
    paths = [flatten_consts(p) for p in paths]
    return _canon_loops(paths)


def _canon_loops(paths):
    """one canonical form for repetition: the pair of alternatives  P S  (no iteration) and  P B * S  (the loop body once, then the
    back edge) becomes  P ( B )* S, which is also what an internal iteration (for_each with a closure) is printed as"""
    paths = sorted(set(paths))
    out = set(paths)
    for lp in paths:
        toks = lp.split(" ")
        if "*" not in toks:
            continue
        star = toks.index("*")
        for zp in paths:
            z = zp.split(" ") if zp else []
            if "*" in z or "(" in z:
                continue
            # z = prefix + suffix with lp = prefix + body + * + suffix
            suffix = toks[star + 1:]
            if len(z) < len(suffix) or (suffix and z[len(z) - len(suffix):] != suffix):
                continue
            prefix = z[:len(z) - len(suffix)]
            if toks[:len(prefix)] != prefix or len(prefix) >= star:
                continue
            body = toks[len(prefix):star]
            out.discard(lp)
            out.discard(zp)
            out.add(" ".join(prefix + ["("] + body + [")*"] + suffix))
            break
    # an alternative that is the loop form with the body unrolled once or twice adds nothing
    for lp in list(out):
        toks = lp.split(" ")
        if "(" in toks and ")*" in toks:
            a, b = toks.index("("), toks.index(")*")
            prefix, body, suffix = toks[:a], toks[a + 1:b], toks[b + 1:]
            for k in (1, 2):
                out.discard(" ".join(prefix + body * k + suffix))
    return sorted(out)


def value_adt(prog):
    for k, a in prog.adts.items():
        if a["pretty"] == "Amf0Value" and k.startswith("rml_amf0"):
            return k, a
    return None, None


def expand_calls(env, path, value_fn="serialize_value", depth=0, stack=()):
    """the alternatives of an encoder path with every call to a local helper that writes to the sink replaced by the helper's
    own Ok paths (recursively): the grammar of a value type is then the same whether its bytes are written in the dispatch arm,
    in one function per type or through further helpers.  The recursive call for a nested value stays a token."""
    prog = env.prog
    alts = [[]]
    for t in path:
        subs = None
        if t[0] == "call" and not t[1].endswith(value_fn) and depth < 3 and t[1] not in stack:
            cb = body_by_pretty(prog, t[1])
            if cb is not None:
                ex = grammar.Extractor(env, cb.key, "w", None, None)
                # small loop-free helpers of the helper are followed in place, so a length computed by one helper and written by
                # another keeps its provenance
                ex.inline = True
                ex.inline_depth = 3
                ex.inline_pred = lambda cb2, t2: not cb2.pretty.endswith(value_fn)
                ex.run()
                followed = {env.prog.bodies[k].pretty for k in ex.entered}
                ex.paths = [tuple(x for x in p if not (x[0] == "call" and x[1] in followed)) for p in ex.paths]
                subs = []
                for sp in grammar.ok_paths(ex):
                    inner = [x for x in sp if x[0] not in ("end", "returns", "final", "probe")]
                    subs.extend(expand_calls(env, inner, value_fn, depth + 1, stack + (t[1],)))
                if ex.unmodelled:
                    subs = [[("unmodelled", ex.unmodelled[0][0])]]
        if subs:
            alts = [a + s_ for a in alts for s_ in subs][:128]
        else:
            alts = [a + [t] for a in alts]
    return alts


def variant_encoders(env, rep, rule):
    """{variant name: (expanded Ok paths of the encoder for that variant, body to report against, unmodelled writes)}: the
    dispatch function is replayed once per variant of its argument"""
    prog = env.prog
    sv = body_by_pretty(prog, "serialization::serialize_value")
    if sv is None:
        rep.anchor_missing(rule, "rml_amf0 serialization::serialize_value (variant dispatch of the encoder)")
        return None, None
    ak, adt = value_adt(prog)
    if adt is None:
        rep.anchor_missing(rule, "enum rml_amf0::Amf0Value")
        return None, None
    rep.fn(sv.key)
    vparam = None
    for i in range(1, sv.arg_count + 1):
        t = sv.locals[i]["t"]
        if t.get("k") == "ref" and t["to"].get("adt") == ak:
            vparam = i
    if vparam is None:
        rep.anchor_missing(rule, "the Amf0Value parameter of serialize_value")
        return None, None
    out = {}
    for vi, v in enumerate(adt["variants"]):
        base = env.ctx.entries.get(sv.key)
        E = base.copy() if base is not None else State()
        pv = ("ld", (("L", vparam, sv.key), ()), "entry")
        E.doms[("discr", ("ld", (("P", pv), ()), "entry"))] = Dom(vi, vi)
        ex = grammar.Extractor(env, sv.key, "w", E, None)
        ex.inline = True
        ex.inline_depth = 3
        ex.inline_pred = lambda cb2, t2: not cb2.pretty.endswith("serialize_value")
        ex.run()
        followed = {prog.bodies[k].pretty for k in ex.entered}
        paths = []
        span_body = sv
        for k in sorted(ex.entered):
            if prog.bodies[k].kind != "closure":
                span_body = prog.bodies[k]
                rep.fn(k)
                break
        ex.paths = [tuple(x for x in p if not (x[0] == "call" and x[1] in followed)) for p in ex.paths]
        for p in grammar.ok_paths(ex):
            inner = [x for x in p if x[0] not in ("end", "final", "probe")]
            calls = [t for t in inner if t[0] == "call" and not t[1].endswith("serialize_value")]
            if len(calls) == 1 and body_by_pretty(prog, calls[0][1]) is not None:
                span_body = body_by_pretty(prog, calls[0][1])
                rep.fn(span_body.key)
            paths.extend(expand_calls(env, inner))
        unm = [t[1] for p in paths for t in p if t[0] == "unmodelled"] + [u[0] for u in ex.unmodelled]
        out[v["name"]] = (paths, span_body, unm)
    return out, adt


def check_encoder_grammar(env, rep, rule, spec):
    prog = env.prog
    table, adt = variant_encoders(env, rep, rule)
    if table is None:
        return
    n = 0
    for name, enc in spec["encodings"].items():
        variant = enc["variant"]
        paths, b, unm = table.get(variant, ([], None, []))
        if not paths:
            rep.bad(rule, "encoder:%s" % variant, "the encoder has no path that writes an Amf0Value::%s" % variant)
            continue
        got = canon_loops({norm_write_path(p) for p in paths})
        want = canon_loops(enc["alternatives"])
        n += 1
        fn = b.pretty.split("::")[-1]
        if unm:
            rep.cannot_analyse(rule, "encoder:%s" % variant, "%s writes to the output through %s, which the grammar extractor does not model" % (fn, unm[0]), b.span)
            continue
        rep.check(rule, "encoder:%s" % variant, got == want,
                  "%s emits exactly %s" % (fn, want),
                  "%s emits %s but the AMF0 specification requires %s for %s" % (fn, got, want, name), b.span,
                  detail={"extracted": got, "specified": want})
    # variants of the value type the specification table does not cover
    for v in adt["variants"]:
        if v["name"] not in {e["variant"] for e in spec["encodings"].values()}:
            rep.bad(rule, "encoder:%s" % v["name"], "Amf0Value::%s has no row in the specification table" % v["name"])
    rep.floor(rule, "AMF0 value variants with an encoder grammar", n, 7)


# ---------------------------------------------------------------------------------------------- decoder
def marker_dispatch(env, rep, rule):
    """marker byte -> (parser function | returned value) from read_next_value"""
    prog = env.prog
    rnv = body_by_pretty(prog, "deserialization::read_next_value")
    if rnv is None:
        rep.anchor_missing(rule, "rml_amf0 deserialization::read_next_value (marker dispatch of the decoder)")
        return None
    rep.fn(rnv.key)
    # helpers that do not touch the input (a depth check, ...) are followed in place; everything that reads stays a call
    def reads_input(cb):
        for i in range(1, cb.arg_count + 1):
            t = cb.locals[i]["t"]
            while t.get("k") in ("ref", "ptr"):
                t = t["to"]
            if t.get("k") == "param" or "Cursor<" in t.get("s", "") or t.get("s") == "dyn std::io::Read":
                return True
        return False
    ex = grammar.reads(env, rnv.key, all_local_calls=True, inline=True,
                       inline_pred=lambda cb, t: not reads_input(cb) and "Amf0Value" not in cb.locals[0]["t"].get("s", ""))
    table = {}
    for p in ex.paths:
        sig = [t for t in p if not is_io_plumbing(t)]
        # the marker decision is the last integer-valued decision before the first call / returns
        plain = None
        cmpd = None
        target = None
        for t in sig:
            if t[0] == "when":
                if is_comparison(t[1]):
                    cmpd = t
                else:
                    plain = t
            elif t[0] == "call":
                target = ("call", t[1])
                break
            elif t[0] == "returns":
                target = ("returns", t[1])
                break
        marker = plain if plain is not None else cmpd
        if marker is None or target is None:
            continue
        table.setdefault((marker[1], marker[2]), set()).add(target)
    return table, ex


def direct_variant(rendered):
    """X for a rendered return value  Ok(Some(Amf0Value::X)) / Ok(Amf0Value::X)  of a body-less variant, else None"""
    m = re.match(r"^Ok\((?:Some\()?Amf0Value::(\w+)\)?\)$", rendered)
    return m.group(1) if m else None


def norm_read_path(path, structure_only=False):
    out = []
    last_read_site = None
    for t in path:
        k = t[0]
        if k == "read":
            out.append(t[1])
            last_read_site = t[2]
        elif k == "read_exact":
            out.append("exact:prev" if ("call(ReadBytesExt::read_u16) as Ok.0" in t[1] or "call(ReadBytesExt::read_u32) as Ok.0" in t[1] or "call(ReadBytesExt::read_u8) as Ok.0" in t[1]) else "exact:" + t[1])
        elif k == "read_upto":
            out.append("upto:" + t[1])
        elif k == "call":
            nm = t[1].split("::")[-1]
            out.append("<VALUE>" if nm == "read_next_value" else "<%s>" % nm)
        elif k == "again":
            out.append("*")
            break       # everything after the first loop mark repeats the body
        elif k == "when" and not is_io_plumbing(t):
            if structure_only:
                continue
            if t[1].startswith("discr(call(deserialization::"):
                continue
            out.append("[%s=%s]" % (re.sub(r"call\(ReadBytesExt::read_(u\d+)\) as Ok\.0", r"\1", t[1]), t[2]))
    return " ".join(out)


def returns_of(path):
    return [t for t in path if t[0] == "returns"]


DEC_EXPECT = {
    # function -> allowed canonical Ok-path read sequences, and which must be present
    "parse_number": (["f64be"], ["f64be"]),
    "parse_bool": (["u8", "u8 [(u8 Ne 0)=0]", "u8 [(u8 Ne 0)=other:0]", "u8 [(u8 Eq 0)=0]", "u8 [(u8 Eq 0)=other:0]", "u8 [u8=0]", "u8 [u8=other:0]"], None),
    "parse_string": (["u16be exact:prev"], ["u16be exact:prev"]),
    "parse_null": ([""], [""]),
    "parse_undefined": ([""], [""]),
    "parse_ecma_array": (["u32be <parse_object>"], ["u32be <parse_object>"]),
    "parse_object": (["<parse_object_property>", "<parse_object_property> *"], ["<parse_object_property>", "<parse_object_property> *"]),
    "parse_strict_array": (["u32be ( <VALUE> )*"], ["u32be ( <VALUE> )*"]),
}


PARSER_INLINE = None


def check_decoder(env, rep, rule, spec):
    prog = env.prog
    res = marker_dispatch(env, rep, rule)
    if res is None:
        return
    table, ex = res
    # ---- marker table
    by_marker = {}
    default = None
    end_marker = None
    for (desc, val), targets in table.items():
        if val.startswith("other:"):
            listed = [int(x) for x in val[6:].split(",") if x.lstrip("-").isdigit()]
            if len(listed) > 2:
                default = targets
            elif any(t[0] == "returns" and "Ok(None)" in t[1] for t in targets) and " Eq " in desc and "Read::read" not in desc:
                m = re.search(r" Eq (\d+)\)", desc)
                if m:
                    end_marker = int(m.group(1))
            continue
        for x in val.split(","):
            if x.lstrip("-").isdigit():
                k = int(x)
                if is_comparison(desc):
                    continue
                if targets and all(t[0] == "returns" and t[1] == "Ok(None)" for t in targets):
                    end_marker = k          # an arm of the marker dispatch that ends the value list
                    continue
                by_marker.setdefault(k, set()).update(targets)
    want = spec["decodings"]
    n = 0
    yields = {}
    parser_units = {t[1] for targets in table.values() for t in targets if t[0] == "call"} | {"deserialization::read_next_value", "deserialization::parse_object_property", "deserialization::parse_object"}
    global PARSER_INLINE
    PARSER_INLINE = lambda cb, t: cb.pretty not in parser_units
    for mk, row in sorted(want.items(), key=lambda x: int(x[0])):
        k = int(mk)
        got = by_marker.get(k)
        n += 1
        if not got or len(got) != 1:
            rep.bad(rule, "decoder:marker:%d" % k, "marker %d (%s) is not dispatched to exactly one parser (found %s)" % (k, row["yields"], sorted(got) if got else "nothing"))
            continue
        (kind, target), = got
        if kind != "call":
            # a value type without a body may be built in the dispatch arm itself: nothing is read, the variant is returned
            dv = direct_variant(target)
            rep.check(rule, "decoder:marker:%d" % k, dv == row["yields"] and not row["reads"],
                      "marker %d -> %s built in place (no body bytes)" % (k, dv),
                      "marker %d returns %s directly; the specification says it is a %s with body %s" % (k, target, row["yields"], row["reads"]))
            continue
        b = body_by_pretty(prog, target)
        rep.fn(b.key)
        yields[k] = b
        rep.ok(rule, "decoder:marker:%d" % k, "marker %d -> %s" % (k, target.split("::")[-1]), b.span)
    extra = sorted(set(by_marker) - {int(x) for x in want})
    for k in extra:
        rep.bad(rule, "decoder:marker:%d" % k, "the decoder accepts marker %d, which the specification table does not define as supported" % k)
    rep.check(rule, "decoder:marker:default", default is not None and all(t[0] == "returns" and t[1].startswith("Err(") for t in default),
              "every other marker is reported as an error (%s)" % (sorted(default)[0][1] if default else "-"),
              "unsupported markers are not reported as an error: %s" % (sorted(default) if default else "no default arm found"))
    rep.check(rule, "decoder:marker:object-end", end_marker == spec["markers"]["ObjectEnd"],
              "marker %s ends the value list" % end_marker, "object-end marker handled as %s, specification says %s" % (end_marker, spec["markers"]["ObjectEnd"]))
    rep.floor(rule + ".markers", "marker rows of the decoder dispatch", len(by_marker), 8)
    # ---- per parser: typed reads and constructed variant
    for k, b in sorted(yields.items()):
        row = want[str(k)]
        name = b.pretty.split("::")[-1]
        exr = grammar.reads(env, b.key, all_local_calls=True, inline=True, inline_pred=PARSER_INLINE)
        oks = grammar.ok_paths(exr)
        got = sorted({norm_read_path(p) for p in oks}) if name == "parse_bool" else canon_loops({norm_read_path(p, structure_only=True) for p in oks})
        allowed, required = DEC_EXPECT.get(name, (None, None))
        if allowed is None:
            # unknown parser name: compare against the specification row directly
            allowed = [" ".join(row["reads"])]
            required = allowed
        good = all(g in allowed for g in got) and (required is None or all(r in got for r in required))
        rep.check(rule, "decoder:reads:%d" % k, good, "%s reads %s" % (name, got),
                  "%s reads %s; the specification requires %s for marker %d" % (name, got, row["reads"], k), b.span,
                  detail={"extracted": got, "allowed": allowed})
        # constructed variant
        cons = set()
        for p in oks:
            for t in returns_of(p):
                cons.add(t[1])
        if name in ("parse_ecma_array",):
            continue
        wantv = "Amf0Value::%s" % row["yields"]
        okc = bool(cons) and all(("Ok(%s" % wantv) in c or c.startswith("Ok(%s" % wantv) for c in cons)
        rep.check(rule, "decoder:yields:%d" % k, okc, "%s constructs %s" % (name, wantv),
                  "%s constructs %s, expected %s for marker %d" % (name, sorted(cons), wantv, k), b.span)
    # ---- ECMA array delegates to the object grammar
    if 8 in yields:
        b = yields[8]
        calls = {callee_name(t) for _, t in b.calls()}
        oks = grammar.ok_paths(grammar.reads(env, b.key, all_local_calls=True, inline=True, inline_pred=PARSER_INLINE))
        rep.check(rule, "decoder:ecma-array", any("<parse_object>" in norm_read_path(p) for p in oks),
                  "ECMA array = u32be count then the object grammar", "ECMA array parser does not continue with the object grammar", b.span)
    # ---- Boolean interpretation (AMF0 2.3: zero is false, everything else is true)
    if 1 in yields:
        b = yields[1]
        exr = grammar.reads(env, b.key)
        true_set, false_set = None, None
        for p in grammar.ok_paths(exr):
            for t in returns_of(p):
                if not t[2]:
                    continue
                _, lo, hi, excl = t[2][0]
                RD = r"(?:#1|call\(ReadBytesExt::read_u8\) as Ok\.0)"
                if re.search(r"Boolean\(\(" + RD + r" Ne 0\)\)", t[1]) or re.search(r"Boolean\(!\(" + RD + r" Eq 0\)\)", t[1]) or re.search(r"Boolean\(\(" + RD + r" Gt 0\)\)", t[1]):
                    # computed without a branch: true exactly for the non-zero bytes
                    true_set, false_set = (1, 255, ()), (0, 0, ())
                elif "Boolean(1)" in t[1]:
                    true_set = (lo, hi, excl) if true_set is None else (min(lo, true_set[0]), max(hi, true_set[1]), ())
                elif "Boolean(0)" in t[1]:
                    false_set = (lo, hi, excl) if false_set is None else (min(lo, false_set[0]), max(hi, false_set[1]), ())
        wt, wf = tuple(want["1"]["boolean_true_bytes"]), tuple(want["1"]["boolean_false_bytes"])
        okb = true_set is not None and false_set is not None and true_set[:2] == wt and not true_set[2] and false_set[:2] == wf
        rep.check(rule, "decoder:boolean-interpretation", okb,
                  "bytes %s decode to true and %s to false" % (list(wt), list(wf)),
                  "Boolean decoding maps bytes %s to true and %s to false; AMF0 2.3 says 0 is false and every other byte is true" % (true_set, false_set), b.span)
    # ---- object property grammar
    pp = body_by_pretty(prog, "deserialization::parse_object_property")
    if pp is None:
        rep.anchor_missing(rule, "deserialization::parse_object_property")
    else:
        rep.fn(pp.key)
        exr = grammar.reads(env, pp.key, all_local_calls=True, inline=True, inline_pred=PARSER_INLINE)
        oks = grammar.ok_paths(exr)
        got = sorted({norm_read_path(p) for p in oks})
        some = [g for g in got if "<VALUE>" in g]
        none = [g for g in got if "<VALUE>" not in g]
        ok1 = some == ["u16be [(u16 Eq 0)=0] exact:prev <VALUE>"] or some == ["u16be [(u16 Ne 0)=other:0] exact:prev <VALUE>"] or some == ["u16be [u16=other:0] exact:prev <VALUE>"]
        ok2 = len(none) == 1 and none[0].startswith("u16be") and "u8" in none[0] and "9" in none[0]
        rep.check(rule, "decoder:property", ok1 and ok2, "property = u16be name length, name bytes, value; terminator = length 0 then byte 9",
                  "object property grammar is %s" % got, pp.span, detail={"extracted": got})
    if 10 in yields:
        strict_array_count(env, rep, rule, yields[10])
    return yields


def strict_array_count(env, rep, rule, b):
    """the element loop of the strict-array parser runs up to exactly the declared u32 count"""
    from . import loops
    good = False
    why = "no loop over the declared count"
    for head in b.loops:
        end_sv, w = loops.iteration_count(env, b, head)
        if end_sv is not None:
            e = strip_casts(end_sv)
            good = isinstance(e, tuple) and e[0] == "proj" and isinstance(e[1], tuple) and e[1][0] == "call" and "read_u32" in (e[1][2] or "")
            why = "loop bound is %s (%s)" % (stable(end_sv), w)
    rep.check(rule, "decoder:strict-array-count", good, "the element loop runs up to the declared u32 count (%s)" % why,
              "the strict-array element loop is not bounded by the declared count itself: %s (the encoder writes the full element count, so elements beyond the bound would be decoded as separate values)" % why, b.span)


def check_error_discipline(env, rep, rule):
    """R3: a failed read is always propagated as an error; the only clean end of input is the marker read"""
    prog = env.prog
    de = body_by_pretty(prog, "deserialization::deserialize")
    if de is None:
        rep.anchor_missing(rule, "rml_amf0 deserialization::deserialize")
        return
    fns = [prog.bodies[k] for k in sorted(reachable(prog, [de.key])) if prog.bodies[k].kind in ("fn", "assoc") and not is_derived(prog.bodies[k])]
    n = 0
    # the decoder's own fallible functions: their Err is a refusal of the input just like a failed read
    fallible = {"discr(call(%s))" % short(x.key) for x in fns if x.locals[0]["t"].get("s", "").startswith(("std::result::Result<", "core::result::Result<"))}
    n_local = 0
    for b in fns:
        rep.fn(b.key)
        exr = grammar.reads(env, b.key)
        for p in exr.paths:
            for i, t in enumerate(p):
                if t[0] == "when" and t[1] in fallible and t[2] in ("1", "other:0"):
                    n_local += 1
                    rest = [x for x in p[i + 1:] if x[0] not in ("when",)]
                    good = all(x[0] in ("end", "returns", "final") for x in rest) and rest and rest[-1] == ("end", "err")
                    rep.check(rule, "%s|%s|error-propagated" % (b.pretty, t[1][11:-2].split("::")[-1]), good, "an error of %s is returned as an error" % t[1][11:-2].split("::")[-1],
                              "%s goes on after %s has refused the input: the path ends %s (a malformed value would be accepted as whatever was parsed so far): %s" % (
                                  b.pretty, t[1][11:-2], rest[-1][1] if rest else "?", fmt_path(p)[:300]), b.span)
                if t[0] == "when" and t[1].startswith("discr(call(") and ("Read" in t[1]) and t[2] in ("1", "other:0"):
                    n += 1
                    rest = [x for x in p[i + 1:] if x[0] not in ("when",)]
                    good = all(x[0] in ("end", "returns") for x in rest) and rest and rest[-1] == ("end", "err")
                    rep.check(rule, "%s|read-error-propagated" % b.pretty, good, "a failed read returns Err",
                              "a failed read in %s does not end in an error return: %s" % (b.pretty, fmt_path(p)), b.span)
        # a read whose Result is not inspected at all (discarded) never shows a decision token
        for bi, t in b.calls():
            nm = callee_name(t)
            if nm in grammar.READ_CALLS or nm in ("std::io::Read::read_exact", "std::io::Read::read"):
                R = "discr(call(%s))" % short(callee_path(t) or "")
                seen = any(any(x[0] == "when" and x[1].startswith("discr(call(") and short(nm.split("::")[-1]) in x[1] for x in p) for p in exr.paths)
                rep.check(rule, "%s|%s|result-inspected" % (b.pretty, nm.split("::")[-1]), seen, "the Result of %s is branched on" % nm.split("::")[-1],
                          "the Result of %s in %s is never inspected (a read error would be ignored)" % (nm, b.pretty), t["span"])
    rep.floor(rule, "error edges of read calls in the AMF0 decoder", n, 8)
    rep.floor(rule + ".local", "error edges of the decoder's own fallible functions", n_local, 5)


# ---------------------------------------------------------------------------------------------- what the encoder refuses
def check_encoder_refusals(env, rep, rule):
    """The encoder may refuse (return an error it builds itself) only what AMF0 cannot express: a string or property name longer
    than 65,535 bytes, and - for property names only - the empty name, whose length field is the object terminator.  Every other
    value must be encoded.  Decided per variant on every error path of the dispatch (helpers followed in place): the state at the
    end of the path must have narrowed some byte length to > 65535 (any variant with a string in it) or to exactly 0 (Object only);
    an error handed up from the nested value's own encoding or from the io layer is not a refusal of this value."""
    prog = env.prog
    sv = body_by_pretty(prog, "serialization::serialize_value")
    ak, adt = value_adt(prog)
    if sv is None or adt is None:
        rep.anchor_missing(rule, "rml_amf0 serialization::serialize_value / enum Amf0Value")
        return
    vparam = None
    for i in range(1, sv.arg_count + 1):
        t = sv.locals[i]["t"]
        if t.get("k") == "ref" and t["to"].get("adt") == ak:
            vparam = i
    if vparam is None:
        rep.anchor_missing(rule, "the Amf0Value parameter of serialize_value")
        return

    def probe(it, S):
        too_long = empty = False
        for x, d in list(S.doms.items()):
            if isinstance(x, tuple) and x[0] == "ld" and x[1][1] and x[1][1][-1] == ("len",):
                if d.lo > 65535:
                    too_long = True
                if d.hi == 0:
                    empty = True
        return ("lens", too_long, empty)
    n = 0
    for vi, v in enumerate(adt["variants"]):
        base = env.ctx.entries.get(sv.key)
        E = base.copy() if base is not None else State()
        pv = ("ld", (("L", vparam, sv.key), ()), "entry")
        E.doms[("discr", ("ld", (("P", pv), ()), "entry"))] = Dom(vi, vi)
        ex = grammar.Extractor(env, sv.key, "w", E, None)
        ex.inline = True
        ex.inline_depth = 4
        ex.inline_blocks = 60
        ex.inline_pred = lambda cb, t: not cb.pretty.endswith("serialize_value")
        ex.all_local_calls = True
        ex.probe = probe
        ex.run()
        if ex.truncated:
            rep.cannot_analyse(rule, "refusals:%s" % v["name"], "too many paths through the encoder of Amf0Value::%s" % v["name"], sv.span)
            continue
        kinds = {}
        for p in ex.paths:
            rets = [t for t in p if t[0] == "returns"]
            text = rets[-1][1] if rets else ""
            if not text.startswith("Err("):
                continue            # success, or an error handed up from a callee (nested value / io layer) by `?`
            pr = [t for t in p if t[0] == "probe"]
            _, too_long, empty = pr[-1][1] if pr else ("lens", False, False)
            kind = "longer-than-65535" if too_long else "empty" if empty else "other"
            kinds.setdefault(kind, text[:80])
        n += 1
        allowed = {"longer-than-65535"} | ({"empty"} if v["name"] == "Object" else set())
        badk = {k: t for k, t in kinds.items() if k not in allowed}
        rep.check(rule, "refusals:%s" % v["name"], not badk,
                  "Amf0Value::%s is refused only for %s" % (v["name"], sorted(kinds) or "nothing"),
                  "the encoder refuses an Amf0Value::%s on a path where %s (error %s): every value AMF0 can express must be encoded - only lengths above 65,535 bytes%s may be refused" % (
                      v["name"], {"empty": "a byte length is 0 - an empty string is a legal value (02 00 00)", "other": "no length was found to be out of range"}.get(next(iter(badk), ""), ""),
                      next(iter(badk.values()), ""), " and the empty property name" if v["name"] == "Object" else ""), sv.span)
    rep.floor(rule, "Amf0Value variants whose refusals were classified", n, 7)


# ---------------------------------------------------------------------------------------------- what the decoder refuses
DECODER_REFUSAL_DECISIONS = [
    (r"^elem(\[\d+\])?( of \w+)?$|^\(?elem\[0\]", "the marker byte (an unsupported marker, or an empty name not followed by the end marker)"),
    (r"load\(\*?depth\)|load\(\*?load\(\w+\)\.depth\)|depth", "the nesting depth (documented limit)"),
    (r"^discr\((load\()?call\([^()]*(read_next_value|parse_\w+|read_\w+)\)\)? as Ok\.0\)?\)$", "the end of the input inside a value"),
    (r"read_u8\) as Ok\.0", "an empty property name that is not the object terminator"),
    (r"from_utf8", "bytes that are not UTF-8"),
]


def check_decoder_refusals(env, rep, rule):
    """The decoder may build an error only for input the encoder never writes: an unsupported marker, nesting beyond the documented
    limit, the end of the input inside a value, an empty property name that is not the terminator, bytes that are not UTF-8.  A
    refusal decided by anything else - in particular by the decoded *value* - makes some encodable value undecodable (encode then
    decode is no longer the identity).  Classified per error path of every decoder function by the decision that sent it there."""
    prog = env.prog
    de = body_by_pretty(prog, "deserialization::deserialize")
    if de is None:
        rep.anchor_missing(rule, "deserialization::deserialize")
        return
    n = 0
    for k in sorted(prog.reachable_from([de.key])):
        b = prog.bodies.get(k)
        if b is None or b.kind == "promoted" or not b.key.startswith("rml_amf0"):
            continue
        ex = grammar.Extractor(env, b.key, "r")
        ex.run()
        if ex.truncated:
            rep.cannot_analyse(rule, b.pretty, "too many paths in %s" % b.pretty, b.span)
            continue
        seen = set()
        for p in ex.paths:
            rets = [t for t in p if t[0] == "returns"]
            if not rets or not str(rets[-1][1]).startswith("Err("):
                continue
            whens = [t for t in p if t[0] == "when"]
            last = whens[-1][1] if whens else ""
            why = next((txt for pat, txt in DECODER_REFUSAL_DECISIONS if re.search(pat, last)), None)
            err = re.sub(r"\(.*", "", str(rets[-1][1])[4:])
            key = (err, why is not None)
            if key in seen:
                continue
            seen.add(key)
            n += 1
            rep.check(rule, "%s|refuses:%s" % (b.pretty.split("::")[-1], err.split("::")[-1]), why is not None,
                      "%s builds %s only on %s" % (b.pretty.split("::")[-1], err.split("::")[-1], why),
                      "%s builds the error %s on the decision [%s]: the decoder may refuse only unsupported markers, nesting beyond the limit, truncated input, an empty name that is not the "
                      "terminator and invalid UTF-8 - a refusal that depends on the decoded value makes a value the encoder writes undecodable" % (b.pretty, err, last[:120]), b.span)
    rep.floor(rule, "errors built by the AMF0 decoder", n, 3)
