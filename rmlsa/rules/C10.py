"""C10 - client session workflow (DESIGN.md section 5, C10)."""
import re
from .common import *
from .. import grammar
from .chunk import sig

TY = "sessions::client::ClientSession"
SELF = r"load\(\*?load\(self\)\.%s\)"
EVENT_RE = re.compile(r"ClientSessionEvent::(\w+)")


def state_discr(prog, name):
    for k, a in prog.adts.items():
        if a["pretty"] == "sessions::client::state::ClientState":
            for v in a["variants"]:
                if v["name"] == name:
                    return int(v["discr"])
    return None


def states_on(path, all_states):
    """set of ClientState discriminants the path's decisions allow"""
    allowed = set(all_states)
    for t in path:
        if t[0] == "when" and re.match(r"^discr\(" + SELF % "current_state" + r"\)$", t[1]):
            if t[2].startswith("other:"):
                allowed -= {int(x) for x in t[2][6:].split(",") if x.isdigit()}
            else:
                allowed &= {int(x) for x in t[2].split(",") if x.isdigit()}
    return allowed


def has_effect(path, ignore_remove_of=None):
    for t in path:
        if t[0] == "store" and not t[1].startswith("via:*call("):
            return True
        if t[0] == "mut" and not (ignore_remove_of and t[2] == ignore_remove_of and t[1] == "remove"):
            return True
        if t[0] == "call" and (t[1].endswith("ChunkSerializer::serialize") or t[1].endswith("ChunkSerializer::set_max_chunk_size")):
            return True
    return False


def run(env, rep):
    prog, ctx = env.prog, env.ctx
    rep.explanation = (
        "Checked on every path of each function (path-sensitive replay): R1 each public request function serializes a request or "
        "changes the session only on paths that established the state the statement names (connect: Disconnected; play / publish: "
        "Connected; media and metadata: Publishing and an active stream id; stop: the matching requested/active states) and its "
        "refusing paths have no effect; R2 _result / _error look the transaction up with remove(), an unknown id only raises "
        "UnknownTransactionResultReceived, the connect arm stores Connected, the createStream arm stores the returned id and emits "
        "play / publish on that id with the stream key of the removed transaction; R3 Play.Start / Publish.Start require the "
        "requested state and store the active one; R4 audio / video events need state in {PlayRequested, Playing} and "
        "active_stream_id == Some(message stream id), metadata needs the stream-id fact; R5 the stop functions store Connected, "
        "take active_stream_id and send deleteStream with that id; R6 a ping request is answered with its own timestamp; R7 the "
        "transaction key is a lossy cast of the f64 id (known finding D13).  Not decided: the reachable-state claim as a whole.")
    from .. import interp as I
    I.ELEM_SOURCES[0] = True
    S = {n: state_discr(prog, n) for n in ("Disconnected", "Connected", "PlayRequested", "Playing", "PublishRequested", "Publishing")}
    if any(v is None for v in S.values()):
        rep.anchor_missing("C10.R1", "enum ClientState")
        return
    ALL = set(S.values())
    bodies = {b.pretty.split("::")[-1]: b for b in prog.bodies.values() if b.kind == "assoc" and b.impl and b.impl.get("trait") is None and b.impl["self_ty"] == TY}
    traces = {}
    for name, b in sorted(bodies.items()):
        if name in ("handle_input", "new"):
            continue
        rep.fn(b.key)
        traces[name] = [sig(p) for p in grammar.trace(env, b.key, "r").paths]
    # ------------------------------------------------------------------ R1
    guards = {
        "request_connection": ({S["Disconnected"]}, False), "request_playback": ({S["Connected"]}, False), "request_publishing": ({S["Connected"]}, False),
        "publish_metadata": ({S["Publishing"]}, True), "publish_video_data": ({S["Publishing"]}, True), "publish_audio_data": ({S["Publishing"]}, True),
        "stop_playback": ({S["PlayRequested"], S["Playing"]}, False), "stop_publishing": ({S["PublishRequested"], S["Publishing"]}, False),
    }
    n1 = 0
    for name, (allowed, need_stream) in sorted(guards.items()):
        if name not in traces:
            rep.anchor_missing("C10.R1", TY + "::" + name)
            continue
        n1 += 1
        bad = []
        n_eff = 0
        for p in traces[name]:
            if not has_effect(p):
                continue
            n_eff += 1
            st = states_on(p, ALL)
            if not st <= allowed:
                bad.append("a path that %s is possible in state(s) %s" % ("serializes a request / changes the session", sorted({k for k, v in S.items() if v in st - allowed})))
            if need_stream and not any(t[0] == "when" and re.match(r"^discr\(" + SELF % "active_stream_id" + r"\)$", t[1]) and t[2] == "1" for t in p):
                bad.append("a sending path does not require an active stream id")
        rep.check("C10.R1", "%s|guard" % name, n_eff >= 1 and not bad, "acts only in state %s%s (%d acting path(s))" % (sorted(k for k, v in S.items() if v in allowed), " with an active stream" if need_stream else "", n_eff),
                  "%s: %s" % (name, "; ".join(sorted(set(bad))) or "no acting path found"), bodies[name].span)
    rep.floor("C10.R1", "public request functions checked", n1, 8)
    # ------------------------------------------------------------------ R2 transactions
    for name in ("handle_amf0_command_success_result", "handle_amf0_command_failed_result"):
        paths = traces.get(name)
        if paths is None:
            rep.anchor_missing("C10.R2", TY + "::" + name)
            continue
        problems = []
        n_found, n_unknown = 0, 0
        for p in paths:
            rets = [t for t in p if t[0] == "returns"]
            text = rets[-1][1] if rets else ""
            look = [t for t in p if t[0] == "when" and re.match(r"^discr\(HashMap::(get|get_mut|remove|contains_key)\(" + SELF % "outstanding_transactions" + r",.*\)\)$", t[1])]
            found = [t for t in look if t[2] == "1"]
            removed = [t for t in p if t[0] == "mut" and t[2] == "outstanding_transactions" and t[1] == "remove"]
            if found:
                n_found += 1
                if not removed:
                    problems.append("a path acts on a found transaction (%s) without removing it: a repeated or forged answer with the same id would be applied again" % text[:70])
            elif look:
                n_unknown += 1
                evs = EVENT_RE.findall(text)
                if evs != ["UnknownTransactionResultReceived"] or has_effect(p, ignore_remove_of="outstanding_transactions"):
                    problems.append("an unknown transaction id yields %s with effects %s" % (evs, [t[1] for t in p if t[0] in ("store", "mut") and not t[1].startswith("via:*call(")]))
        rep.check("C10.R2", "%s|consume" % name, n_found >= 2 and n_unknown >= 1 and not problems, "transactions are consumed with remove(); unknown ids only raise UnknownTransactionResultReceived",
                  "%s: %s" % (name, "; ".join(sorted(set(problems))) or "expected found / unknown paths not present"), bodies[name].span)
    paths = traces.get("handle_amf0_command_success_result", [])
    conn_ok, cs_ok, n_conn, n_cs = True, True, 0, 0
    why = []
    for p in paths:
        rets = [t for t in p if t[0] == "returns"]
        text = rets[-1][1] if rets else ""
        if "ConnectionRequestAccepted" in text:
            n_conn += 1
            st = {t[1]: t[2] for t in p if t[0] == "store"}
            if st.get("current_state") != "ClientState::Connected" or not st.get("connected_app_name", "").startswith("Some("):
                conn_ok = False
                why.append("accepting the connection stores %s" % st)
        if any(t[0] == "store" and t[1] == "active_stream_id" for t in p) and text.startswith("Ok("):
            n_cs += 1
            sid = [t[2] for t in p if t[0] == "store" and t[1] == "active_stream_id"][-1]
            m = re.match(r"^Some\((.*)\)$", sid)
            idexpr = m.group(1) if m else sid
            cmds = [t for t in p if t[0] == "call" and t[1].endswith("into_message_payload") and ("'play'" in t[2][0] or "'publish'" in t[2][0])]
            if not cmds or cmds[0][2][2] != idexpr:
                cs_ok = False
                why.append("play / publish is sent on message stream %s, the stored stream id is %s" % (cmds[0][2][2][:60] if cmds else "-", idexpr[:60]))
            elif "as CreateStream.purpose" not in cmds[0][2][0]:
                cs_ok = False
                why.append("the stream key sent is not the one remembered in the transaction")
            if "additional_args" not in idexpr:
                cs_ok = False
                why.append("the stream id stored is %s, not the number returned by the server" % idexpr[:80])
    rep.check("C10.R2", "connect-arm", conn_ok and n_conn >= 1, "a connect _result stores Connected and the app name", "; ".join(why) or "no ConnectionRequestAccepted path", bodies.get("handle_amf0_command_success_result").span)
    rep.check("C10.R2", "create-stream-arm", cs_ok and n_cs >= 2, "a createStream _result stores the returned id and continues on that stream with the remembered key (%d paths)" % n_cs,
              "; ".join(sorted(set(why))) or "fewer than two createStream continuations found", bodies.get("handle_amf0_command_success_result").span)
    # ------------------------------------------------------------------ R3
    for name, need, to, ev in (("handle_play_start", "PlayRequested", "Playing", "PlaybackRequestAccepted"), ("handle_publish_start", "PublishRequested", "Publishing", "PublishRequestAccepted")):
        paths = traces.get(name)
        if paths is None:
            rep.anchor_missing("C10.R3", TY + "::" + name)
            continue
        ok, n = True, 0
        for p in paths:
            rets = [t for t in p if t[0] == "returns"]
            text = rets[-1][1] if rets else ""
            if ev in text:
                n += 1
                st = [t[2] for t in p if t[0] == "store" and t[1] == "current_state"]
                if states_on(p, ALL) != {S[need]} or st != ["ClientState::" + to]:
                    ok = False
            elif has_effect(p):
                ok = False
        rep.check("C10.R3", "%s|status" % name, ok and n == 1, "%s requires %s, stores %s and raises %s" % (name, need, to, ev),
                  "%s does not (only) move %s -> %s when raising %s" % (name, need, to, ev), bodies[name].span)
    # ------------------------------------------------------------------ R4 media gating
    for name, ev in (("handle_audio_data", "AudioDataReceived"), ("handle_video_data", "VideoDataReceived")):
        paths = traces.get(name)
        if paths is None:
            rep.anchor_missing("C10.R4", TY + "::" + name)
            continue
        ok, n = True, 0
        why = []
        for p in paths:
            rets = [t for t in p if t[0] == "returns"]
            text = rets[-1][1] if rets else ""
            if ev not in text:
                continue
            n += 1
            if not states_on(p, ALL) <= {S["PlayRequested"], S["Playing"]}:
                ok = False
                why.append("raised in state(s) %s" % sorted(k for k, v in S.items() if v in states_on(p, ALL)))
            same = any(t[0] == "when" and re.match(r"^\(" + SELF % "active_stream_id as Some\\.0" + r" (Ne|Eq) load\(stream_id\)\)$", t[1]) and
                       ((" Ne " in t[1] and t[2] == "0") or (" Eq " in t[1] and t[2].startswith("other"))) for t in p)
            if not same:
                ok = False
                why.append("raised without comparing the message stream id with the active stream id")
            if not re.search(ev + r"\(load\(timestamp\), load\(data\)\)", text):
                ok = False
                why.append("the event does not carry the message's own timestamp and data: %s" % text[:100])
        rep.check("C10.R4", "%s|gate" % name, ok and n >= 1, "%s only while (about to be) playing, on the active stream, with the message's data and timestamp (%d paths)" % (ev, n),
                  "%s: %s" % (name, "; ".join(sorted(set(why))) or "no event path"), bodies[name].span)
    paths = traces.get("handle_amf0_data")
    if paths is not None:
        ok, n = True, 0
        for p in paths:
            if any(t[0] == "call" and t[1].endswith("handle_amf0_data_on_meta_data") for t in p):
                n += 1
                if not any(t[0] == "when" and re.match(r"^\(" + SELF % "active_stream_id as Some\\.0" + r" (Ne|Eq) load\(stream_id\)\)$", t[1]) for t in p):
                    ok = False
        rep.check("C10.R4", "metadata|gate", ok and n >= 1, "metadata is accepted only on the active stream", "handle_amf0_data forwards metadata without checking the message stream id against the active stream id", bodies["handle_amf0_data"].span)
    # ------------------------------------------------------------------ R5 stop
    for name in ("stop_playback", "stop_publishing"):
        paths = traces.get(name, [])
        ok, n = True, 0
        why = []
        for p in paths:
            if not has_effect(p):
                continue
            n += 1
            fin = dict([t for t in p if t[0] == "final"][-1][1]) if [t for t in p if t[0] == "final"] else {}
            if fin.get("current_state") != "ClientState::Connected":
                ok = False
                why.append("the state after stopping is %s" % fin.get("current_state"))
            if fin.get("active_stream_id") != "None":
                ok = False
                why.append("active_stream_id is %s after stopping (the old stream would still be treated as active: late metadata / media on it is raised although the stream was deleted)" % fin.get("active_stream_id", "left unchanged"))
            cmds = [t for t in p if t[0] == "call" and t[1].endswith("into_message_payload")]
            if cmds:
                c = cmds[0]
                idexpr = c[2][2]
                if "'deleteStream'" not in c[2][0] or ("Number((%s as f64))" % idexpr) not in c[2][0] or not re.match("^" + SELF % "active_stream_id as Some\\.0" + "$", idexpr):
                    ok = False
                    why.append("deleteStream is not sent with the active stream id as argument and message stream id")
        rep.check("C10.R5", "%s|stop" % name, ok and n >= 2, "stores Connected, takes active_stream_id, sends deleteStream(id) on stream id (%d paths)" % n,
                  "%s: %s" % (name, "; ".join(sorted(set(why))) or "no stopping path"), bodies[name].span if name in bodies else None)
    # ------------------------------------------------------------------ R6 ping
    paths = traces.get("handle_ping_request", [])
    okp = any(t[0] == "call" and t[1].endswith("into_message_payload") and re.search(r"UserControlEventType::PingResponse, None, None, load\(timestamp\)\)", t[2][0]) for p in paths for t in p)
    rep.check("C10.R6", "ping-echo", okp, "the PingResponse carries the PingRequest's timestamp", "the ping response is not built with the request's own timestamp", bodies["handle_ping_request"].span if "handle_ping_request" in bodies else None)
    # ------------------------------------------------------------------ R7 transaction key exactness
    for name in ("handle_amf0_command_success_result", "handle_amf0_command_failed_result"):
        for p in traces.get(name, [])[:1]:
            rm = [t for t in p if t[0] == "mut" and t[2] == "outstanding_transactions"]
            if rm:
                k = rm[0][3][0]
                exact = "as~ u32" not in k and "as u32" not in k
                rep.check("C10.R7", "%s|exact-key" % name, exact, "the transaction key is the id itself",
                          "the transaction is looked up under %s: a lossy cast of the peer's f64 transaction id (a _result with id 1.5 is applied to transaction 1)" % k, bodies[name].span)
