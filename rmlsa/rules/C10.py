"""C10 - client session workflow (DESIGN.md section 5, C10)."""
import re
from .common import *
from .. import grammar
from .chunk import sig
from . import facts

TY = "sessions::client::ClientSession"
SELF = r"load\(\*?load\(self\)\.%s\)"
EVENT_RE = re.compile(r"ClientSessionEvent::(\w+)")


def state_discr(prog, name):
    for k, a in prog.adts.items():
        if a["pretty"] == "sessions::client::state::ClientState":
            for v in a["variants"]:
                if v["name"] == name:
                    return int(v["discr"])
    return None


def probe_of(path):
    pr = [t for t in path if t[0] == "probe"]
    return pr[-1][1] if pr else None


def states_on(path, all_states):
    """set of ClientState discriminants the entry value of current_state can have on this path (what the path's final abstract
    state knows about it - independent of how the guard is written)"""
    pr = probe_of(path)
    return set(pr[0]) & set(all_states) if pr else set(all_states)


def active_some(path):
    pr = probe_of(path)
    return bool(pr and pr[1])


def active_is_message_stream(path):
    pr = probe_of(path)
    return bool(pr and pr[2])


def message_stream_param(env, prog, cb):
    """index of the parameter of handler cb that receives the message stream id of the incoming message (from the call in the
    dispatching function: the argument that is the payload's message_stream_id)"""
    for ck in prog.callers.get(cb.key, ()):
        caller = prog.bodies[ck]
        for bi, t in caller.calls():
            if callee_path(t) == cb.key:
                S, args = args_at(env.ctx, ck, bi)
                if S is None:
                    continue
                for i, a in enumerate(args):
                    if contains(a, lambda x: isinstance(x, tuple) and ((x[0] == "ld" and x[1][1] and x[1][1][-1][0] == "f" and x[1][1][-1][2] == "message_stream_id") or
                                                                         (x[0] == "proj" and x[2] and x[2][-1][0] == "f" and x[2][-1][2] == "message_stream_id"))):
                        return i + 1
                    if is_param_load(a) and caller.locals[a[1][0][1]].get("name") and i + 1 <= cb.arg_count:
                        # forwarded parameter: look one level up
                        up = message_stream_param(env, prog, caller) if caller.key != cb.key else None
                        if up is not None and a[1][0][1] == up:
                            return i + 1
    return None


def has_effect(path, ignore_remove_of=None):
    for t in path:
        if t[0] == "store" and not t[1].startswith("via:*call("):
            return True
        if t[0] == "mut" and not (ignore_remove_of and t[2] == ignore_remove_of and t[1] == "remove"):
            return True
        if t[0] == "call" and (t[1].endswith("ChunkSerializer::serialize") or t[1].endswith("ChunkSerializer::set_max_chunk_size")):
            return True
    return False


def run(env, rep):
    prog, ctx = env.prog, env.ctx
    rep.explanation = (
        "Checked on every path of each function (path-sensitive replay): R1 each public request function serializes a request or "
        "changes the session only on paths that established the state the statement names (connect: Disconnected; play / publish: "
        "Connected; media and metadata: Publishing and an active stream id; stop: the matching requested/active states) and its "
        "refusing paths have no effect; R2 _result / _error look the transaction up with remove(), an unknown id only raises "
        "UnknownTransactionResultReceived, the connect arm stores Connected, the createStream arm stores the returned id and emits "
        "play / publish on that id with the stream key of the removed transaction; R3 Play.Start / Publish.Start require the "
        "requested state and store the active one; R4 audio / video events need state in {PlayRequested, Playing} and "
        "active_stream_id == Some(message stream id), metadata needs the stream-id fact; R5 the stop functions store Connected, "
        "take active_stream_id and send deleteStream with that id; R6 a ping request is answered with its own timestamp; R7 the "
        "transaction key is a lossy cast of the f64 id (known finding D13); R8 every transaction is registered under the current value of "
        "the session's transaction counter, the counter is advanced past it on the same path, and the command sent carries that id; R9 current_state / active_stream_id change only on paths that consumed the transaction they answer or that established an entry state the transition may start from (Play.Start from PlayRequested, Publish.Start from PublishRequested, stop from the four play / publish states).  Not decided: the reachable-state claim as a whole.")
    from .. import interp as I
    I.ELEM_SOURCES[0] = True
    S = {n: state_discr(prog, n) for n in ("Disconnected", "Connected", "PlayRequested", "Playing", "PublishRequested", "Publishing")}
    if any(v is None for v in S.values()):
        rep.anchor_missing("C10.R1", "enum ClientState")
        return
    ALL = set(S.values())
    bodies = {b.pretty.split("::")[-1]: b for b in prog.bodies.values() if b.kind == "assoc" and b.impl and b.impl.get("trait") is None and b.impl["self_ty"] == TY}
    traces = {}
    for name, b in sorted(bodies.items()):
        if name in ("handle_input", "new"):
            continue
        rep.fn(b.key)
        sp = message_stream_param(env, prog, b)

        def probe(it, St, b=b, sp=sp):
            cs = facts.entry_field(it, prog, TY, ["current_state"])
            act = facts.entry_field(it, prog, TY, ["active_stream_id"])
            sid = facts.State().read((it.L(sp), ())) if sp else None
            return (tuple(sorted(facts.discr_values(St, cs, ALL))), facts.is_some(St, act), facts.is_some_of(St, act, sid) if sid is not None else False,
                    facts.growth(St, it, prog, TY, ["next_transaction_id"]))
        traces[name] = [sig(p) for p in grammar.trace(env, b.key, "r", probe=probe).paths]
    # ------------------------------------------------------------------ R1
    guards = {
        "request_connection": ({S["Disconnected"]}, False), "request_playback": ({S["Connected"]}, False), "request_publishing": ({S["Connected"]}, False),
        "publish_metadata": ({S["Publishing"]}, True), "publish_video_data": ({S["Publishing"]}, True), "publish_audio_data": ({S["Publishing"]}, True),
        "stop_playback": ({S["PlayRequested"], S["Playing"]}, False), "stop_publishing": ({S["PublishRequested"], S["Publishing"]}, False),
    }
    n1 = 0
    for name, (allowed, need_stream) in sorted(guards.items()):
        if name not in traces:
            rep.anchor_missing("C10.R1", TY + "::" + name)
            continue
        n1 += 1
        bad = []
        n_eff = 0
        for p in traces[name]:
            if not has_effect(p):
                continue
            n_eff += 1
            st = states_on(p, ALL)
            if not st <= allowed:
                bad.append("a path that %s is possible in state(s) %s" % ("serializes a request / changes the session", sorted({k for k, v in S.items() if v in st - allowed})))
            if need_stream and not active_some(p):
                bad.append("a sending path does not require an active stream id")
        rep.check("C10.R1", "%s|guard" % name, n_eff >= 1 and not bad, "acts only in state %s%s (%d acting path(s))" % (sorted(k for k, v in S.items() if v in allowed), " with an active stream" if need_stream else "", n_eff),
                  "%s: %s" % (name, "; ".join(sorted(set(bad))) or "no acting path found"), bodies[name].span)
    rep.floor("C10.R1", "public request functions checked", n1, 8)
    # ------------------------------------------------------------------ R2 transactions
    for name in ("handle_amf0_command_success_result", "handle_amf0_command_failed_result"):
        paths = traces.get(name)
        if paths is None:
            rep.anchor_missing("C10.R2", TY + "::" + name)
            continue
        problems = []
        n_found, n_unknown = 0, 0
        for p in paths:
            rets = [t for t in p if t[0] == "returns"]
            text = rets[-1][1] if rets else ""
            look = [t for t in p if t[0] == "when" and re.match(r"^discr\(HashMap::(get|get_mut|remove|contains_key)\(" + SELF % "outstanding_transactions" + r",.*\)\)$", t[1])]
            found = [t for t in look if t[2] == "1"]
            removed = [t for t in p if t[0] == "mut" and t[2] == "outstanding_transactions" and t[1] == "remove"]
            if found:
                n_found += 1
                if not removed:
                    problems.append("a path acts on a found transaction (%s) without removing it: a repeated or forged answer with the same id would be applied again" % text[:70])
            elif look:
                n_unknown += 1
                evs = EVENT_RE.findall(text)
                if evs != ["UnknownTransactionResultReceived"] or has_effect(p, ignore_remove_of="outstanding_transactions"):
                    problems.append("an unknown transaction id yields %s with effects %s" % (evs, [t[1] for t in p if t[0] in ("store", "mut") and not t[1].startswith("via:*call(")]))
        rep.check("C10.R2", "%s|consume" % name, n_found >= 2 and n_unknown >= 1 and not problems, "transactions are consumed with remove(); unknown ids only raise UnknownTransactionResultReceived",
                  "%s: %s" % (name, "; ".join(sorted(set(problems))) or "expected found / unknown paths not present"), bodies[name].span)
    paths = traces.get("handle_amf0_command_success_result", [])
    conn_ok, cs_ok, n_conn, n_cs = True, True, 0, 0
    why = []
    for p in paths:
        rets = [t for t in p if t[0] == "returns"]
        text = rets[-1][1] if rets else ""
        if "ConnectionRequestAccepted" in text:
            n_conn += 1
            st = {t[1]: t[2] for t in p if t[0] == "store"}
            if st.get("current_state") != "ClientState::Connected" or not st.get("connected_app_name", "").startswith("Some("):
                conn_ok = False
                why.append("accepting the connection stores %s" % st)
        if any(t[0] == "store" and t[1] == "active_stream_id" for t in p) and text.startswith("Ok("):
            n_cs += 1
            sid = [t[2] for t in p if t[0] == "store" and t[1] == "active_stream_id"][-1]
            m = re.match(r"^Some\((.*)\)$", sid)
            idexpr = m.group(1) if m else sid
            cmds = [t for t in p if t[0] == "call" and t[1].endswith("into_message_payload") and ("'play'" in t[2][0] or "'publish'" in t[2][0])]
            if not cmds or cmds[0][2][2] != idexpr:
                cs_ok = False
                why.append("play / publish is sent on message stream %s, the stored stream id is %s" % (cmds[0][2][2][:60] if cmds else "-", idexpr[:60]))
            elif "as CreateStream.purpose" not in cmds[0][2][0]:
                cs_ok = False
                why.append("the stream key sent is not the one remembered in the transaction")
            if "additional_args" not in idexpr:
                cs_ok = False
                why.append("the stream id stored is %s, not the number returned by the server" % idexpr[:80])
    rep.check("C10.R2", "connect-arm", conn_ok and n_conn >= 1, "a connect _result stores Connected and the app name", "; ".join(why) or "no ConnectionRequestAccepted path", bodies.get("handle_amf0_command_success_result").span)
    rep.check("C10.R2", "create-stream-arm", cs_ok and n_cs >= 2, "a createStream _result stores the returned id and continues on that stream with the remembered key (%d paths)" % n_cs,
              "; ".join(sorted(set(why))) or "fewer than two createStream continuations found", bodies.get("handle_amf0_command_success_result").span)
    # ------------------------------------------------------------------ R3
    for name, need, to, ev in (("handle_play_start", "PlayRequested", "Playing", "PlaybackRequestAccepted"), ("handle_publish_start", "PublishRequested", "Publishing", "PublishRequestAccepted")):
        paths = traces.get(name)
        if paths is None:
            rep.anchor_missing("C10.R3", TY + "::" + name)
            continue
        ok, n = True, 0
        for p in paths:
            rets = [t for t in p if t[0] == "returns"]
            text = rets[-1][1] if rets else ""
            if ev in text:
                n += 1
                st = [t[2] for t in p if t[0] == "store" and t[1] == "current_state"]
                if states_on(p, ALL) != {S[need]} or st != ["ClientState::" + to]:
                    ok = False
            elif has_effect(p):
                ok = False
        rep.check("C10.R3", "%s|status" % name, ok and n == 1, "%s requires %s, stores %s and raises %s" % (name, need, to, ev),
                  "%s does not (only) move %s -> %s when raising %s" % (name, need, to, ev), bodies[name].span)
    # ------------------------------------------------------------------ R4 media gating
    for name, ev in (("handle_audio_data", "AudioDataReceived"), ("handle_video_data", "VideoDataReceived")):
        paths = traces.get(name)
        if paths is None:
            rep.anchor_missing("C10.R4", TY + "::" + name)
            continue
        ok, n = True, 0
        why = []
        for p in paths:
            rets = [t for t in p if t[0] == "returns"]
            text = rets[-1][1] if rets else ""
            if ev not in text:
                continue
            n += 1
            if not states_on(p, ALL) <= {S["PlayRequested"], S["Playing"]}:
                ok = False
                why.append("raised in state(s) %s" % sorted(k for k, v in S.items() if v in states_on(p, ALL)))
            if not active_is_message_stream(p):
                ok = False
                why.append("raised without comparing the message stream id with the active stream id")
            if not re.search(ev + r"\(load\(timestamp\), load\(data\)\)", text):
                ok = False
                why.append("the event does not carry the message's own timestamp and data: %s" % text[:100])
        rep.check("C10.R4", "%s|gate" % name, ok and n >= 1, "%s only while (about to be) playing, on the active stream, with the message's data and timestamp (%d paths)" % (ev, n),
                  "%s: %s" % (name, "; ".join(sorted(set(why))) or "no event path"), bodies[name].span)
    paths = traces.get("handle_amf0_data")
    if paths is not None:
        ok, n = True, 0
        for p in paths:
            if any(t[0] == "call" and t[1].endswith("handle_amf0_data_on_meta_data") for t in p):
                n += 1
                if not active_is_message_stream(p):
                    ok = False
        rep.check("C10.R4", "metadata|gate", ok and n >= 1, "metadata is accepted only on the active stream", "handle_amf0_data forwards metadata without checking the message stream id against the active stream id", bodies["handle_amf0_data"].span)
    # ------------------------------------------------------------------ R5 stop
    for name in ("stop_playback", "stop_publishing"):
        paths = traces.get(name, [])
        ok, n = True, 0
        why = []
        for p in paths:
            if not has_effect(p):
                continue
            n += 1
            fin = dict([t for t in p if t[0] == "final"][-1][1]) if [t for t in p if t[0] == "final"] else {}
            if fin.get("current_state") != "ClientState::Connected":
                ok = False
                why.append("the state after stopping is %s" % fin.get("current_state"))
            if fin.get("active_stream_id") != "None":
                ok = False
                why.append("active_stream_id is %s after stopping (the old stream would still be treated as active: late metadata / media on it is raised although the stream was deleted)" % fin.get("active_stream_id", "left unchanged"))
            cmds = [t for t in p if t[0] == "call" and t[1].endswith("into_message_payload")]
            if cmds:
                c = cmds[0]
                idexpr = c[2][2]
                if "'deleteStream'" not in c[2][0] or ("Number((%s as f64))" % idexpr) not in c[2][0] or not re.match("^" + SELF % "active_stream_id as Some\\.0" + "$", idexpr):
                    ok = False
                    why.append("deleteStream is not sent with the active stream id as argument and message stream id")
        rep.check("C10.R5", "%s|stop" % name, ok and n >= 2, "stores Connected, takes active_stream_id, sends deleteStream(id) on stream id (%d paths)" % n,
                  "%s: %s" % (name, "; ".join(sorted(set(why))) or "no stopping path"), bodies[name].span if name in bodies else None)
    # ------------------------------------------------------------------ R9 the state changes only along the workflow's transitions
    # a path that stores current_state (or touches active_stream_id) either consumed the transaction it answers, or established that
    # the state at entry is one the transition may start from: Play.Start from PlayRequested, Publish.Start from PublishRequested,
    # back to Connected from the four play / publish states (stop); nothing ever stores Disconnected
    FROM = {"Playing": {S["PlayRequested"]}, "Publishing": {S["PublishRequested"]},
            "Connected": {S["PlayRequested"], S["Playing"], S["PublishRequested"], S["Publishing"]}}
    n9, bad9 = 0, []
    for name, paths in sorted(traces.items()):
        hb9 = bodies.get(name)
        if hb9 is not None and not hb9.is_pub and not name.startswith("handle_"):
            # a private helper that is not a message handler is judged where it is followed in place:
            # on the paths of the public functions and handlers that call it
            continue
        for p in paths:
            st = [t for t in p if t[0] == "store" and t[1] == "current_state"]
            touch = [t for t in p if (t[0] == "store" and t[1] == "active_stream_id") or (t[0] == "mut" and t[2] == "active_stream_id" and t[1].split("::")[-1] not in ("as_ref", "is_some", "is_none", "clone"))]
            if not st and not touch:
                continue
            n9 += 1
            consumed = any(t[0] == "mut" and t[2] == "outstanding_transactions" and t[1] == "remove" for t in p)
            entry = states_on(p, ALL)
            if consumed:
                continue
            if entry == ALL:
                bad9.append("%s %s on a path that neither answers a transaction nor tests the current state" % (
                    name, ("stores current_state := " + st[-1][2]) if st else "changes active_stream_id"))
                continue
            for t in st:
                target = t[2].split("::")[-1]
                allowed = FROM.get(target)
                if allowed is None or not entry <= allowed:
                    bad9.append("%s stores %s on a path that can be entered in state(s) %s" % (name, t[2], sorted(k for k, v in S.items() if v in entry - (allowed or set()))))
    rep.check("C10.R9", "state-changes-only-along-the-workflow", n9 >= 6 and not bad9,
              "current_state / active_stream_id change only on paths that consumed the answered transaction or start from a state the transition allows (%d paths)" % n9,
              "; ".join(sorted(set(bad9))[:3]) or "fewer state-changing paths than expected", bodies["handle_on_status_command"].span if "handle_on_status_command" in bodies else None)
    # ------------------------------------------------------------------ R10 a refusal changes nothing but the transaction it consumed
    n10 = 0
    for name, paths in sorted(traces.items()):
        for p in paths:
            rets = [t for t in p if t[0] == "returns"]
            text = str(rets[-1][1]) if rets else ""
            if not text.startswith("Err(ClientSessionError::"):
                continue
            n10 += 1
            eff = ["%s := %s" % (t[1], str(t[2])[:40]) for t in p if t[0] == "store" and t[1] in ("current_state", "active_stream_id", "connected_app_name")]
            vname = text[len("Err(ClientSessionError::"):].split("(")[0].split(")")[0]
            rep.check("C10.R10", "%s|refusal:%s|state-unchanged" % (name, vname), not eff, "%s: the path that refuses with %s leaves the session state alone" % (name, vname),
                      "%s refuses with %s but has already changed the session: %s (a refused answer must not advance the workflow)" % (name, vname, "; ".join(sorted(set(eff))[:3])),
                      bodies[name].span if name in bodies else None)
    rep.floor("C10.R10", "refusing paths of the client session", n10, 3)
    # ------------------------------------------------------------------ R6 ping
    paths = traces.get("handle_ping_request", [])
    okp = any(t[0] == "call" and t[1].endswith("into_message_payload") and re.search(r"UserControlEventType::PingResponse, None, None, load\(timestamp\)\)", t[2][0]) for p in paths for t in p)
    rep.check("C10.R6", "ping-echo", okp, "the PingResponse carries the PingRequest's timestamp", "the ping response is not built with the request's own timestamp", bodies["handle_ping_request"].span if "handle_ping_request" in bodies else None)
    # ------------------------------------------------------------------ R8 fresh transaction ids
    ENTRY = r"load\(\*?load\(self\)\.next_transaction_id\)"
    n8, bad8 = 0, []
    for name, paths in sorted(traces.items()):
        for p in paths:
            ins = [t for t in p if t[0] == "mut" and t[2] == "outstanding_transactions" and t[1] == "insert"]
            if not ins:
                continue
            pr = probe_of(p)
            grown = pr[3] if pr else None
            for t in ins:
                n8 += 1
                k = t[3][0] if t[3] else ""
                m = re.match(r"^&?\(?" + ENTRY + r"(?: Add (\d+)\))?$", k)
                if not m:
                    bad8.append("%s registers a transaction under %s, which is not the session's transaction counter" % (name, k[:80]))
                    continue
                off = int(m.group(1) or 0)
                if grown is None or grown < off + 1:
                    bad8.append("%s registers a transaction under the counter's value but does not advance the counter past it on the same path (the next request would reuse the id)" % name)
                sent = [c for c in p if c[0] == "call" and c[1].endswith("into_message_payload") and c[2] and "Amf0Command(" in c[2][0]]
                if sent and not re.search(r"\(\(?" + ENTRY + (r" Add %d\)" % off if off else r"\)?") + r" as~? ?f64\)", sent[0][2][0]):
                    bad8.append("%s sends a command whose transaction id is not the id the transaction was registered under: %s" % (name, sent[0][2][0][:120]))
    rep.check("C10.R8", "fresh-transaction-ids", n8 >= 3 and not bad8, "every transaction is registered under the current value of the transaction counter, which is advanced past it on the same path, and the command carries that id (%d registration(s))" % n8,
              "; ".join(sorted(set(bad8))) or "fewer than three transaction registrations found (connect, createStream for play, createStream for publish)")
    # ------------------------------------------------------------------ R7 transaction key exactness
    # wherever a transaction is looked up under a number converted from the peer's f64 id, the path must have established that
    # the conversion is exact: (key as f64) == id.  Otherwise a _result with id 1.5 is applied to transaction 1.
    n7 = 0
    for name, paths in sorted(traces.items()):
        sites = {}
        for p in paths:
            for ti, t in enumerate(p):
                if not (t[0] == "mut" and t[2] == "outstanding_transactions" and t[1] in ("remove", "get", "get_mut", "contains_key")):
                    continue
                k = t[3][0] if t[3] else ""
                m = re.match(r"^&?\((.+) as~? ?(u8|u16|u32|u64|usize|i32|i64)\)$", k)
                if not m or not re.match(r"^load\(\w+\)$", m.group(1)):
                    continue
                src = m.group(1)
                key_txt = k.lstrip("&")
                exact = False
                for w in p[:ti]:
                    if w[0] != "when":
                        continue
                    mm = re.match(r"^\(\(" + re.escape(key_txt) + r" as~? ?f64\) (Ne|Eq) " + re.escape(src) + r"\)$", w[1]) or \
                        re.match(r"^\(" + re.escape(src) + r" (Ne|Eq) \(" + re.escape(key_txt) + r" as~? ?f64\)\)$", w[1])
                    if mm:
                        truth = w[2].startswith("other") or w[2] == "1"
                        if (mm.group(1) == "Eq" and truth) or (mm.group(1) == "Ne" and not truth):
                            exact = True
                sites.setdefault(k, []).append(exact)
        for k, flags in sorted(sites.items()):
            n7 += 1
            rep.check("C10.R7", "%s|exact-key" % name, all(flags), "the transaction is looked up under %s only after checking that the conversion of the peer's id is exact" % k,
                      "the transaction is looked up under %s: a lossy conversion of the peer's f64 transaction id that is not checked for exactness (a _result with id 1.5 is applied to transaction 1)" % k,
                      bodies[name].span)
    rep.floor("C10.R7", "transaction lookups keyed by a converted id", n7, 1)
    # ------------------------------------------------------------------ R11 the command codec hands the transaction id on unchanged (C13 R2)
    from ..framework import PrefixReport, wants
    if wants(rep, "C10.R11"):
        from . import C13
        C13.run(env, PrefixReport(rep, "C13.R2", "C10.R11", only=("C13.R2",), keys=lambda k: "Amf0Command" in str(k) or "anchor" in str(k)))
