"""C18 - everything a session emits stays decodable (DESIGN.md section 5, C18)."""
import re
from .common import *
from ..absint import *
from ..interp import stable
from ..loader import Place
from .. import interp as I
from ..framework import PrefixReport

SESSIONS = {"server": "sessions::server::ServerSession", "client": "sessions::client::ClientSession"}


def session_bodies(prog, ty):
    return [b for b in prog.bodies.values() if b.kind == "assoc" and b.impl and b.impl.get("trait") is None and b.impl["self_ty"] == ty]


def is_producer(prog, t, helpers):
    p = callee_path(t)
    if p not in prog.bodies:
        return False
    pr = prog.bodies[p].pretty
    return pr.endswith("ChunkSerializer::serialize") or pr.endswith("ChunkSerializer::set_max_chunk_size") or p in helpers


def packet_helpers(prog, bodies):
    """session-local functions that return a Packet produced inside (create_*_response, ...)"""
    out = set()
    for b in bodies:
        rt = b.locals[0]["t"]["s"]
        if re.match(r"^std::result::Result<chunk_io::serializer::Packet, ", rt) and not b.is_pub:
            out.add(b.key)
    return out


def producers_in(sv, prod_svs, depth=0):
    return [R for R in prod_svs if contains(sv, lambda x: x == R)]


from ..framework import wants


def cfg_error_after_producer(prog, b):
    """'' if no error exit is reachable from the success edge of any producer call of b, a description if one is, None if the
    shape (call, Try::branch, switch) is not recognised"""
    for bi, t in b.calls():
        if not is_producer(prog, t, {}):
            continue
        nxt = t.get("t")
        if nxt is None:
            return None
        t2 = b.blocks[nxt]["term"]
        if not (t2["k"] == "call" and "Try" in (t2["callee"].get("orig_pretty") or t2["callee"].get("pretty") or "") and t2.get("t") is not None):
            return None
        sw = b.blocks[t2["t"]]["term"]
        if sw["k"] != "switch":
            return None
        cont = [tb for v, tb in sw["targets"] if v == 0]
        if not cont:
            return None
        seen, stack = set(), [cont[0]]
        while stack:
            x = stack.pop()
            if x in seen or b.blocks[x]["cleanup"]:
                continue
            seen.add(x)
            tx = b.blocks[x]["term"]
            if tx["k"] == "call" and "from_residual" in (tx["callee"].get("pretty") or ""):
                return "a `?` at line %s" % (tx.get("span") or {}).get("l")
            for st in b.blocks[x]["stmts"]:
                rv = st["rv"]
                if rv["k"] == "agg" and rv.get("adt") == "core::result::Result" and rv.get("vi") == 1 and st["place"].get("l") == 0:
                    return "an Err built at line %s" % (st.get("span") or {}).get("l")
            stack.extend(b.succs[x])
    return ""


def droppable_origin_ok(ctx, prog, b, v, depth=0):
    """the flag is the constant false, or the bool parameter of a public function (the application's own choice); a private helper's
    parameter is judged at every call site of that helper"""
    if const_val(v) == 0:
        return True
    if not is_param_load(v) or depth > 3:
        return False
    idx = v[1][0][1]
    if b.is_pub:
        return b.locals[idx]["t"].get("k") == "bool"
    sites = 0
    for ck in prog.callers.get(b.key, ()):
        cb = prog.bodies.get(ck)
        if cb is None:
            continue
        for bi, t in cb.calls():
            if callee_path(t) != b.key:
                continue
            S, args = args_at(ctx, cb.key, bi)
            if S is None or idx - 1 >= len(args):
                return False
            sites += 1
            if not droppable_origin_ok(ctx, prog, cb, args[idx - 1], depth + 1):
                return False
    return sites >= 1


def run(env, rep):
    prog, ctx = env.prog, env.ctx
    rep.explanation = (
        "R1: within every session function the packets appear in the returned value in the order of their serialize / "
        "set_max_chunk_size calls (position in the vec! aggregate, order of push calls, tuple position versus dominance of the "
        "producing calls) - header compression makes any other order undecodable; R2: every Packet produced by the session's "
        "serializer is moved into the returned value (none is lost); R3: each session serializes only through its one "
        "ChunkSerializer field and no Packet is built outside chunk_io::serializer; R4: the can_be_dropped argument of serialize is "
        "the constant false everywhere except where it is a public media function's own can_be_dropped parameter, and "
        "force_uncompressed is a constant; R5: the session clock is narrowed to u32 by a truncating cast (it wraps like the codec's "
        "timestamps); R6-R8: the serializer-level rules of C08 R1-R2, C01 R2-R3 and R5 (absolute vs delta timestamps per format) and C07 R5-R6 (chunk size announced before use, no empty chunk after a complete payload) that keep the stream decodable after dropped "
        "packets and across multi-chunk messages; R9: in no session function (handle_input and the constructor apart) does an error return follow a successful serialize on the same path - a dropped packet leaves the serializer's header state ahead of the peer (known finding D18).  Not decided: decodability of the whole stream by a conformant peer at every uptime.")
    n_prod = 0
    n_fn = 0
    for which, ty in SESSIONS.items():
        bodies = session_bodies(prog, ty)
        if not bodies:
            rep.anchor_missing("C18.R1", "impl " + ty)
            continue
        helpers = packet_helpers(prog, bodies)
        adt = [a for k, a in prog.adts.items() if a["pretty"] == ty][0]
        ser_fields = [f["name"] for f in adt["variants"][0]["fields"] if f["t"]["s"].endswith("ChunkSerializer")]
        rep.check("C18.R3", "%s|one-serializer" % which, len(ser_fields) == 1, "%s has one ChunkSerializer field (%s)" % (ty.split("::")[-1], ser_fields),
                  "%s has %d ChunkSerializer fields %s: packets serialized by different serializers cannot share one connection" % (ty, len(ser_fields), ser_fields))
        for b in sorted(bodies, key=lambda x: x.key):
            calls = [(bi, t) for bi, t in b.calls() if is_producer(prog, t, helpers)]
            if not calls:
                continue
            rep.fn(b.key)
            n_fn += 1
            it = ctx.interp(b.key)
            I.CUR_BODY[0] = b
            name = b.pretty.split("::")[-1]
            prods = {}
            for bi, t in calls:
                R = ("call", (b.key, bi, len(b.blocks[bi]["stmts"])), callee_path(t))
                prods[R] = (bi, t)
                n_prod += 1
                pr = prog.bodies[callee_path(t)].pretty
                S, args = args_at(ctx, b.key, bi)
                if S is None:
                    continue
                # ---- R3 receiver, R4 flags
                if pr.endswith("ChunkSerializer::serialize") or pr.endswith("ChunkSerializer::set_max_chunk_size"):
                    tgt = it.target(args[0])
                    okr = tgt[0][0] == "P" and is_param_load(tgt[0][1], 1) and len(tgt[1]) == 1 and tgt[1][0][2] in ser_fields
                    if not okr and isinstance(tgt[0][1], tuple):
                        # constructors operate on the session value being built: a local of the session type
                        okr = tgt[0][0] == "L" and b.locals[tgt[0][1]]["t"]["s"] == ty and len(tgt[1]) == 1 and tgt[1][0][2] in ser_fields
                    if tgt[0][0] == "L" and not okr:
                        okr = b.locals[tgt[0][1]]["t"]["s"] == ty and len(tgt[1]) == 1 and tgt[1][0][2] in ser_fields
                    rep.check("C18.R3", "%s::%s|receiver" % (which, name), okr, "serializes through self.%s" % ser_fields[0] if ser_fields else "-",
                              "%s calls %s on %s, not on the session's own serializer" % (b.pretty, pr.split("::")[-1], stable(args[0])), t["span"])
                if pr.endswith("ChunkSerializer::serialize") and len(args) >= 4:
                    force, drop = args[2], args[3]
                    okd = droppable_origin_ok(ctx, prog, b, drop)
                    rep.check("C18.R4", "%s::%s|can_be_dropped" % (which, name), okd,
                              "can_be_dropped is %s" % ("false" if const_val(drop) == 0 else "the caller's can_be_dropped"),
                              "%s passes can_be_dropped = %s to serialize: only media whose loss the application accepted may be flagged droppable (a dropped protocol message breaks the session)" % (b.pretty, stable(drop)), t["span"])
                    rep.check("C18.R4", "%s::%s|force_uncompressed" % (which, name), const_val(force) is not None, "force_uncompressed is a constant (%s)" % const_val(force),
                              "%s passes a computed force_uncompressed (%s)" % (b.pretty, stable(force)), t["span"], nontrivial=False)
            # ---- R1 / R2: where do the produced packets go?
            placed = {}          # R -> (container id, position)
            order_violations = []
            # (i) vec![...] aggregates and tuples in any statement / returned value
            seqs = []
            for bi in b.rpo:
                for si, st in enumerate(b.blocks[bi]["stmts"]):
                    rv = st["rv"]
                    if rv["k"] == "agg" and rv.get("ak") == "adt" and rv["ops"]:
                        # a packet wrapped into a result value (OutboundResponse(p), Ok(p), ...)
                        S = it.entry_states.get(bi)
                        if S is not None:
                            S = S.copy()
                            for j, s2 in enumerate(b.blocks[bi]["stmts"][:si]):
                                it.cur = (bi, j)
                                it.transfer_stmt(S, s2)
                            it.cur = (bi, si)
                            for o in rv["ops"]:
                                for R in producers_in(it.eval_op(S, o), prods):
                                    placed.setdefault(R, ("wrapped", 0))
                    if rv["k"] == "agg" and rv.get("ak") in ("array", "tuple") and len(rv["ops"]) >= 1:
                        S = it.entry_states.get(bi)
                        if S is None:
                            continue
                        S = S.copy()
                        for j, s2 in enumerate(b.blocks[bi]["stmts"][:si]):
                            it.cur = (bi, j)
                            it.transfer_stmt(S, s2)
                        it.cur = (bi, si)
                        elems = [it.eval_op(S, o) for o in rv["ops"]]
                        seq = [producers_in(e, prods) for e in elems]
                        if any(seq):
                            seqs.append(("agg@bb%d" % bi, seq))
            # (ii) pushes onto one vector, in dominance order
            pushes = {}
            for bi, t in b.calls():
                if callee_name(t) == "alloc::vec::Vec::push":
                    S, args = args_at(ctx, b.key, bi)
                    if S is None:
                        continue
                    tgt = it.target(args[0])
                    pr_ = producers_in(args[1], prods)
                    pushes.setdefault(tgt, []).append((bi, pr_))
            for tgt, lst in pushes.items():
                lst.sort(key=lambda x: b.rpo_index[x[0]])
                if any(p for _, p in lst):
                    seqs.append(("push:%s" % stable(("ref", tgt)), [p for _, p in lst]))
            # (ii') a produced packet put in *front* of a vector that other results were appended to before: it was serialized after
            # them and is returned before them
            for bi, t in b.calls():
                if callee_name(t) == "alloc::vec::Vec::insert":
                    S, args = args_at(ctx, b.key, bi)
                    if S is None or len(args) < 3 or not producers_in(args[2], prods):
                        continue
                    tgt = it.target(args[0])
                    earlier = [bj for bj, t2 in b.calls() if bj != bi and callee_name(t2) in ("alloc::vec::Vec::push", "alloc::vec::Vec::append", "alloc::vec::Vec::extend_from_slice",
                               "<alloc::vec::Vec<T, A> as core::iter::traits::collect::Extend<T>>::extend") and b.dominates(bj, bi) is False and bj in b.rpo_index and b.rpo_index[bj] < b.rpo_index[bi]]
                    idx = const_val(args[1])
                    prod_block = max((prods[R][0] for R in producers_in(args[2], prods)), key=lambda x: b.rpo_index.get(x, 0))
                    appended_before_production = [bj for bj, t2 in b.calls() if callee_name(t2) in ("alloc::vec::Vec::push", "alloc::vec::Vec::append",
                                                  "<alloc::vec::Vec<T, A> as core::iter::traits::collect::Extend<T>>::extend") and bj in b.rpo_index and b.rpo_index[bj] < b.rpo_index.get(prod_block, 0)
                                                  and it.target(args_at(ctx, b.key, bj)[1][0]) == tgt]
                    if idx == 0 and appended_before_production:
                        rep.bad("C18.R1", "%s::%s|front-insert-of-a-later-packet" % (which, name),
                                "%s serializes a packet after other results were already appended to the returned vector and then inserts it at index 0: it is returned before packets that were serialized before it" % b.pretty, t["span"])
            # (iii) a single packet returned directly
            for bi in b.return_blocks:
                S = it.exit_state(bi)
                if S is None:
                    continue
                v = S.read((it.L(0), ()))
                for R in producers_in(v, prods):
                    placed.setdefault(R, ("return", 0))
            for cid, seq in seqs:
                flat = []
                for pos, ps in enumerate(seq):
                    for R in ps:
                        placed[R] = (cid, pos)
                        flat.append((pos, R))
                for i in range(len(flat)):
                    for j in range(i + 1, len(flat)):
                        (pa, Ra), (pb, Rb) = flat[i], flat[j]
                        ba, bb = prods[Ra][0], prods[Rb][0]
                        if pa < pb and ba != bb and b.dominates(bb, ba):
                            order_violations.append((Ra, pa, Rb, pb))
            for (Ra, pa, Rb, pb) in order_violations:
                la, lb = prods[Ra][1]["span"]["l"], prods[Rb][1]["span"]["l"]
                rep.bad("C18.R1", "%s::%s|order" % (which, name),
                        "%s returns the packet serialized at line %d at position %d, before the packet serialized earlier at line %d (position %d): with header compression the "
                        "peer decodes the first one against a header it has not seen yet" % (b.pretty, la, pa, lb, pb), prods[Ra][1]["span"])
            if not order_violations and seqs:
                rep.ok("C18.R1", "%s::%s|order" % (which, name), "packets are returned in the order they were serialized (%d container(s))" % len(seqs), b.span)
            for R, (bi, t) in prods.items():
                rep.check("C18.R2", "%s::%s|packet-returned" % (which, name), R in placed, "the packet is moved into the result",
                          "the packet produced at line %d of %s never reaches the returned value: the peer would miss a message the serializer's header state already accounts for" % (t["span"]["l"], b.pretty), t["span"])
        # ---- R5 clock
        ge = body_by_pretty(prog, ty + "::get_epoch")
        if ge is None:
            rep.anchor_missing("C18.R5", ty + "::get_epoch")
        else:
            rep.fn(ge.key)
            casts = [st for blk in ge.blocks for st in blk["stmts"] if st["rv"]["k"] == "cast" and st["rv"]["ck"].startswith("IntToInt") and st["rv"]["to"]["s"] == "u32"]
            rep.check("C18.R5", "%s|clock-truncates" % which, len(casts) >= 1, "the millisecond clock is narrowed with a truncating `as u32`",
                      "get_epoch does not narrow its millisecond count with a truncating cast", ge.span)
    rep.floor("C18.R1", "session functions that produce packets", n_fn, 20)
    rep.floor("C18.R3", "serialize / set_max_chunk_size / helper call sites in session code", n_prod, 36)
    # no Packet built outside the serializer module
    outside = []
    for b in prog.bodies.values():
        if b.kind == "promoted" or is_derived(b):
            continue
        for blk in b.blocks:
            for st in blk["stmts"]:
                rv = st["rv"]
                if rv["k"] == "agg" and rv.get("ak") == "adt" and rv["adt"].endswith("chunk_io::serializer::Packet") and "chunk_io::serializer" not in b.key:
                    outside.append(b.pretty)
    rep.check("C18.R3", "packet-built-only-by-serializer", not outside, "Packet values are constructed only inside chunk_io::serializer",
              "Packet is also constructed in %s, bypassing the serializer's header state" % sorted(set(outside)))
    # ---- R9 a call that fails hands out every packet it serialized, or serialized none: on no path does an error return follow a
    # successful serialize / set_max_chunk_size (the packet would be dropped while the serializer's header state has moved on, so the
    # next packet on that chunk stream is compressed against a header the peer never received).  handle_input and the constructor are
    # exempt: their errors end the connection / discard the session.
    from .. import grammar
    if wants(rep, "C18.R9"):
        n9 = 0
        for which, ty in SESSIONS.items():
            for b in sorted(prog.bodies.values(), key=lambda b: b.key):
                if not (b.kind == "assoc" and b.impl and b.impl.get("trait") is None and b.impl["self_ty"] == ty):
                    continue
                name = b.pretty.split("::")[-1]
                if name in ("new", "handle_input") or not any(is_producer(prog, t, {}) for _bi, t in b.calls()):
                    continue
                ex = grammar.trace(env, b.key, "r")
                if ex.truncated:
                    # too many paths to replay (2^11 optional metadata keys): decide on the control-flow graph instead - from the
                    # success edge of every producer call no error exit (a `?` propagation or an Err built in place) is reachable
                    n9 += 1
                    bad_cfg = cfg_error_after_producer(prog, b)
                    if bad_cfg is None:
                        rep.cannot_analyse("C18.R9", "%s::%s" % (which, name), "too many paths in %s and its producer calls are not followed by a `?`" % b.pretty, b.span)
                    elif bad_cfg:
                        rep.bad("C18.R9", "%s::%s|packet-lost-when:later-step-fails" % (which, name),
                                "%s serializes a packet and an error exit is reachable afterwards (%s): the packet would be dropped while the serializer has moved on" % (b.pretty, bad_cfg), b.span)
                    else:
                        rep.ok("C18.R9", "%s::%s|no-packet-lost-on-error" % (which, name), "no error exit is reachable from the success edge of a serialize call (control-flow graph)", b.span, nontrivial=False)
                    continue
                n9 += 1
                lost = set()
                for p in ex.paths:
                    prod = None
                    for i, t in enumerate(p):
                        if t[0] == "when" and re.match(r"^discr\(call\([^()]*::(serialize|set_max_chunk_size)\)\)$", t[1]) and t[2] == "0" and prod is None:
                            prod = i
                    if prod is None:
                        continue
                    rets = [t for t in p if t[0] == "returns"]
                    text = rets[-1][1] if rets else ""
                    if p[-1] == ("end", "err") or text.startswith("Err("):
                        fails = [t for t in p[prod:] if t[0] == "when" and t[1].startswith("discr(call(") and t[2] == "1"]
                        step = re.sub(r"^discr\(call\((.*)\)\)$", r"\1", fails[-1][1]).split("::")[-1] if fails else re.sub(r"\(.*", "", text)
                        # a later serialize of a message the session built itself cannot fail: the serializer refuses only payloads
                        # above 16 MiB, and the only unbounded parts of these messages are AMF0 strings of at most 65 535 bytes each
                        # (assumption A-XFN, stated in DESIGN section 5 C18 R9); every other fallible step is reported
                        if step != "serialize":
                            lost.add(step)
                for step in sorted(lost):
                    rep.bad("C18.R9", "%s::%s|packet-lost-when:%s-fails" % (which, name, step),
                            "%s serializes a packet and can then fail in %s: the call returns the error, the packet is dropped, but the serializer's remembered headers have "
                            "already advanced - the next packet on that chunk stream is compressed against a header the peer never received" % (b.pretty, step), b.span)
                if not lost:
                    rep.ok("C18.R9", "%s::%s|no-packet-lost-on-error" % (which, name), "no error return follows a successful serialize", b.span, nontrivial=False)
        rep.floor("C18.R9", "session functions that serialize packets", n9, 20)
    # ---- R6 / R7 serializer-level rules that C18's statement also rests on
    from . import C08, C01
    if wants(rep, "C18.R6"):
        C08.run(env, PrefixReport(rep, "C08.", "C18.R6.", only=("C08.R1", "C08.R2")))
    if wants(rep, "C18.R7"):
        C01.run(env, PrefixReport(rep, "C01.", "C18.R7.", only=("C01.R2", "C01.R3", "C01.R5")))
    from . import C07
    if wants(rep, "C18.R8"):
        C07.run(env, PrefixReport(rep, "C07.", "C18.R8.", only=("C07.R2", "C07.R5", "C07.R6")))
