"""Chunk codec extraction shared by C01, C06, C07, C08, C16: per-format writer / reader layouts, the
extended-timestamp predicate on both sides, format-bit tables, basic-header forms, stage cycle."""
import json, os, re
from .common import *
from . import loops
from .. import grammar
from ..grammar import fmt_path
from ..absint import *
from ..interp import Interp, stable
from .amf0 import is_io_plumbing

SPEC = os.path.join(os.path.dirname(os.path.dirname(os.path.dirname(os.path.abspath(__file__)))), "spec", "rtmp_chunk.json")

WIDTHS = {"u8": 1, "u16be": 2, "u24be": 3, "u32be": 4, "u32le": 4, "u16le": 2, "u24le": 3, "u64be": 8}


def load_spec():
    with open(SPEC) as f:
        return json.load(f)


def sig(path):
    return [t for t in path if not is_io_plumbing(t)]


def param_on_path(p, name):
    """True / False when the path is taken only with that value of the bool parameter, None when it does not depend on it"""
    for t in p:
        if t[0] == "probe" and isinstance(t[1], tuple) and t[1] and t[1][0] == "params":
            for n, v in t[1][1:]:
                if n == name:
                    return None if v is None else bool(v)
    return None


def format_adt(prog):
    for k, a in prog.adts.items():
        if a["pretty"].endswith("chunk_header::ChunkHeaderFormat"):
            return k, a
    return None, None


def entry_with_format(ctx, body, param_index=None, self_field=None, vi=0):
    """entry state assuming the ChunkHeaderFormat reachable through a parameter (or through self.<field>) is variant vi"""
    base = ctx.entries.get(body.key)
    E = base.copy() if base is not None else State()
    L = ("L", param_index if param_index is not None else 1, body.key)
    p = ("ld", (L, ()), "entry")
    if self_field is None:
        target = ("ld", (("P", p), ()), "entry")
    else:
        target = ("ld", (("P", p), (self_field,)), "entry")
    E.doms[("discr", target)] = Dom(vi, vi)
    return E


def format_param(body):
    for i in range(1, body.arg_count + 1):
        t = body.locals[i]["t"]
        if t.get("k") == "ref" and t["to"].get("s", "").endswith("ChunkHeaderFormat"):
            return i
    return None


class ChunkModel:
    """everything extracted once per run"""

    def __init__(self, env, rep, rule):
        self.env = env
        self.prog = env.prog
        self.ctx = env.ctx
        self.rep = rep
        self.ok = True
        prog = self.prog
        self.fkey, self.fadt = format_adt(prog)
        need = {
            "add_chunk": "chunk_io::serializer::ChunkSerializer::add_chunk",
            "serialize": "chunk_io::serializer::ChunkSerializer::serialize",
            "set_size": "chunk_io::serializer::ChunkSerializer::set_max_chunk_size",
            "get_header_format": "chunk_io::serializer::get_header_format",
            "csid_map": "chunk_io::serializer::get_csid_for_message_type",
            "get_next": "chunk_io::deserializer::ChunkDeserializer::get_next_message",
            "get_format": "chunk_io::deserializer::get_format",
            "get_csid": "chunk_io::deserializer::get_csid",
        }
        self.b = {}
        for k, p in need.items():
            b = body_by_pretty(prog, p)
            if b is None:
                rep.anchor_missing(rule, p)
                self.ok = False
            else:
                self.b[k] = b
                rep.fn(b.key)
        if self.fadt is None:
            rep.anchor_missing(rule, "enum chunk_header::ChunkHeaderFormat")
            self.ok = False
        if not self.ok:
            return
        self.variants = [v["name"] for v in self.fadt["variants"]]
        self._writer()
        self._reader()

    # ------------------------------------------------------------------------------ writer
    def _writer(self):
        env, prog = self.env, self.prog
        ac = self.b["add_chunk"]
        def flags(it, S):
            # what the path's state knows about the truth of each bool parameter (however the test on it was written)
            out = []
            for i in range(1, ac.arg_count + 1):
                if ac.locals[i]["t"].get("k") == "bool":
                    d = S.dom(State().read((it.L(i), ())))
                    out.append((ac.locals[i].get("name"), d.lo if d.lo == d.hi else None))
            return ("params",) + tuple(out)
        tr = grammar.trace(env, ac.key, "w", probe=flags)
        self.add_chunk_paths = [sig(p) for p in grammar.ok_paths(tr)]
        # sequence of emitter helpers (local callees that receive the byte sink), identical on every Ok path
        seqs = set()
        for p in self.add_chunk_paths:
            seqs.add(tuple(t[1] for t in p if t[0] == "call" and self._takes_sink(t[1])))
        self.emitters = sorted(seqs)[0] if len(seqs) == 1 else None
        self.emitter_seqs = seqs
        # mask table of the basic header and per-format layout
        self.w_mask = {}
        self.w_layout = {}
        self.w_ext = None
        if self.emitters is None:
            return
        for vi, vn in enumerate(self.variants):
            layout = []
            for h in self.emitters:
                hb = body_by_pretty(prog, h)
                self.rep.fn(hb.key)
                fp = format_param(hb)
                entry = entry_with_format(self.ctx, hb, fp, None, vi) if fp is not None else None
                ex = grammar.Extractor(env, hb.key, "w", entry, None)
                ex.probe = self._field_dom_probe(hb)
                ex.run()
                alts = []
                for p in grammar.ok_paths(ex):
                    toks = [t for t in p if t[0] in WIDTHS or t[0] == "bytes" or t[0] == "unmodelled"]
                    cond = [t for t in sig(p) if t[0] == "when" and not t[1].startswith("discr(load(*load(format")]
                    cond += [w for t in p if t[0] == "probe" for w in t[1] if w not in cond]
                    alts.append((tuple(toks), tuple(cond)))
                uniq = sorted(set(alts), key=repr)
                layout.append((h.split("::")[-1], uniq))
            self.w_layout[vi] = layout

    def _field_dom_probe(self, body, through_self=None):
        """what a path's final state knows about the value the header's 24-bit timestamp field had on entry, as comparison
        decisions: the same whether the test was written in place, through min/max or in a predicate helper"""
        from . import facts
        prog = self.prog
        HDR = "chunk_io::chunk_header::ChunkHeader"
        pr = facts.field_proj(prog, HDR, ["timestamp_field"])
        hk, _ = facts.adt_by_pretty(prog, HDR)

        def probe(it, S):
            out = []
            if pr is None:
                return ()
            cands = []
            if through_self is not None:
                cands.append(("load(*load(self).%s.timestamp_field)" % through_self[2], State().read((("P", State().read((it.L(1), ()))), (through_self,) + pr))))
            else:
                for i in range(1, body.arg_count + 1):
                    t = body.locals[i]["t"]
                    if t.get("k") == "ref" and t["to"].get("adt") == hk:
                        cands.append(("load(*load(%s).timestamp_field)" % (body.locals[i].get("name") or "_%d" % i), State().read((("P", State().read((it.L(i), ()))), pr))))
            for name, v in cands:
                d = S.dom(v)
                if d.lo > 0:
                    out.append(("when", "(%s Ge %d)" % (name, d.lo), "1"))
                if d.hi < 4294967295:
                    out.append(("when", "(%s Le %d)" % (name, d.hi), "1"))
            return tuple(out)
        return probe

    def _takes_sink(self, pretty):
        b = body_by_pretty(self.prog, pretty)
        if b is None:
            return False
        for i in range(1, b.arg_count + 1):
            t = b.locals[i]["t"]
            if t.get("k") == "ref" and t.get("mut") and grammar.is_u8_sink_type(t):
                return True
        return False

    def writer_fields(self, vi):
        """[(kind, role)] of the message header a format-vi chunk carries (basic header and payload excluded),
        plus the extended-timestamp alternative; None if some helper has several unconditional shapes"""
        out = []
        ext = None
        basic = None
        for h, alts in self.w_layout.get(vi, []):
            shapes = {tuple(t[0] for t in a[0]) for a in alts}
            if len(alts) == 1 and not alts[0][1]:
                for t in alts[0][0]:
                    out.append((h, t))
            elif len(shapes) == 1 and next(iter(shapes)):
                # the same fields on every path, only the value written depends on a condition (e.g. a cap written as if/else):
                # one field per position, described by the path that writes the variable value, with the hull of the intervals
                ref = max(alts, key=lambda a: sum(1 for t in a[0] if len(t) > 1 and t[1] == "hole"))
                for i, t in enumerate(ref[0]):
                    los, his = [], []
                    for a in alts:
                        u = a[0][i]
                        if len(u) >= 5 and u[1] == "hole":
                            los.append(u[3])
                            his.append(u[4])
                        elif len(u) >= 3 and u[1] == "const" and isinstance(u[2], int):
                            los.append(u[2])
                            his.append(u[2])
                    if len(t) >= 5 and t[1] == "hole" and los:
                        role = t[2]
                        consts = [a[0][i][2] for a in alts if len(a[0][i]) >= 3 and a[0][i][1] == "const" and isinstance(a[0][i][2], int)]
                        holes = [a[0][i] for a in alts if len(a[0][i]) >= 5 and a[0][i][1] == "hole"]
                        if len(alts) == 2 and len(consts) == 1 and len(holes) == 1 and holes[0][4] in (consts[0] - 1, consts[0]):
                            # "x if x < c else c" (or "x if x <= c else c") is min(x, c): the variable value is written exactly when it is
                            # below (not above) the constant
                            role = "min(%s,%d)" % (holes[0][2], consts[0])
                        t = (t[0], t[1], role, min(los), max(his))
                    out.append((h, t))
            elif all(a[1] for a in alts) or len(alts) == 2:
                ext = (h, alts)
            else:
                return None, None
        return out, ext

    # ------------------------------------------------------------------------------ reader
    def _reader(self):
        env, prog, ctx = self.env, self.prog, self.ctx
        gn = self.b["get_next"]
        self.stage_field = None
        self.stage_cycle = None
        adt = None
        for k, a in prog.adts.items():
            if a["pretty"] == gn.impl["self_ty"]:
                adt = a
        self.de_adt = adt
        fmt_field = None
        for i, f in enumerate(adt["variants"][0]["fields"]):
            if f["name"] == "current_stage":
                self.stage_field = ("f", i, f["name"])
            if f["t"]["s"].endswith("ChunkHeaderFormat"):
                fmt_field = ("f", i, f["name"])
        self.fmt_field = fmt_field
        heads = list(gn.loops)
        if len(heads) != 1 or self.stage_field is None or fmt_field is None:
            self.rep.anchor_missing("chunk-reader", "stage loop / stage field / format field of ChunkDeserializer")
            self.ok = False
            return
        edges, callee_of, problems = loops.stage_graph(env, gn, heads[0], self.stage_field)
        self.stage_edges, self.stage_fn = edges, callee_of
        # the cycle, starting at the stage that parses the basic header (the only one calling get_format)
        start = None
        for s, ck in callee_of.items():
            if any(callee_path(t) == self.b["get_format"].key for _, t in prog.bodies[ck].calls()):
                start = s
        order = []
        cur = start
        seen = set()
        while cur is not None and cur not in seen:
            seen.add(cur)
            order.append(cur)
            nxt = [x for x in edges.get(cur, ()) if x != cur]
            cur = nxt[0] if len(nxt) == 1 else None
        self.stage_order = order
        self.stage_start = start
        self.r_layout = {}
        self.r_paths = {}
        for vi in range(len(self.variants)):
            lay = []
            for s in order[1:]:
                sb = prog.bodies[callee_of[s]]
                self.rep.fn(sb.key)
                entry = entry_with_format(ctx, sb, None, fmt_field, vi)
                hdr_field = next((("f", i, f["name"]) for i, f in enumerate(adt["variants"][0]["fields"]) if f["name"] == "current_header"), None)
                tr = grammar.trace(env, sb.key, "r", entry=entry, probe=self._field_dom_probe(sb, hdr_field) if hdr_field else None)
                succ = []
                for p in grammar.ok_paths(tr):
                    sp = sig(p)
                    rets = [t for t in sp if t[0] == "returns"]
                    if not rets or "NotEnoughBytes" in rets[-1][1]:
                        continue
                    succ.append(sp)
                self.r_paths[(vi, s)] = succ
                shapes = set()
                for sp in succ:
                    takes = tuple((t[0], t[1], t[2]) if t[0] == "take" else (t[0], t[1]) for t in sp if t[0] in ("take", "read"))
                    first_take = next((i for i, t in enumerate(sp) if t[0] in ("take", "read")), len(sp))
                    # decisions that govern whether / how much is consumed: those before the first consumption
                    cond = tuple(t for t in sp[:first_take] if t[0] == "when" and "current_header_format" not in t[1] and "buffer.len" not in t[1])
                    cond += tuple(w for t in sp if t[0] == "probe" for w in t[1] if w not in cond)
                    fin = [t for t in sp if t[0] == "final"]
                    shapes.add((takes, cond, fin[-1][1] if fin else ()))
                lay.append((sb.pretty.split("::")[-1], sorted(shapes, key=repr)))
            self.r_layout[vi] = lay

    def reader_fields(self, vi):
        """([(stage, kinds, header fields the value is stored in)], extended-timestamp stage, payload stage) per format"""
        out = []
        ext = None
        payload = None
        for name, shapes in self.r_layout.get(vi, []):
            kinds = {tuple(self._kinds(sh[0])) for sh in shapes}
            if any(any(k.startswith("bytes(") for k in ks) for ks in kinds):
                payload = (name, shapes)
                continue
            if len(kinds) == 1:
                ks = list(kinds)[0]
                if not ks:
                    continue
                fields = set()
                for sh in shapes:
                    for fld, val in sh[2]:
                        if fld.startswith("current_header.") and re.search(r"(^|[^\w])#1($|[^\w])|^elem(\[\d+\])?$", val) and "timestamp.value" not in fld and fld != "current_header.timestamp":
                            fields.add(fld.split(".", 1)[1])
                out.append((name, ks, sorted(fields)))
            else:
                ext = (name, shapes)
        return out, ext, payload

    def _kinds(self, takes):
        """typed reads of a stage: a take(n) followed by read:<kind> is that kind; a bare take(1) is a u8"""
        ks = []
        i = 0
        takes = list(takes)
        while i < len(takes):
            t = takes[i]
            if t[0] == "take":
                if i + 1 < len(takes) and takes[i + 1][0] == "read":
                    k = takes[i + 1][1]
                    if str(WIDTHS.get(k)) == str(t[2]):
                        ks.append(k)
                    else:
                        ks.append("%s/take%s" % (k, t[2]))
                    i += 2
                    continue
                ks.append("u8" if t[2] == "1" else "bytes(%s)" % t[2])
            else:
                ks.append(t[1] + "/untaken")
            i += 1
        return ks


def reader_format_table(m):
    """{variant name: value of the two top bits of the first byte for which get_format returns it}: get_format is replayed once
    per class of the byte (top bits 00, 01, 10, 11), so the table is the same for a mask-and-match, a shift, a chain of
    comparisons.  A class for which more than one variant (or none) can be returned is left out."""
    gf = m.b["get_format"]
    it0 = m.ctx.top_interp(gf.key)
    table = {}
    if it0 is None or gf.arg_count != 1:
        return table
    pty = gf.locals[1]["t"]
    p = State().read((it0.L(1), ()))
    byte = State().read((("P", p), ())) if pty.get("k") == "ref" else p
    for cls in range(4):
        base = m.ctx.entries.get(gf.key)
        E = base.copy() if base is not None else State()
        set_ty(byte, "u8")
        E.doms[byte] = Dom(64 * cls, 64 * cls + 63)
        ex = grammar.trace(m.env, gf.key, "r", entry=E)
        got = set()
        for path in ex.paths:
            r = [t for t in path if t[0] == "returns"]
            if path and path[-1][0] == "end" and path[-1][1] in ("ok", "ret") and r:
                mm = re.match(r"^ChunkHeaderFormat::(\w+)$", r[-1][1])
                got.add(mm.group(1) if mm else None)
            elif path and path[-1][0] == "end" and path[-1][1] != "ret":
                got.add(None)
        if len(got) == 1 and None not in got:
            table.setdefault(next(iter(got)), []).append(cls)
    return {vn: cl[0] for vn, cl in table.items() if len(cl) == 1}


def interval_from_decisions(path, var_sub, lo=0, hi=4294967295):
    """refine [lo,hi] for the variable whose rendering contains var_sub by the comparison decisions on a path"""
    for t in path:
        if t[0] != "when":
            continue
        desc, negs = t[1], 0
        while desc.startswith("!"):
            desc, negs = desc[1:], negs + 1
        m = re.match(r"^\((.*) (Lt|Le|Gt|Ge|Eq|Ne) (\d+)\)$", desc)
        if not m or var_sub not in m.group(1):
            continue
        op, c = m.group(2), int(m.group(3))
        truth = t[2].startswith("other") or t[2] == "1"
        if negs % 2:
            truth = not truth
        if not truth:
            op = {"Lt": "Ge", "Le": "Gt", "Gt": "Le", "Ge": "Lt", "Eq": "Ne", "Ne": "Eq"}[op]
        if op == "Lt":
            hi = min(hi, c - 1)
        elif op == "Le":
            hi = min(hi, c)
        elif op == "Gt":
            lo = max(lo, c + 1)
        elif op == "Ge":
            lo = max(lo, c)
        elif op == "Eq":
            lo, hi = max(lo, c), min(hi, c)
        elif op == "Ne":
            if c == lo:
                lo += 1
            if c == hi:
                hi -= 1
    return (lo, hi)


def discr_set_on_path(path, var_sub, universe):
    """the set of discriminant values the decisions on a path allow for the enum value whose rendering contains var_sub
    (match arms, == / != comparisons in either form); None if the path never looks at it"""
    allowed = set(universe)
    looked = False
    for t in path:
        if t[0] != "when":
            continue
        m1 = re.match(r"^discr\((.*)\)$", t[1])
        m2 = re.match(r"^\(discr\((.*)\) (Eq|Ne) (\d+)\)$", t[1])
        if m1 and var_sub in m1.group(1) and not m2:
            looked = True
            if t[2].startswith("other:"):
                allowed -= {int(x) for x in t[2][6:].split(",") if x.lstrip("-").isdigit()}
            else:
                allowed &= {int(x) for x in t[2].split(",") if x.lstrip("-").isdigit()}
        elif m2 and var_sub in m2.group(1):
            looked = True
            c = int(m2.group(3))
            truth = t[2].startswith("other") or t[2] == "1"
            if m2.group(2) == "Ne":
                truth = not truth
            if truth:
                allowed &= {c}
            else:
                allowed -= {c}
    return allowed if looked else None


def format_on_path(m, p):
    """the header format a path of add_chunk uses: variant name if decided on the path, else None"""
    fmt = None
    for t in p:
        if t[0] == "call" and t[1].endswith("add_initial_timestamp") and t[2]:
            a = t[2][0]
            mm = re.match(r"^&ChunkHeaderFormat::(\w+)$", a)
            if mm:
                fmt = mm.group(1)
    if fmt is None:
        fs = computed_format_set(m, p)
        if len(fs) == 1:
            fmt = m.variants[next(iter(fs))]
    return fmt


def computed_format_set(m, p):
    """the variants the result of get_header_format can still be on this path, from the decisions taken on it (== tests and matches)"""
    fs = set(range(len(m.variants)))
    G = "discr(call(serializer::get_header_format))"
    for t in p:
        if t[0] != "when":
            continue
        mm = re.match(r"^\(" + re.escape(G) + r" (Eq|Ne) (\d+)\)$", t[1])
        if mm:
            k = int(mm.group(2))
            holds = t[2].startswith("other") if t[2] != "1" else True
            if t[2] == "0":
                holds = False
            if (mm.group(1) == "Eq") == holds:
                fs &= {k}
            else:
                fs -= {k}
        elif t[1] == G:
            if t[2].startswith("other:"):
                fs -= {int(x) for x in t[2][6:].split(",") if x.isdigit()}
            else:
                fs &= {int(x) for x in t[2].split(",") if x.isdigit()}
    return fs


def timestamp_semantics(m, rep, rule):
    """format 0 carries the absolute timestamp, the compressed formats the delta to the stored previous header;
    the reader sets / adds accordingly"""
    full = m.variants[0]
    n_full = 0
    bad = []
    n_delta = 0
    for p in m.add_chunk_paths:
        its = [t for t in p if t[0] == "call" and t[1].endswith("add_initial_timestamp")]
        if not its or len(its[0][2]) < 2:
            continue
        hdr = its[0][2][1]
        fields = hdr.split(", ")
        if len(fields) < 3:
            continue
        tsf = fields[2]
        fmt = format_on_path(m, p)
        if fmt == full:
            n_full += 1
            if not re.match(r"^load\(\*?load\(message\)\.timestamp\.value\)$", tsf):
                conds = " ".join(grammar.fmt_tok(t) for t in p if t[0] == "when")[:260]
                bad.append("a Full (type 0) header is written with timestamp field %s instead of the message's absolute timestamp on the path %s" % (tsf[:140], conds))
        elif fmt is None or not any(t[0] == "call" and t[1].endswith("add_initial_timestamp") and t[2] and t[2][0] == "&ChunkHeaderFormat::" + fmt for t in p):
            # format computed by get_header_format: which variants can it still be on this path?
            excluded_full = 0 not in computed_format_set(m, p)
            shape = m.ctx.ret_shape(m.b["get_header_format"].key)
            may_full = (shape is None or shape.get("variants") is None or 0 in shape["variants"]) and not excluded_full
            if may_full:
                conds = " ".join(grammar.fmt_tok(t) for t in p if t[0] == "when")[:200]
                bad.append("the format returned by get_header_format can be Full on the path %s, where the header's timestamp field is %s, not the absolute timestamp" % (conds, tsf[:120]))
                continue
            # not Full on this path: must be the delta to the previous header
            n_delta += 1
            direct = re.match(r"^\(load\(\*?load\(message\)\.timestamp\.value\) SubW load\(.*Some\.0\.timestamp\.value\)\)$", tsf)
            # or: the value of the timestamp type's own subtraction applied to (message timestamp, previous timestamp) - that the
            # subtraction is the difference modulo 2^32 is C20 R1, decided for whatever way it is written
            via_sub = re.match(r"^call\(.*::sub\)\.value$", tsf) and any(
                t[0] == "call" and re.search(r"ops::arith::Sub.*::sub$|::sub$", t[1]) and len(t[2]) >= 2 and
                re.match(r"^load\(\*?load\(message\)\.timestamp\)$|^RtmpTimestamp\(load\(\*?load\(message\)\.timestamp\.value\)\)$", t[2][0]) and
                re.search(r"Some\.0\.timestamp\)?$|Some\.0\.timestamp\.value\)\)$", t[2][1]) for t in p)
            if not (direct or via_sub):
                bad.append("a compressed header is written with timestamp field %s instead of (message timestamp - previous timestamp)" % tsf[:160])
    rep.floor(rule + ".paths", "add_chunk paths writing a Full header", n_full, 3)
    rep.check(rule, "writer:timestamp-semantics", not bad and n_delta >= 1,
              "Full headers carry the absolute timestamp (%d paths), compressed headers the delta to the stored header (%d paths)" % (n_full, n_delta),
              "; ".join(bad[:2]) or "no delta path found", m.b["add_chunk"].span)
    # reader
    rbad = []
    nr = 0
    for (vi, s), paths in m.r_paths.items():
        for sp in paths:
            reads_ = [t[1] for t in sp if t[0] == "read"]
            if reads_[:1] != ["u24be"]:
                continue
            fin = [t for t in sp if t[0] == "final"]
            if not fin:
                continue
            d = dict(fin[-1][1])
            v = d.get("current_header.timestamp.value") or d.get("current_header.timestamp")
            st = [t for t in sp if t[0] == "store" and t[1] == "current_header.timestamp_field"]
            if not st:
                continue
            nr += 1
            if vi == 0:
                if v != "#1":
                    rbad.append("format %s sets the timestamp to %s (expected the value read)" % (m.variants[vi], v))
            else:
                if not (v and "AddW" in v and "current_header.timestamp.value" in v):
                    rbad.append("format %s sets the timestamp to %s (expected previous timestamp + delta)" % (m.variants[vi], v))
    # the extended timestamp: format 0 sets the timestamp to the value read; the first chunk of a delta-encoded message adds what the
    # 24-bit field (0xFFFFFF, already added) left out; a continuation chunk, which merely repeats the field, leaves the timestamp alone
    ebad, ne = [], 0
    for (vi, s), paths in m.r_paths.items():
        for sp in paths:
            reads_ = [t[1] for t in sp if t[0] == "read"]
            if reads_[:1] != ["u32be"] or not any(t[0] == "when" and "timestamp_field" in t[1] for t in sp):
                continue
            fin = [t for t in sp if t[0] == "final"]
            if not fin:
                continue
            d = dict(fin[-1][1])
            v = d.get("current_header.timestamp.value") or d.get("current_header.timestamp")
            ne += 1
            if vi == 0:
                if v != "#1":
                    ebad.append("format %s with an extended timestamp sets the timestamp to %s (expected the 32-bit value read)" % (m.variants[vi], v))
                continue
            cond = [t for t in sp if t[0] == "when" and "current_payload_data.len" in t[1]]
            held = interval_from_decisions(cond, "current_payload_data.len") if cond else None
            if held == (0, 0):
                if not (v and "AddW" in v and "current_header.timestamp.value" in v and "#1" in v and re.search(r"SubW? 16777215|AddW? 4278190081", v)):
                    ebad.append("the first chunk of a %s message with an extended timestamp sets the timestamp to %s (expected previous timestamp + (value read - 0xFFFFFF), "
                                "the 24-bit field having been added already)" % (m.variants[vi], v))
            elif held is not None and held[0] >= 1:
                if v is not None:
                    ebad.append("a continuation chunk of a %s message changes the timestamp to %s when it repeats the extended timestamp" % (m.variants[vi], v))
            else:
                if v is not None:
                    ebad.append("format %s: the timestamp becomes %s on a path that does not decide whether this is the first chunk of the message (a continuation chunk repeats the "
                                "extended field of the first chunk - for a delta-encoded message that is the delta, not the time - and must leave the timestamp alone)" % (m.variants[vi], v))
    rep.check(rule, "reader:ext-timestamp-semantics", not ebad and ne >= 4, "extended timestamp: format 0 sets, the first chunk of a delta-encoded message adds the remainder, continuation chunks leave the timestamp alone (%d stage paths)" % ne,
              "; ".join(sorted(set(ebad))[:3]) or "extended-timestamp stage paths not found", m.b["get_next"].span)
    rep.check(rule, "reader:timestamp-semantics", not rbad and nr >= 3, "the reader sets the timestamp on format 0 and adds the delta otherwise (%d stage paths)" % nr,
              "; ".join(rbad[:3]) or "timestamp stage paths not found", m.b["get_next"].span)


def timestamp_semantics_reader_only(m, rep, rule):
    class _R:
        def __init__(self, rep):
            self.rep = rep
        def floor(self, *a):
            pass
        def check(self, r, key, cond, ok, bad=None, span=None, **kw):
            if key.startswith("reader:"):
                self.rep.check(r, key, cond, ok, bad, span)
    timestamp_semantics(m, _R(rep), rule)


def payload_stage(m):
    """the stage function of the reader that moves payload bytes"""
    prog = m.prog
    for s, ck in m.stage_fn.items():
        nm = prog.bodies[ck].pretty.split("::")[-1]
        if any(nm == name and any(any("bytes(" in k for k in m._kinds(sh[0])) for sh in shapes) for name, shapes in m.r_layout[0]):
            return prog.bodies[ck]
    return None


def _field_index(prog, pretty, name):
    for k, a in prog.adts.items():
        if a["pretty"] == pretty:
            for i, f in enumerate(a["variants"][0]["fields"]):
                if f["name"] == name:
                    return i
    return None


def payload_take(m, rep, rule):
    """A chunk carries min(what is still missing of its message, chunk size) payload bytes (RTMP 1.0 section 5.3.1: every chunk but the
    last has exactly the chunk size).  Decided at every call of the payload stage that takes bytes out of the input buffer, in the
    state of the path that reaches it: amount <= message length - bytes already held;  amount <= max chunk size;
    amount >= min(of the two).  The first clause is what keeps messages apart when the chunk size grows between two chunks of one
    message (a SetChunkSize on chunk stream 2 interleaved with a long message on another chunk stream)."""
    prog, env = m.prog, m.env
    DES, HDR = "chunk_io::deserializer::ChunkDeserializer", "chunk_io::chunk_header::ChunkHeader"
    hi, pi, bi_, mi = (_field_index(prog, DES, n) for n in ("current_header", "current_payload_data", "buffer", "max_chunk_size"))
    mli = _field_index(prog, HDR, "message_length")
    pay = payload_stage(m)
    if None in (hi, pi, bi_, mi, mli) or pay is None:
        rep.anchor_missing(rule, "payload stage of the deserializer and its fields current_header.message_length / current_payload_data / buffer / max_chunk_size")
        return
    rep.fn(pay.key)
    TAKERS = ("bytes::bytes_mut::BytesMut::split_to", "bytes::buf::buf_impl::Buf::advance", "alloc::vec::Vec::drain", "bytes::bytes_mut::BytesMut::split_off")

    def cprobe(ex, it, S, t, args):
        if callee_name(t) not in TAKERS or not args:
            return None
        tgt = it.target(args[0])
        if not tgt or not tgt[1] or tgt[1][-1][0] != "f" or tgt[1][-1][2] != "buffer":
            return None
        if callee_name(t) in ("alloc::vec::Vec::drain", "bytes::bytes_mut::BytesMut::split_off"):
            return ("unmodelled", callee_name(t))
        oit = ex.outer.it
        selfv = State().read((oit.L(1), ()))
        sroot = ("P", selfv)
        amount = args[1]
        ml = S.read((sroot, (("f", hi, "current_header"), ("f", mli, "message_length"))))
        held = S.read((sroot, (("f", pi, "current_payload_data"), ("len",))))
        mx = S.read((sroot, (("f", mi, "max_chunk_size"),)))
        set_ty(held, "usize")
        mlc = ml if sv_type(ml) == "usize" else ("cast", "usize", ml)
        mxc = mx if sv_type(mx) in ("usize", None) else ("cast", "usize", mx)
        cands_missing = [("bin", "Sub", "usize", mlc, held)]
        for sv in list(S.doms.keys()) + [k[0] for k in S.zone.keys()] + [k[1] for k in S.zone.keys()]:
            # the program's own "missing" term, however it was typed
            if isinstance(sv, tuple) and sv[0] == "bin" and sv[1] == "Sub" and sv[4] == held and S.prove_eq(sv[3], mlc) and sv not in cands_missing:
                cands_missing.append(sv)
        le_missing = any(S.prove_le(amount, r, 0) for r in cands_missing)
        le_max = bool(S.prove_le(amount, mxc, 0) or S.prove_le(amount, mx, 0))
        ge_min = any(S.prove_le(("min", "usize", r, x), amount, 0) or S.prove_le(("min", "usize", x, r), amount, 0) or S.prove_le(r, amount, 0) or S.prove_le(x, amount, 0)
                     for r in cands_missing for x in (mxc, mx))
        return ("take", stable(amount), le_missing, le_max, ge_min)
    ex = grammar.Extractor(env, pay.key, "r")
    ex.all_local_calls = True
    ex.track_takes = True
    ex.track_stores = True
    ex.track_ext = True
    ex.inline = True
    units = grammar.named_units(prog)
    ex.inline_pred = lambda cb, t: cb.pretty.split("::")[-1] not in units
    ex.call_probe = cprobe
    ex.run()
    if ex.truncated:
        rep.cannot_analyse(rule, pay.pretty, "too many paths in %s" % pay.pretty, pay.span)
        return
    seen = {}
    for p in ex.paths:
        if not p or p[-1][0] != "end" or p[-1][1] == "err":
            continue
        rets = [t for t in p if t[0] == "returns"]
        if not rets or "Success" not in rets[-1][1]:
            continue
        for t in p:
            if t[0] == "cprobe" and t[1][0] == "unmodelled":
                seen[("unmodelled", t[1][1])] = None
            if t[0] == "cprobe" and t[1][0] == "take":
                key = t[1][1:]
                seen.setdefault(key, " ".join(grammar.fmt_tok(x) for x in p if x[0] == "when")[:300])
    n = 0
    for key, conds in sorted(seen.items(), key=lambda kv: str(kv[0])):
        if key[0] == "unmodelled":
            rep.cannot_analyse(rule, "payload-take:" + key[1], "the payload stage takes bytes from the input buffer with %s, which this rule does not model" % key[1], pay.span)
            continue
        amount, le_missing, le_max, ge_min = key
        n += 1
        what = []
        if not le_missing:
            what.append("may exceed what is still missing of the message (announced length - bytes already held): bytes of the next chunk are appended to this message "
                        "when the chunk size was raised between two chunks of the message")
        if not le_max:
            what.append("may exceed the chunk size")
        if not ge_min:
            what.append("may be smaller than min(missing bytes, chunk size), the payload size of a conformant chunk")
        rep.check(rule, "payload-take|le-missing=%s|le-max=%s|ge-min=%s" % (le_missing, le_max, ge_min), le_missing and le_max and ge_min,
                  "the payload stage takes %s bytes = min(missing bytes of the message, chunk size)" % amount[:120],
                  "the payload stage takes %s bytes on the path [%s], which %s" % (amount[:160], conds, "; ".join(what)), pay.span)
    rep.floor(rule, "distinct payload takes on Success paths of the payload stage", n, 1)


def suspend_gates(m, rep, rule):
    """A stage of the reader may answer "not enough bytes" only while the input buffer holds fewer bytes than the stage consumes
    when it succeeds.  A wider gate (waiting for bytes of the *next* field or chunk) holds a complete message back until more input
    arrives - a zero-length message at the end of the input is never delivered.  Decided per suspend path of every stage function in
    the state of that path: buffer.len < A for an amount A that a succeeding path of the same stage takes out of the buffer
    (symbolically, or by hi(buffer.len) + 1 <= lo(A)); a suspension decided by a callee that reports "not enough bytes" itself is
    attributed to that callee (its own gates are C06 R2 / C03)."""
    prog, env = m.prog, m.env
    DES = "chunk_io::deserializer::ChunkDeserializer"
    bi_ = _field_index(prog, DES, "buffer")
    if bi_ is None:
        rep.anchor_missing(rule, "field buffer of the deserializer")
        return
    TAKERS = ("bytes::bytes_mut::BytesMut::split_to", "bytes::buf::buf_impl::Buf::advance")
    units = grammar.named_units(prog)
    n_fn = n_paths = 0
    for s_, ck in sorted(m.stage_fn.items()):
        b = prog.bodies[ck]
        amounts = {}

        def cprobe(ex, it, S, t, args):
            if callee_name(t) not in TAKERS or not args:
                return None
            tgt = it.target(args[0])
            if not tgt or not tgt[1] or tgt[1][-1][0] != "f" or tgt[1][-1][2] != "buffer":
                return None
            d = S.dom(args[1])
            return ("amount", args[1], d.lo)

        def mk(probe):
            ex = grammar.Extractor(env, ck, "r")
            ex.all_local_calls = True
            ex.track_takes = True
            ex.track_ext = True
            ex.inline = True
            ex.inline_pred = lambda cb, t: cb.pretty.split("::")[-1] not in units
            ex.call_probe = cprobe
            ex.probe = probe
            return ex.run()
        ex1 = mk(None)
        if ex1.truncated:
            rep.cannot_analyse(rule, b.pretty, "too many paths in %s" % b.pretty, b.span)
            continue
        for p in ex1.paths:
            rets = [t for t in p if t[0] == "returns"]
            if not rets or "Success" not in rets[-1][1]:
                continue
            # what the path consumes in total: its takes (one per stage today)
            for t in p:
                if t[0] == "cprobe" and t[1][0] == "amount":
                    amounts[t[1][1]] = min(amounts.get(t[1][1], 1 << 62), t[1][2])
        n_fn += 1

        def probe(it, S):
            selfv = State().read((it.L(1), ()))
            ln = State().read((("P", selfv), (("f", bi_, "buffer"), ("len",))))
            set_ty(ln, "usize")
            hi = S.dom(ln).hi
            ok = any(S.prove_le(ln, a, -1) or hi + 1 <= lo for a, lo in amounts.items())
            return ("gate", ok, hi)
        ex2 = mk(probe)
        seen = set()
        for p in ex2.paths:
            rets = [t for t in p if t[0] == "returns"]
            if not rets or "NotEnoughBytes" not in rets[-1][1] or not p or p[-1] != ("end", "ok"):
                continue
            pr = [t for t in p if t[0] == "probe"]
            ok, hi = (pr[-1][1][1], pr[-1][1][2]) if pr else (False, None)
            # the decision that sent the path to the suspending return is its last one: a callee's result variant (the callee
            # reported the shortage) or a comparison of this stage's own
            whens = [t for t in p if t[0] == "when"]
            delegated = bool(whens) and re.match(r"^discr\((?:load\()?call\((?!ReadBytesExt)[^()]+\)\)?\)$", whens[-1][1]) is not None and "buffer.len" not in whens[-1][1]
            conds = " ".join(grammar.fmt_tok(t) for t in p if t[0] == "when")[:300]
            if (ok, delegated, conds) in seen:
                continue
            seen.add((ok, delegated, conds))
            n_paths += 1
            fname = b.pretty.split("::")[-1]
            rep.check(rule, "%s|suspends-only-for-its-own-bytes|%s" % (fname, "own-gate" if ok else "delegated" if delegated else "wider"), ok or delegated,
                      "%s suspends only while the buffer holds fewer bytes than it consumes (%s)" % (fname, "proved against the amount taken" if ok else "decided by a callee that reports the shortage"),
                      "%s answers 'not enough bytes' on the path [%s] although the buffer may already hold everything the stage consumes (amounts taken on success: %s; buffer length on this path up to %s): "
                      "a complete chunk - e.g. a zero-length message at the end of the input - is held back until bytes of the next chunk arrive" % (
                          fname, conds, sorted(stable(a)[:60] for a in amounts) or "none", hi), b.span)
    rep.floor(rule, "stage functions whose suspend paths were examined", n_fn, 5)
    rep.floor(rule + ".paths", "suspend paths examined", n_paths, 5)



def setter_applies_size(m, rep, rule):
    """ChunkDeserializer::set_max_chunk_size either refuses the value or, on every path on which it returns Ok, stores exactly the
    value it was given - at once: the peer cuts its very next chunk with the new size (a capped, rounded or deferred size
    desynchronises the stream when the size changes while a message is in flight on another chunk stream, or for sizes above the cap)."""
    prog, env = m.prog, m.env
    b = body_by_pretty(prog, "chunk_io::deserializer::ChunkDeserializer::set_max_chunk_size")
    if b is None:
        rep.anchor_missing(rule, "ChunkDeserializer::set_max_chunk_size")
        return
    rep.fn(b.key)
    ex = grammar.trace(env, b.key, "r")
    n_ok, bad = 0, []
    for p in ex.paths:
        rets = [t for t in p if t[0] == "returns"]
        text = str(rets[-1][1]) if rets else ""
        if not p or p[-1][0] != "end" or p[-1][1] == "err" or text.startswith("Err("):
            continue
        n_ok += 1
        st = [t for t in p if t[0] == "store" and t[1] == "max_chunk_size"]
        if len(st) != 1 or not re.match(r"^\(?load\(new_size\)( as \w+\))?$|^load\(\w+\)$", str(st[0][2])):
            bad.append("an Ok path %s" % (("stores max_chunk_size := %s" % str(st[0][2])[:80]) if st else "does not store the size (it is remembered elsewhere or dropped)"))
    rep.check(rule, "deserializer-setter-applies-the-announced-size", n_ok >= 1 and not bad and not ex.truncated,
              "set_max_chunk_size stores exactly the value it was given on every Ok path (%d)" % n_ok,
              "ChunkDeserializer::set_max_chunk_size: %s; the peer uses the announced size from its next chunk on" % ("; ".join(sorted(set(bad))[:2]) or "no Ok path found"), b.span)
    # who else writes the size or the input buffer?
    des_ty = m.de_adt["pretty"]
    others = []
    for fb in prog.bodies.values():
        if fb.kind != "assoc" or not fb.impl or fb.impl.get("trait") is not None or fb.impl["self_ty"] != des_ty or fb.name == "new":
            continue
        name = fb.pretty.split("::")[-1]
        for blk in fb.blocks:
            if blk["cleanup"]:
                continue
            for st in blk["stmts"]:
                pp = st["place"]["p"]
                last = pp[-1] if pp else None
                if isinstance(last, dict) and last.get("n") == "max_chunk_size" and name != "set_max_chunk_size":
                    others.append("%s writes max_chunk_size" % name)
                if isinstance(last, dict) and last.get("n") == "buffer":
                    others.append("%s replaces the input buffer (bytes already received would be lost)" % name)
    rep.check(rule, "deserializer-size-and-buffer-writers", not others,
              "only set_max_chunk_size writes the chunk size, and no method replaces the input buffer",
              "; ".join(sorted(set(others))[:3]), b.span)
