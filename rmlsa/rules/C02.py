"""C02 - client and server sessions interoperate (DESIGN.md section 5, C02): the agreements both state machines depend on."""
import re
from .common import *
from .. import grammar
from ..absint import *
from ..interp import stable
from .. import interp as I
from .chunk import sig
from ..framework import PrefixReport

SERVER = "sessions::server::ServerSession"
CLIENT = "sessions::client::ClientSession"


def traces_of(env, rep, ty, skip=("handle_input", "new")):
    prog = env.prog
    out = {}
    for b in prog.bodies.values():
        if b.kind == "assoc" and b.impl and b.impl.get("trait") is None and b.impl["self_ty"] == ty:
            name = b.pretty.split("::")[-1]
            if name in skip:
                continue
            rep.fn(b.key)
            ex = grammar.Extractor(env, b.key, "r")
            ex.all_local_calls = True
            ex.track_takes = True
            ex.track_stores = True
            ex.track_ext = True
            ex.track_local_muts = True
            # small helpers are followed in place (extracting "first argument as stream id" into a function changes nothing here)
            ex.inline = True
            units = grammar.named_units(prog)
            ex.inline_pred = lambda cb, t: cb.pretty.split("::")[-1] not in units
            out[name] = (b, [sig(p) for p in ex.run().paths])
    return out


def strings_dispatched(paths, var):
    """string literals a function compares `var` with and branches on"""
    out = set()
    for p in paths:
        for t in p:
            if t[0] == "when":
                m = re.match(r"^streq\(&?\*?%s,(.*)\)$" % var, t[1])
                if m:
                    out.add(m.group(1))
    return out


def commands_emitted(tr):
    """{command name: [(function, argument list text, message stream id text)]} of every Amf0Command handed to into_message_payload"""
    out = {}
    for name, (b, paths) in tr.items():
        for p in paths:
            for t in p:
                if t[0] == "call" and t[1].endswith("into_message_payload") and t[2] and t[2][0].startswith("RtmpMessage::Amf0Command("):
                    m = re.match(r"^RtmpMessage::Amf0Command\(to_string\('([^']*)'\), (.*)\)$", t[2][0])
                    if m:
                        out.setdefault(m.group(1), []).append((name, m.group(2), t[2][2] if len(t[2]) > 2 else ""))
    return out


def metadata_keys_written(paths):
    """{key: field} from insert('key'.to_string(), Amf0Value::X(metadata.field ...)) calls on a local properties map"""
    out = {}
    for p in paths:
        for t in p:
            if t[0] == "mut" and t[1] == "insert" and t[2].startswith("local:") and len(t[3]) >= 2:
                k = re.match(r"^to_string\('?([^')]*)'?\)$", t[3][0])
                f = re.search(r"load\(\*?load\(metadata\)\.(\w+)", t[3][1])
                if k and f:
                    out[k.group(1)] = f.group(1)
    return out


from ..framework import wants


def run(env, rep):
    prog, ctx = env.prog, env.ctx
    rep.explanation = (
        "R1 vocabulary: the command names the client emits are arms of the server's command dispatch and vice versa for _result / "
        "_error / onStatus, the status codes the client dispatches on are emitted on the server's accept paths, the publish modes, "
        "the @setDataFrame / onMetaData framing and the eleven metadata keys (three tables) agree, each key bound to the same field; "
        "R2 argument positions of publish, play, createStream's result and deleteStream agree; R3 media payload and timestamp flow "
        "unchanged from the publish_* parameters into serialize and from the deserialized payload into the raised events; R4 a "
        "received SetChunkSize is applied to the own deserializer with the announced size in both sessions; R5-R8 (shared rules: C18 R1, C01 R1-R3, C07 R3 compression only on equality and R6 no empty chunk, C16 R1-R2/R4 reassembly per chunk stream, C15 R1 effect-free suspension, C06 R3 timestamp rules of the reader): the packet-order "
        "rule of C18 R1 and the codec agreement rules of C01 R1-R2 that interoperation rests on.  Not decided: completion of "
        "connect / publish / play and exactly-once in-order delivery under all interleavings.")
    I.ELEM_SOURCES[0] = True
    st = traces_of(env, rep, SERVER)
    ct = traces_of(env, rep, CLIENT)
    if not st or not ct:
        rep.anchor_missing("C02.R1", "impl ServerSession / ClientSession")
        return
    # ------------------------------------------------------------------ R1 vocabulary
    c_cmds = commands_emitted(ct)
    s_cmds = commands_emitted(st)
    s_arms = strings_dispatched(st.get("handle_amf0_command", (None, []))[1], "name")
    c_arms = strings_dispatched(ct.get("handle_amf0_command", (None, []))[1], "name")
    rep.floor("C02.R1.client-commands", "command names emitted by the client", len(c_cmds), 5)
    for cmd in sorted(c_cmds):
        rep.check("C02.R1", "client-command:%s" % cmd, cmd in s_arms, "the server dispatches '%s'" % cmd,
                  "the client sends the command '%s' (in %s) but the server's dispatch only knows %s" % (cmd, sorted({x[0] for x in c_cmds[cmd]}), sorted(s_arms)))
    replies = {k: v for k, v in s_cmds.items() if k in ("_result", "_error", "onStatus") or k.startswith("_") or k == "onStatus"}
    rep.floor("C02.R1.server-replies", "reply command names emitted by the server", len(replies), 3)
    for cmd in sorted(replies):
        rep.check("C02.R1", "server-reply:%s" % cmd, cmd in c_arms, "the client dispatches '%s'" % cmd,
                  "the server answers with '%s' but the client's dispatch only knows %s" % (cmd, sorted(c_arms)))
    # status codes
    c_codes = strings_dispatched(ct.get("handle_on_status_command", (None, []))[1], "code")
    s_codes = set()
    for name, (b, paths) in st.items():
        for p in paths:
            for t in p:
                if t[0] == "call" and t[1].endswith("create_status_object") and len(t[2]) >= 2:
                    s_codes.add((name, t[2][0].strip("'&"), t[2][1].strip("'&")))
    accept_codes = {code for (fn, level, code) in s_codes if fn.startswith("accept_") and level == "status"}
    rep.floor("C02.R1.codes", "status codes the client dispatches on", len(c_codes), 2)
    for code in sorted(c_codes):
        rep.check("C02.R1", "status-code:%s" % code, code in accept_codes, "the server's accept path emits '%s'" % code,
                  "the client waits for the status code '%s', the server's accept paths emit %s" % (code, sorted(accept_codes)))
    # publish modes
    sent_modes = set()
    for p in ct.get("handle_amf0_command_success_result", (None, []))[1]:
        for t in p:
            if t[0] == "call" and t[1].endswith("into_message_payload") and "'publish'" in t[2][0]:
                sent_modes.update(re.findall(r"Utf8String\(to_string\('(\w+)'\)\)", t[2][0].split("vec!")[-1]))
    known_modes = strings_dispatched(st.get("handle_command_publish", (None, []))[1], r".*to_lowercase.*")
    if not known_modes:
        known_modes = {m for p in st.get("handle_command_publish", (None, []))[1] for t in p if t[0] == "when" and t[1].startswith("streq(") for m in [t[1].rsplit(",", 1)[-1].rstrip(")")] if m in ("live", "record", "append")}
    rep.check("C02.R1", "publish-modes", sent_modes == known_modes == {"live", "record", "append"}, "publish modes live / record / append on both sides",
              "the client sends publish modes %s, the server accepts %s" % (sorted(sent_modes), sorted(known_modes)))
    # metadata framing and key tables
    c_meta = ct.get("publish_metadata")
    s_meta = st.get("send_metadata")
    framing_c = [t[2][0] for p in (c_meta[1] if c_meta else []) for t in p if t[0] == "call" and t[1].endswith("into_message_payload")]
    set_df = strings_dispatched(st.get("handle_amf0_data", (None, []))[1], ".*")
    on_md = strings_dispatched(st.get("handle_amf0_data_set_data_frame", (None, []))[1], ".*")
    okf = bool(framing_c) and all("vec![Amf0Value::Utf8String(to_string('@setDataFrame')), Amf0Value::Utf8String(to_string('onMetaData')), Amf0Value::Object(" in x for x in framing_c) \
        and set_df == {"@setDataFrame"} and on_md == {"onMetaData"}
    rep.check("C02.R1", "metadata-framing:publish", okf, "the client frames metadata as [@setDataFrame, onMetaData, object] and the server expects exactly that",
              "client metadata message: %s; server expects %s then %s" % ([x[:120] for x in framing_c[:1]], sorted(set_df), sorted(on_md)))
    framing_s = [t[2][0] for p in (s_meta[1] if s_meta else []) for t in p if t[0] == "call" and t[1].endswith("into_message_payload")]
    c_on = strings_dispatched(ct.get("handle_amf0_data", (None, []))[1], ".*")
    oks = bool(framing_s) and all("vec![Amf0Value::Utf8String(to_string('onMetaData')), Amf0Value::Object(" in x for x in framing_s) and c_on == {"onMetaData"}
    rep.check("C02.R1", "metadata-framing:play", oks, "the server sends [onMetaData, object] and the client expects exactly that",
              "server metadata message: %s; client expects %s" % ([x[:100] for x in framing_s[:1]], sorted(c_on)))
    keys_c = metadata_keys_written(c_meta[1]) if c_meta else {}
    keys_s = metadata_keys_written(s_meta[1]) if s_meta else {}
    # closures of send_metadata carry the inserts
    if s_meta and len(keys_s) < 11:
        for ck in prog.closures_of.get(s_meta[0].key, []):
            cb = prog.bodies[ck]
            rep.fn(cb.key)
            ex = grammar.Extractor(env, cb.key, "r")
            ex.track_ext = True
            ex.track_local_muts = True
            ex.all_local_calls = True
            for p in ex.run().paths:
                for t in p:
                    if t[0] == "mut" and t[1] == "insert" and len(t[3]) >= 2:
                        k = re.match(r"^to_string\('?([^')]*)'?\)$", t[3][0])
                        if k:
                            keys_s[k.group(1)] = ("closure", t[3][1])
        # bind each closure to the metadata field it is mapped over: Option::map(metadata.field, closure)
        it = ctx.interp(s_meta[0].key)
        I.CUR_BODY[0] = s_meta[0]
        bound = {}
        for bi, t in s_meta[0].calls():
            if callee_name(t) == "core::option::Option::map":
                S, args = args_at(ctx, s_meta[0].key, bi)
                if S is None:
                    continue
                fld = re.search(r"load\(\*?load\(metadata\)\.(\w+)", stable(args[0]))
                clo = args[1]
                if fld and isinstance(clo, tuple) and clo[0] == "agg" and isinstance(clo[1], tuple) and clo[1][0] == "closure":
                    bound[clo[1][1]] = fld.group(1)
        resolved = {}
        for ck in prog.closures_of.get(s_meta[0].key, []):
            cb = prog.bodies[ck]
            ex = grammar.Extractor(env, cb.key, "r")
            ex.track_ext = True
            ex.track_local_muts = True
            for p in ex.run().paths:
                for t in p:
                    if t[0] == "mut" and t[1] == "insert" and len(t[3]) >= 2:
                        k = re.match(r"^to_string\('?([^')]*)'?\)$", t[3][0])
                        if k and ck in bound:
                            resolved[k.group(1)] = bound[ck]
        keys_s = resolved or keys_s
    # the reader table: apply_metadata_values
    am = body_by_pretty(prog, "sessions::StreamMetadata::apply_metadata_values")
    keys_r = {}
    if am is None:
        rep.anchor_missing("C02.R1", "sessions::StreamMetadata::apply_metadata_values")
    else:
        rep.fn(am.key)
        ex = grammar.Extractor(env, am.key, "r", max_paths=3000)
        ex.track_stores = True
        for p in ex.run().paths:
            last_key = None
            for t in p:
                if t[0] == "when" and t[1].startswith("streq(") and t[2].startswith("other"):
                    last_key = t[1].rsplit(",", 1)[-1].rstrip(")")
                if t[0] == "store" and last_key is not None and re.match(r"^\w+$", t[1]):
                    keys_r.setdefault(last_key, t[1])
    same = keys_c == keys_s == keys_r and len(keys_c) >= 11
    rep.check("C02.R1", "metadata-keys", same, "the %d metadata keys are bound to the same fields in publish_metadata, send_metadata and apply_metadata_values" % len(keys_c),
              "metadata key tables differ: client writes %s; server writes %s; reader applies %s" % (
                  sorted(set(keys_c.items()) - set(keys_r.items())) or len(keys_c), sorted(set(keys_s.items()) - set(keys_r.items())) or len(keys_s),
                  sorted(set(keys_r.items()) - set(keys_c.items())) or len(keys_r)))
    # ------------------------------------------------------------------ R2 argument positions
    pub = [x for x in c_cmds.get("publish", [])]
    play = [x for x in c_cmds.get("play", [])]
    ok_pub = bool(pub) and all(re.search(r"vec!\[Amf0Value::Utf8String\(.*stream_key.*\), Amf0Value::Utf8String\(.*\)\]", x[1]) for x in pub)
    ok_play = bool(play) and all(re.search(r"vec!\[Amf0Value::Utf8String\(.*stream_key.*\)\]", x[1]) for x in play)
    # server side: the event's stream key is the first element of the command's argument list and the mode is decided from the
    # second - by the position of the element in the list the handler received, however it is taken out (remove, iterator, index)
    sp = st.get("handle_command_publish", (None, []))[1]
    srv_pub_ok, n_pub = True, 0
    for p in sp:
        rets = [t for t in p if t[0] == "returns"]
        if rets and "PublishStreamRequested" in rets[-1][1]:
            n_pub += 1
            m = re.search(r"PublishStreamRequested\([^,]*, [^,]*, elem\[0\] of (\w+) as Utf8String\.0, PublishMode::", rets[-1][1])
            if not m or not any(t[0] == "when" and ("elem[1] of %s" % m.group(1)) in t[1] for t in p):
                srv_pub_ok = False
    srv_pub_ok = srv_pub_ok and n_pub >= 1
    spl = st.get("handle_command_play", (None, []))[1]
    srv_play_ok, n_play = True, 0
    for p in spl:
        rets = [t for t in p if t[0] == "returns"]
        if rets and "PlayStreamRequested" in rets[-1][1]:
            n_play += 1
            if not re.search(r"PlayStreamRequested\([^,]*, [^,]*, elem\[0\] of \w+ as Utf8String\.0,", rets[-1][1]):
                srv_play_ok = False
    srv_play_ok = srv_play_ok and n_play >= 1
    rep.check("C02.R2", "publish-arguments", ok_pub and srv_pub_ok, "publish carries [stream key, mode]; the server takes them in that order", "publish argument order differs (client %s, server takes two leading arguments: %s)" % (ok_pub, srv_pub_ok))
    rep.check("C02.R2", "play-arguments", ok_play and srv_play_ok, "play carries [stream key]; the server takes the first argument as key", "play argument position differs (client %s, server %s)" % (ok_play, srv_play_ok))
    cs = st.get("handle_command_create_stream", (None, []))[1]
    srv_cs = any(t[0] == "call" and t[1].endswith("create_success_response") and re.match(r"^vec!\[Amf0Value::Number\(", t[2][3]) for p in cs for t in p)
    cl_cs = any(t[0] == "store" and t[1] == "active_stream_id" and re.search(r"elem\[0\] of .*additional_args", t[2]) for p in ct.get("handle_amf0_command_success_result", (None, []))[1] for t in p)
    rep.check("C02.R2", "create-stream-result", srv_cs and cl_cs, "the new stream id is the first additional value of the _result on both sides", "createStream result position differs (server puts it first: %s, client reads index 0: %s)" % (srv_cs, cl_cs))
    dele = c_cmds.get("deleteStream", [])
    ok_del_c = bool(dele) and all(re.search(r"vec!\[Amf0Value::Number\(", x[1]) for x in dele)
    sd = st.get("handle_command_delete_stream", (None, []))[1]
    dels = [t for p in sd for t in p if t[0] == "mut" and t[2] == "active_streams" and t[1] == "remove"]
    # on every path: the stream removed is the one the command names (its first argument), whatever message stream carried the command
    ok_del_s = bool(dels) and all(re.match(r"^&?\(?elem\[0\](?: of \w+)?(?: as Number\.0)?( as u32|\)|$)", t[3][0]) for t in dels)
    rep.check("C02.R2", "delete-stream-argument", ok_del_c and ok_del_s, "deleteStream carries the stream id as first argument on both sides", "deleteStream argument position differs")
    # ------------------------------------------------------------------ R3 identity flow of media
    for name, variant in (("publish_audio_data", "AudioData"), ("publish_video_data", "VideoData")):
        paths = ct.get(name, (None, []))[1]
        calls = [t for p in paths for t in p if t[0] == "call" and t[1].endswith("into_message_payload")]
        ok = bool(calls) and all(re.match(r"^RtmpMessage::%s\(load\(data\)\)$" % variant, t[2][0]) and t[2][1] == "load(timestamp)" and re.search(r"active_stream_id as Some\.0\)$", t[2][2]) for t in calls)
        sers = [t for p in paths for t in p if t[0] == "call" and t[1].endswith("ChunkSerializer::serialize")]
        ok = ok and bool(sers) and all(re.search(r"into_message_payload\) as Ok\.0$", t[2][1]) for t in sers)
        rep.check("C02.R3", "%s|sends-parameters" % name, ok, "data and timestamp go unchanged into the %s message on the active stream" % variant,
                  "%s does not serialize exactly its data / timestamp parameters on the active stream id: %s" % (name, [t[2][:3] for t in calls[:1]]), ct[name][0].span if name in ct else None)
    for which, ty in (("server", SERVER), ("client", CLIENT)):
        hb = body_by_pretty(prog, ty + "::handle_input")
        if hb is None:
            continue
        rep.fn(hb.key)
        it = ctx.interp(hb.key)
        I.CUR_BODY[0] = hb
        for hname, variant in (("handle_audio_data", "AudioData"), ("handle_video_data", "VideoData")):
            found = False
            for bi, t in hb.calls():
                cp = callee_path(t)
                if cp in prog.bodies and prog.bodies[cp].pretty == ty + "::" + hname:
                    S, args = args_at(ctx, hb.key, bi)
                    if S is None:
                        continue
                    found = True
                    cb = prog.bodies[cp]
                    names = [cb.locals[i]["name"] for i in range(1, cb.arg_count + 1)]

                    def through_phis(a, depth=0):
                        """a value carried around the message loop in a variable: describe it by what flows into the variable"""
                        txt = stable(a)
                        if depth > 2 or "phi(" not in txt:
                            return [txt]
                        out = []
                        for x in subterms(a):
                            if isinstance(x, tuple) and x[0] == "phi":
                                head, loc = x[1], x[2]
                                inc = [it.edge_out[(q, head)].read(loc) for q in hb.preds[head] if it.edge_out.get((q, head)) is not None]
                                inc = [v for v in inc if v != x]
                                if inc and all(isinstance(v, tuple) for v in inc):
                                    for v in inc:
                                        base = v
                                        while isinstance(base, tuple) and base[0] == "upd":
                                            base = base[1]
                                        for r in through_phis(base, depth + 1):
                                            out.append(txt.replace(stable(x), r))
                                    return out
                        return [txt]
                    alts = [through_phis(a) for a in args]
                    # every combination must satisfy the rule: check each argument's alternatives independently
                    av_list = []
                    import itertools
                    for combo in itertools.islice(itertools.product(*alts), 16):
                        av_list.append(dict(zip(names, combo)))
                    av = av_list[0]
                    ok = all(re.search(r"as %s\.data$" % variant, av.get("data", "")) is not None and "to_rtmp_message" in av.get("data", "")
                             and av.get("stream_id", "").endswith(".message_stream_id") and av.get("timestamp", "").endswith(".timestamp")
                             and "get_next_message" in av.get("timestamp", "") and "get_next_message" in av.get("stream_id", "") for av in av_list)
                    rep.check("C02.R3", "%s::%s|receives-payload" % (which, hname), ok, "the handler gets the message's data and the payload's stream id and timestamp",
                              "%s::handle_input calls %s with data=%s stream_id=%s timestamp=%s" % (which, hname, av.get("data", "")[:60], av.get("stream_id", "")[:60], av.get("timestamp", "")[:60]), t["span"])
            if not found:
                rep.bad("C02.R3", "%s::%s|receives-payload" % (which, hname), "%s::handle_input never calls %s" % (which, hname), hb.span)
        # ---- R4 peer chunk size
        hs = body_by_pretty(prog, ty + "::handle_set_chunk_size")
        applied = False
        if hs is not None:
            rep.fn(hs.key)
            for p in [sig(p) for p in grammar.trace(env, hs.key, "r").paths]:
                for t in p:
                    if t[0] == "call" and t[1].endswith("ChunkDeserializer::set_max_chunk_size") and len(t[2]) >= 2:
                        applied = re.match(r"^&?\*?load\(self\)\.deserializer$", t[2][0]) is not None and re.match(r"^\(load\(size\) as usize\)$", t[2][1]) is not None
        called = False
        for bi, t in hb.calls():
            cp = callee_path(t)
            if hs is not None and cp == hs.key:
                S, args = args_at(ctx, hb.key, bi)
                if S is not None:
                    called = re.search(r"as SetChunkSize\.size$", stable(args[1])) is not None and "to_rtmp_message" in stable(args[1])
        rep.check("C02.R4", "%s|peer-chunk-size-applied" % which, applied and called, "a received SetChunkSize{size} is applied to the own deserializer",
                  "%s: a SetChunkSize from the peer is not applied to the session's deserializer with the announced size (handler applies: %s, handle_input passes the size: %s); "
                  "the next larger chunk from the peer would be mis-framed" % (which, applied, called), hb.span)
    # ------------------------------------------------------------------ R5-R7 shared rules
    from . import C18, C01
    if wants(rep, "C02.R5"):
        C18.run(env, PrefixReport(rep, "C18.", "C02.R5.", only=("C18.R1",)))
    if wants(rep, "C02.R6"):
        C01.run(env, PrefixReport(rep, "C01.", "C02.R6.", only=("C01.R1", "C01.R2", "C01.R3")))
    from . import C07
    if wants(rep, "C02.R7"):
        C07.run(env, PrefixReport(rep, "C07.", "C02.R7.", only=("C07.R3", "C07.R5", "C07.R6")))
    # the reader side the exchange rests on: partial messages per chunk stream (forced type-0 continuation chunks included),
    # suspension without effect, timestamp rules
    if wants(rep, "C02.R8"):
        from . import C16, C15, C06
        C16.run(env, PrefixReport(rep, "C16.", "C02.R8.", only=("C16.R1", "C16.R2", "C16.R4")))
        C15.run(env, PrefixReport(rep, "C15.", "C02.R8.", only=("C15.R1",)))
        C06.run(env, PrefixReport(rep, "C06.", "C02.R8.", only=("C06.R3",)))
    if wants(rep, "C02.R9"):
        # media of every size (0 bytes included) and every message the sessions exchange convert both ways: the body codecs
        from . import C13
        C13.run(env, PrefixReport(rep, "C13.R2", "C02.R9", only=("C13.R2",)))
