"""Loop progress idioms (C03 R2, C14 R3, C19 R2) and allocation-size rule (C03 R3, C14 R2)."""
from ..query import *
from ..absint import *
from ..interp import stable
from ..models import U

FINITE_ITERATORS = (
    "core::ops::range::Range", "core::slice::iter::Iter", "core::slice::iter::IterMut", "alloc::vec::drain::Drain", "alloc::vec::into_iter::IntoIter",
    "std::collections::hash::map::Iter", "std::collections::hash::map::Drain", "std::collections::hash::map::IntoIter",
    "core::iter::adapters::enumerate::Enumerate", "core::str::iter::Chars", "core::str::iter::Bytes",
    # iterators over the pieces of a slice: as many items as the slice has pieces (chunks(n) panics for n = 0 - a precondition
    # obligation of its own - and otherwise yields ceil(len / n) slices)
    "core::slice::iter::Chunks", "core::slice::iter::ChunksExact", "core::slice::iter::Windows", "core::slice::iter::RChunks",
    "core::iter::adapters::skip::Skip", "core::iter::adapters::take::Take", "core::iter::adapters::zip::Zip", "core::iter::adapters::rev::Rev",
    "core::iter::adapters::peekable::Peekable", "alloc::collections::vec_deque::iter::Iter", "alloc::collections::vec_deque::drain::Drain",
    "alloc::collections::vec_deque::into_iter::IntoIter", "alloc::collections::btree::map::Iter", "alloc::collections::btree::map::IntoIter",
)

READ_CALLS = ("byteorder::io::ReadBytesExt::read_u8", "byteorder::io::ReadBytesExt::read_u16", "byteorder::io::ReadBytesExt::read_u24",
              "byteorder::io::ReadBytesExt::read_u32", "byteorder::io::ReadBytesExt::read_u64", "byteorder::io::ReadBytesExt::read_f64",
              "byteorder::io::ReadBytesExt::read_i8", "byteorder::io::ReadBytesExt::read_i16", "byteorder::io::ReadBytesExt::read_i32")


def back_edge_sources(body, head):
    return [t for (t, h) in body.back_edges if h == head]


def loop_key(body, head):
    # stable across edits elsewhere in the function: ordinal of the loop in source order
    heads = sorted(body.loops, key=lambda h: (body.blocks[h]["term"]["span"]["l"], body.blocks[h]["term"]["span"]["c"]))
    return "%s|loop#%d" % (body.pretty, heads.index(head))


# ------------------------------------------------------------------------------------------ L1
def iterator_driven(env, body, head):
    """(ok, reason, range_end_sv) - loop whose every cycle passes Iterator::next of a finite iterator"""
    blocks = body.loops[head]
    it = env.ctx.interp(body.key)
    for bi in sorted(blocks):
        t = body.blocks[bi]["term"]
        if t["k"] != "call":
            continue
        c = t["callee"]
        if not (c.get("orig_pretty") == "core::iter::traits::iterator::Iterator::next"):
            continue
        self_ty = c.get("impl_self") or ""
        base = self_ty.split("<")[0]
        if base not in FINITE_ITERATORS:
            continue
        if base.startswith("core::iter::adapters::"):
            # an adapter is as finite as what it adapts: its first type argument must be a finite iterator too (Enumerate<RangeFrom> is not)
            rty = it.op_type(t["args"][0])
            while rty.get("k") == "ref":
                rty = rty["to"]
            full = rty.get("s", "")
            names = re.findall(r"[A-Za-z_][\w:]*(?=<|,|>|$)", full)
            iters = [n for n in names if "::iter" in n or "::range::" in n or "::drain::" in n or "::into_iter::" in n or "::map::" in n]
            if not iters or any(n not in FINITE_ITERATORS for n in iters):
                continue
        if not all(body.dominates(bi, s) for s in back_edge_sources(body, head)):
            continue
        # receiver: &mut <local iterator> that is not re-assigned inside the loop
        S = it.exit_state(bi)
        if S is None:
            continue
        it.cur = (bi, 0)
        recv = it.eval_op(S, t["args"][0])
        if not (isinstance(recv, tuple) and recv[0] == "ref" and recv[1][0][0] == "L"):
            return (False, "iterator receiver is not a local", None)
        loc_local = recv[1][0][1]
        for b2 in blocks:
            for st in body.blocks[b2]["stmts"]:
                if st["place"]["l"] == loc_local and not st["place"]["p"]:
                    return (False, "iterator local _%d is re-assigned inside the loop" % loc_local, None)
            t2 = body.blocks[b2]["term"]
            if t2["k"] == "call" and t2["dest"]["l"] == loc_local and not t2["dest"]["p"]:
                return (False, "iterator local _%d is re-assigned inside the loop" % loc_local, None)
        # the None edge must leave the loop: at every back-edge source the result is Some
        R = None
        S_after = None
        end_sv = None
        if base == "core::ops::range::Range":
            end_sv = S.read((recv[1][0], recv[1][1] + (("f", 1, "end"),)))
        return (True, "driven by %s::next at bb%d" % (base, bi), end_sv)
    return (None, "no dominating Iterator::next of a finite iterator", None)


def iteration_count(env, body, head):
    """the value N such that the loop body runs at most N times and leaves early only through an explicit exit:
    a range 0..N, a counter going from N down to 0 in steps of one, or a counter going from 0 up to N in steps of one"""
    ok, why, end_sv = iterator_driven(env, body, head)
    it = env.ctx.interp(body.key)
    blocks = body.loops[head]
    if ok and end_sv is not None:
        return end_sv, "range up to %s" % stable(end_sv)
    Sh = it.entry_states.get(head)
    if Sh is None:
        return None, "loop head unreachable"
    backs = set(back_edge_sources(body, head))
    for loc, phi in [(loc, v) for loc, v in Sh.mem.items() if isinstance(v, tuple) and v[0] == "phi" and v[1] == head and loc[0][0] == "L" and not loc[1]]:
        steps = set()
        for s_ in backs:
            Se = it.edge_out.get((s_, head))
            if Se is None:
                continue
            base, off = Se.norm(Se.read(loc))
            steps.add(off if base == phi else None)
        if steps not in ({1}, {-1}):
            continue
        inits = []
        for q in body.preds[head]:
            if q in backs or it.edge_out.get((q, head)) is None:
                continue
            inits.append(it.edge_out[(q, head)].read(loc))
        if len(set(inits)) != 1:
            continue
        init = inits[0]
        # the guard that leaves the loop
        for bi in sorted(blocks):
            t = body.blocks[bi]["term"]
            if t["k"] != "switch" or not [x for x in body.succs[bi] if x not in blocks]:
                continue
            S = it.exit_state(bi)
            if S is None:
                continue
            it.cur = (bi, 0)
            c = it.eval_op(S, t["discr"])
            neg = False
            while isinstance(c, tuple) and c[0] == "not":
                c, neg = c[1], not neg
            if not (isinstance(c, tuple) and c[0] == "cmp"):
                continue
            op, a, b = c[1], c[2], c[3]
            if strip_casts(b) == phi and strip_casts(a) != phi:
                op, a, b = {"Lt": "Gt", "Le": "Ge", "Gt": "Lt", "Ge": "Le", "Eq": "Eq", "Ne": "Ne"}[op], b, a
            if strip_casts(a) != phi:
                continue
            if steps == {-1} and const_val(b) in (0, 1):
                # counts down from init; continues while x > 0 / x >= 1 / x != 0
                return init, "counter from %s down to 0" % stable(init)
            if steps == {1} and const_val(init) == 0 and not contains(b, lambda z: isinstance(z, tuple) and z[0] == "phi" and z[1] == head):
                return b, "counter from 0 up to %s" % stable(b)
    return None, "no counted iteration found"


def held_length_only(sv, depth=0):
    """term built only from constants and lengths of containers already held in memory"""
    if depth > 6 or not isinstance(sv, tuple):
        return False
    h = sv[0]
    if h == "k":
        return True
    if h == "ld":
        return bool(sv[1][1]) and sv[1][1][-1] == ("len",)
    if h == "proj":
        return bool(sv[2]) and sv[2][-1] == ("len",)
    if h == "cast":
        return held_length_only(sv[2], depth + 1)
    if h == "bin":
        return held_length_only(sv[3], depth + 1) and held_length_only(sv[4], depth + 1)
    if h in ("min", "max"):
        return held_length_only(sv[2], depth + 1) and held_length_only(sv[3], depth + 1)
    if h == "phi":
        return False
    return False


# ------------------------------------------------------------------------------------------ L2
def consumes_on_continue(env, key, memo, depth=0):
    """True iff every return site of `key` whose value may be the continuing variant (not Err, not Ok(None))
    is reached only after >= 1 byte was taken from the reader parameter"""
    if key in memo:
        return memo[key]
    memo[key] = (False, "recursive")     # recursion guard: a cycle cannot justify itself
    prog, ctx = env.prog, env.ctx
    body = prog.bodies[key]
    it = ctx.top_interp(key) or ctx.interp(key)
    sites = []
    for bi in body.rpo:
        S0 = it.entry_states.get(bi)
        if S0 is None:
            continue
        S = S0.copy()
        blk = body.blocks[bi]
        dead = False
        for si, st in enumerate(blk["stmts"]):
            it.cur = (bi, si)
            it.counter = 0
            it.transfer_stmt(S, st)
            if S.dead:
                dead = True
                break
            if st["place"]["l"] == 0 and not st["place"]["p"]:
                sites.append((bi, S.copy(), st["span"]))
        if dead:
            continue
        t = blk["term"]
        if t["k"] == "call" and t["dest"]["l"] == 0 and not t["dest"]["p"]:
            it.cur = (bi, len(blk["stmts"]))
            it.counter = 0
            for succ, S2 in it.flow(S, bi):
                sites.append((bi, S2, t["span"]))
    # consumption witnesses: read calls on the reader (first parameter), local callees that consume on continue
    witnesses = []
    for bi, t in body.calls():
        name = callee_name(t)
        site = None
        # the result SV of a call at block bi is ("call", (key, bi, nstmts), path)
        R = ("call", (key, bi, len(body.blocks[bi]["stmts"])), callee_path(t))
        if name in READ_CALLS or name == "std::io::Read::read_exact":
            witnesses.append(("read", R, t))
        elif name == "std::io::Read::read":
            witnesses.append(("read-n", R, t))
        elif callee_path(t) in prog.bodies and callee_path(t) != key:
            ok, _ = consumes_on_continue(env, callee_path(t), memo, depth + 1)
            if ok:
                witnesses.append(("callee", R, t))
    bad = []
    for (bi, S, span) in sites:
        v = S.read((it.L(0), ()))
        d = S.dom(("discr", v)) if not (isinstance(v, tuple) and v[0] == "agg") else None
        # Err
        if isinstance(v, tuple) and v[0] == "agg" and v[2] == 1:
            continue
        if d is not None and d.lo == d.hi == 1:
            continue
        # Ok(None)
        if isinstance(v, tuple) and v[0] == "agg" and v[2] == 0:
            inner = v[3][0] if v[3] else None
            if isinstance(inner, tuple) and inner[0] == "agg" and inner[1] == "core::option::Option" and inner[2] == 0:
                continue
        consumed = False
        for kind, R, t in witnesses:
            dR = S.dom(("discr", R))
            if not (dR.lo == dR.hi == 0):
                continue
            if kind == "read":
                consumed = True
            elif kind == "read-n":
                n = project(R, (("dc", 0, "Ok"), ("f", 0, "0")))
                if not S.dom(n).contains(0):
                    consumed = True
            elif kind == "callee":
                p = project(R, (("dc", 0, "Ok"), ("f", 0, "0")))
                dp = S.dom(("discr", p))
                rt = prog.bodies[callee_path(t)].locals[0]["t"]["s"]
                if "Option" not in rt or (dp.lo == dp.hi == 1):
                    consumed = True
            if consumed:
                break
        if not consumed:
            bad.append(span_str(span))
    res = (not bad, "return sites not preceded by a successful read: %s" % bad if bad else "every continuing return follows a successful read")
    memo[key] = res
    return res


def input_consuming(env, body, head, memo):
    """L2: every back edge is taken only after a call that returned its continuing variant, and that callee
    returns the continuing variant only after consuming input"""
    prog, ctx = env.prog, env.ctx
    it = ctx.interp(body.key)
    blocks = body.loops[head]
    cands = []
    for bi in sorted(blocks):
        t = body.blocks[bi]["term"]
        if t["k"] == "call" and callee_path(t) in prog.bodies:
            ok, why = consumes_on_continue(env, callee_path(t), memo)
            if ok:
                cands.append((bi, t))
    if not cands:
        return (False, "no call in the loop to a function that consumes input before returning its continuing variant")
    srcs = back_edge_sources(body, head)
    for s in srcs:
        S = it.edge_out.get((s, head))
        if S is None:
            continue
        good = False
        for bi, t in cands:
            R = ("call", (body.key, bi, len(body.blocks[bi]["stmts"])), callee_path(t))
            dR = S.dom(("discr", R))
            if not (dR.lo == dR.hi == 0):
                continue
            p = project(R, (("dc", 0, "Ok"), ("f", 0, "0")))
            rt = prog.bodies[callee_path(t)].locals[0]["t"]["s"]
            if "Option" in rt:
                dp = S.dom(("discr", p))
                if not (dp.lo == dp.hi == 1):
                    continue
            good = True
            break
        if not good:
            return (False, "back edge from bb%d is not guarded by the continuing result of a consuming call" % s)
    return (True, "back edges follow %s returning its continuing variant" % ", ".join(sorted({fn_short(callee_path(t)) for _, t in cands})))


# ------------------------------------------------------------------------------------------ L3 stage machines
def stage_graph(env, body, head, stage_field):
    """edges stage -> stages the dispatched function may store; (edges, callee per stage, problems)"""
    prog, ctx = env.prog, env.ctx
    it = ctx.interp(body.key)
    blocks = body.loops[head]
    edges = {}
    callee_of = {}
    problems = []
    for bi in sorted(blocks):
        t = body.blocks[bi]["term"]
        if t["k"] != "call" or callee_path(t) not in prog.bodies:
            continue
        cb = prog.bodies[callee_path(t)]
        stores = stage_stores(env, cb, stage_field)
        if stores is None:
            continue
        S = it.exit_state(bi)
        if S is None:
            continue
        # which stage is current at this call?
        selfv = S.read((it.L(1), ()))
        loc = it.target(selfv)
        cur = S.read((loc[0], loc[1] + (stage_field,)))
        d = S.dom(("discr", cur))
        vals = d.values(16)
        if vals is None or len(vals) != 1:
            if stores:
                problems.append("stage at the call of %s is not decided by the dispatch" % fn_short(cb.key))
            continue
        edges.setdefault(vals[0], set()).update(stores)
        callee_of[vals[0]] = cb.key
    return edges, callee_of, problems


def stage_stores(env, cb, stage_field):
    """set of constant stages a function stores into self.<stage_field>; None if it never does"""
    out = set()
    found = False
    for blk in cb.blocks:
        for st in blk["stmts"]:
            p = st["place"]["p"]
            if p and isinstance(p[-1], dict) and p[-1].get("n") == stage_field[2] and st["place"]["l"] == 1:
                found = True
                rv = st["rv"]
                if rv["k"] == "agg" and rv.get("ak") == "adt":
                    out.add(env.ctx.variant_discr(rv["adt"], rv["vi"]))
                elif rv["k"] == "use" and "m" in rv["a"]:
                    # moved from a local that was built as an aggregate just before
                    src = rv["a"]["m"]["l"]
                    val = None
                    for st2 in blk["stmts"]:
                        if st2["place"]["l"] == src and not st2["place"]["p"] and st2["rv"]["k"] == "agg" and st2["rv"].get("ak") == "adt":
                            val = env.ctx.variant_discr(st2["rv"]["adt"], st2["rv"]["vi"])
                    if val is None:
                        for b2 in cb.blocks:
                            for st2 in b2["stmts"]:
                                if st2["place"]["l"] == src and not st2["place"]["p"] and st2["rv"]["k"] == "agg" and st2["rv"].get("ak") == "adt":
                                    val = env.ctx.variant_discr(st2["rv"]["adt"], st2["rv"]["vi"])
                    out.add(val if val is not None else "unknown")
                else:
                    out.add("unknown")
    return out if found else None


def has_cycle(edges, ignore_self=True, removed=()):
    nodes = set(edges) | {y for ys in edges.values() for y in ys}
    color = {}

    def dfs(u):
        color[u] = 1
        for v in edges.get(u, ()):
            if v in removed or (ignore_self and v == u):
                continue
            if color.get(v) == 1:
                return True
            if color.get(v) is None and dfs(v):
                return True
        color[u] = 2
        return False

    for n in nodes:
        if n in removed:
            continue
        if color.get(n) is None and dfs(n):
            return True
    return False


def consumes_on_success(env, key, buffer_field):
    """every site returning Ok(Success) (variant 0 of the inner enum) is dominated by split_to(self.<buffer>, n>=1)"""
    prog, ctx = env.prog, env.ctx
    body = prog.bodies[key]
    it = ctx.interp(key)
    takes = []
    for bi, t in body.calls():
        if callee_name(t) in ("bytes::bytes_mut::BytesMut::split_to",):
            S, args = args_at(ctx, key, bi)
            if S is None:
                continue
            tgt = it.target(args[0])
            if tgt[1] and tgt[1][-1][0] == "f" and tgt[1][-1][2] == buffer_field and S.dom(args[1]).lo >= 1:
                takes.append(bi)
    ok = True
    nsites = 0
    for bi in body.rpo:
        for st in body.blocks[bi]["stmts"]:
            if st["place"]["l"] == 0 and not st["place"]["p"] and st["rv"]["k"] == "agg":
                rv = st["rv"]
                if rv.get("adt") == "core::result::Result" and rv["vi"] == 0:
                    # Ok(<something>): is the payload the Success variant?
                    S = it.entry_states.get(bi)
                    if S is None:
                        continue
                    S = S.copy()
                    for si, s2 in enumerate(body.blocks[bi]["stmts"]):
                        it.cur = (bi, si)
                        it.transfer_stmt(S, s2)
                        if s2 is st:
                            break
                    v = S.read((it.L(0), ()))
                    inner = v[3][0] if isinstance(v, tuple) and v[0] == "agg" and v[3] else None
                    if isinstance(inner, tuple) and inner[0] == "agg" and inner[2] != 0:
                        continue      # NotEnoughBytes
                    nsites += 1
                    if not any(body.dominates(tb, bi) for tb in takes):
                        ok = False
    return ok and nsites > 0


# ------------------------------------------------------------------------------------------ L4 counted loop
def counted_stride_loop(env, body, head):
    """a loop-carried integer x grows by a loop-invariant amount >= 1 on every back edge, and an exit edge is taken as soon as
    x (or x * stride with a loop-invariant stride >= 1) reaches a loop-invariant bound: the loop terminates"""
    ctx = env.ctx
    it = ctx.interp(body.key)
    blocks = body.loops[head]
    Sh = it.entry_states.get(head)
    if Sh is None:
        return (False, "loop head unreachable")

    def variant(z):
        return contains(z, lambda q: isinstance(q, tuple) and q[0] == "phi" and q[1] == head)
    phis = [(loc, v) for loc, v in Sh.mem.items() if isinstance(v, tuple) and v[0] == "phi" and v[1] == head and loc[0][0] == "L" and not loc[1]]
    verdict = None
    for loc, phi in phis:
        # x grows by >= 1 on every back edge
        inc_ok, step, step_lo = True, None, None
        n_back = 0
        for s in back_edge_sources(body, head):
            Se = it.edge_out.get((s, head))
            if Se is None:
                continue
            n_back += 1
            v = Se.read(loc)
            base, off = Se.norm(v)
            if base == phi and off >= 1:
                step, step_lo = "%d" % off, off if step_lo is None else min(step_lo, off)
                continue
            v0 = strip_casts(v)
            if isinstance(v0, tuple) and v0[0] == "bin" and v0[1] == "Add" and (strip_casts(v0[3]) == phi or strip_casts(v0[4]) == phi):
                st = v0[4] if strip_casts(v0[3]) == phi else v0[3]
                if not variant(st):
                    lo = Se.dom(st).lo
                    step, step_lo = stable(st), lo if step_lo is None else min(step_lo, lo)
                    continue
            inc_ok = False
        if not inc_ok or not n_back or step_lo is None:
            continue
        # an exit edge taken as soon as f(x) >= bound
        for bi in sorted(blocks):
            t = body.blocks[bi]["term"]
            if t["k"] != "switch":
                continue
            outs = [x for x in body.succs[bi] if x not in blocks]
            if not outs:
                continue
            S = it.exit_state(bi)
            if S is None:
                continue
            it.cur = (bi, 0)
            c = it.eval_op(S, t["discr"])
            neg = False
            while isinstance(c, tuple) and c[0] == "not":
                c, neg = c[1], not neg
            if not (isinstance(c, tuple) and c[0] == "cmp"):
                continue
            op, a, b = c[1], c[2], c[3]
            if neg:
                op = {"Lt": "Ge", "Le": "Gt", "Gt": "Le", "Ge": "Lt", "Eq": "Ne", "Ne": "Eq"}[op]
            if variant(b) and not variant(a):
                op, a, b = {"Lt": "Gt", "Le": "Ge", "Gt": "Lt", "Ge": "Le", "Eq": "Eq", "Ne": "Ne"}[op], b, a
            if variant(b) or not variant(a):
                continue
            # which truth value of the comparison leaves the loop
            exit_vals = {v for v, tb in t["targets"] if tb in outs}
            other_exits = t["otherwise"] in outs
            exits_when_true = other_exits and 0 in {v for v, tb in t["targets"]} and not exit_vals or (1 in exit_vals)
            exits_when_false = 0 in exit_vals
            if exits_when_true and op not in ("Ge", "Gt"):
                continue
            if exits_when_false and not exits_when_true and op not in ("Lt", "Le"):
                continue
            a0 = strip_casts(a)
            mult = None
            if a0 == phi:
                mult = "1"
                mlo = 1
            elif isinstance(a0, tuple) and a0[0] == "bin" and a0[1] == "Mul":
                x, y = a0[3], a0[4]
                stride = y if strip_casts(x) == phi else (x if strip_casts(y) == phi else None)
                if stride is None or variant(stride):
                    continue
                mult, mlo = stable(stride), S.dom(stride).lo
            else:
                continue
            if step_lo >= 1 and mlo >= 1:
                return (True, "counter %s grows by %s (>= %d) per iteration, exit as soon as counter%s reaches %s" % (stable(phi), step, step_lo, "" if mult == "1" else " * %s (in %s)" % (mult, S.dom(stride)), stable(b)))
            verdict = (False, "the loop counter %s advances by %s which may be %s, scaled by %s which may be %s (< 1): the loop would not advance" % (stable(phi), step, step_lo, mult, mlo))
    if verdict is not None:
        return verdict
    return (None, "not a counted stride loop")


# ------------------------------------------------------------------------------------------ driver
def loop_progress(env, rep, rule, bodies, only=None):
    prog, ctx = env.prog, env.ctx
    memo = {}
    n = 0
    for b in bodies:
        for head in sorted(b.loops):
            key = loop_key(b, head)
            span = b.blocks[head]["term"]["span"]
            n += 1
            ok, why, end_sv = iterator_driven(env, b, head)
            if ok is True:
                if end_sv is not None and not is_const(end_sv) and not held_length_only(end_sv):
                    ok2, why2 = input_consuming(env, b, head, memo)
                    rep.check(rule, key, ok2, "L1+L2: %s with a peer-declared bound; %s" % (why, why2),
                              "loop bound %s is decoded from input and the loop does not consume input per iteration: %s" % (stable(end_sv), why2), span)
                else:
                    rep.ok(rule, key, "L1: " + why, span)
                continue
            if ok is False:
                rep.bad(rule, key, "iterator loop not accepted: " + why, span)
                continue
            ok4, why4 = counted_stride_loop(env, b, head)
            if ok4 is not None:
                rep.check(rule, key, ok4, "L4: " + why4, why4, span)
                continue
            # stage machines (functions whose self has a stage field dispatched in the loop)
            sm = stage_machine(env, b, head)
            if sm is not None:
                ok3, why3 = sm
                rep.check(rule, key, ok3, "L3: " + why3, why3, span)
                continue
            # session loops over the deserializer
            sl = session_loop(env, b, head)
            if sl is not None:
                ok5, why5 = sl
                rep.check(rule, key, ok5, "L-S: " + why5, why5, span)
                continue
            ok2, why2 = input_consuming(env, b, head, memo)
            rep.check(rule, key, ok2, "L2: " + why2, "loop matches no progress idiom: " + why2, span)
    return n


def stage_machine(env, body, head):
    prog, ctx = env.prog, env.ctx
    self_ty = body.impl["self_ty"] if body.impl else None
    if self_ty is None:
        return None
    adt = None
    for k, a in prog.adts.items():
        if a["pretty"] == self_ty:
            adt = a
    if adt is None or adt["kind"] != "struct":
        return None
    stage_field = None
    for i, f in enumerate(adt["variants"][0]["fields"]):
        if f["name"] == "current_stage":
            stage_field = ("f", i, f["name"])
    if stage_field is None:
        return None
    edges, callee_of, problems = stage_graph(env, body, head, stage_field)
    if not edges:
        return None
    if problems:
        return (False, "; ".join(problems))
    if any("unknown" in v for v in edges.values()):
        return (False, "a stage function stores a stage that is not a constant")
    it = ctx.interp(body.key)
    # the loop is re-entered only if the dispatched function made progress
    if not has_cycle(edges):
        # acyclic chain: the loop must exit when the stage did not change
        ok = True
        for s in back_edge_sources(body, head):
            S = it.edge_out.get((s, head))
            if S is None:
                continue
            selfv = S.read((it.L(1), ()))
            loc = it.target(selfv)
            cur = S.read((loc[0], loc[1] + (stage_field,)))
            differs = False
            if not differs and not _ne_fact(S, cur):
                ok = False
        n = len(edges)
        return (ok, "acyclic stage graph over %d stages %s; the loop repeats only while the stage changed" % (n, _fmt_edges(edges))
                if ok else "stage graph is acyclic but a back edge can be taken without a stage change")
    # cyclic: every cycle must contain a stage that consumes >= 1 input byte on success
    buffer_field = "buffer"
    consuming = {s for s, ck in callee_of.items() if consumes_on_success(env, ck, buffer_field)}
    if has_cycle(edges, ignore_self=False, removed=consuming):
        return (False, "stage graph %s has a cycle through stages that do not consume input (consuming stages: %s)" % (_fmt_edges(edges), sorted(consuming)))
    # and the loop must stop on NotEnoughBytes: at a back edge the dispatched result is Success
    return (True, "every cycle of the stage graph %s passes a stage that removes >= 1 byte from the buffer (stages %s)" % (_fmt_edges(edges), sorted(consuming)))


def _ne_fact(S, cur):
    """is there a recorded  discr(x) != discr(cur)  fact (as exclusion or zone contradiction)"""
    dcur = ("discr", cur)
    for sv, d in S.doms.items():
        if isinstance(sv, tuple) and sv[0] == "cmp" and sv[1] in ("Eq", "Ne") and (sv[2] == dcur or sv[3] == dcur):
            other = sv[3] if sv[2] == dcur else sv[2]
            if isinstance(other, tuple) and other[0] == "discr" and not is_const(other):
                want = 0 if sv[1] == "Eq" else 1
                if d.lo == d.hi == want:
                    return True
    return False


def _fmt_edges(edges):
    return "{" + ", ".join("%s->%s" % (k, sorted(v, key=str)) for k, v in sorted(edges.items(), key=lambda x: str(x[0]))) + "}"


def later_trip_state(it, body, head, target):
    """the state just before the terminator of block `target` (inside the loop at `head`) on any trip after the first; None when
    it is not reached then.  The back-edge states of the fixpoint hold for every trip, so one acyclic pass from their join is enough;
    an inner loop is entered with its own fixpoint state."""
    blocks = body.loops[head]
    S0 = None
    for s in back_edge_sources(body, head):
        e = it.edge_out.get((s, head))
        if e is not None:
            S0 = e.copy() if S0 is None else join_states(S0, e, head)
    if S0 is None:
        return None
    states = {head: S0}
    for bi in body.rpo:
        if bi not in blocks or bi not in states:
            continue
        if bi != head and bi in body.loop_heads:
            glob = it.entry_states.get(bi)
            if glob is None:
                continue
            states[bi] = glob.copy()
        S = it.exec_block(states[bi].copy(), bi)
        if S is None or S.dead:
            continue
        if bi == target:
            return S
        it.cur = (bi, len(body.blocks[bi]["stmts"]))
        it.counter = 0
        for succ, S2 in it.flow(S, bi):
            if succ not in blocks or body.blocks[succ]["cleanup"] or (bi, succ) in body.back_edges:
                continue
            states[succ] = S2 if succ not in states else join_states(states[succ], S2, succ)
    return None


def session_loop(env, body, head):
    """loop around ChunkDeserializer::get_next_message: it repeats only after a message was returned, and the caller's bytes are
    fed exactly once - every call that can execute more than once passes an empty slice (C15 R3)"""
    prog, ctx = env.prog, env.ctx
    it = ctx.interp(body.key)
    blocks = body.loops[head]

    def is_gnm(t):
        return t["k"] == "call" and prog.bodies.get(callee_path(t)) is not None and prog.bodies[callee_path(t)].pretty.endswith("ChunkDeserializer::get_next_message")
    calls = [(bi, body.blocks[bi]["term"]) for bi in body.rpo if is_gnm(body.blocks[bi]["term"])]
    if not any(bi in blocks for bi, _ in calls) and not any(body.dominates(bi, head) for bi, _ in calls):
        return None
    if not calls:
        return None
    results = {}
    for bi, t in calls:
        R = ("call", (body.key, bi, len(body.blocks[bi]["stmts"])), callee_path(t))
        results[bi] = (R, project(R, (("dc", 0, "Ok"), ("f", 0, "0"))))

    def is_message_option(v):
        while isinstance(v, tuple) and v[0] == "upd":
            v = v[1]
        return any(v == p for _, p in results.values())
    Sh = it.entry_states.get(head)
    phis = [(loc, v) for loc, v in (Sh.mem.items() if Sh is not None else []) if isinstance(v, tuple) and v[0] == "phi" and v[1] == head]
    # (b) every trip around the loop has established that a get_next_message result was Some(message)
    for s in back_edge_sources(body, head):
        S = it.edge_out.get((s, head))
        if S is None:
            continue
        guarded = False
        for bi, (R, p) in results.items():
            if bi in blocks:
                dR, dp = S.dom(("discr", R)), S.dom(("discr", p))
                if dR.lo == dR.hi == 0 and dp.lo == dp.hi == 1:
                    guarded = True
        for loc, phi in phis:
            d = S.dom(("discr", phi))
            if d.lo == d.hi == 1:
                incoming = [it.edge_out[(q, head)].read(loc) for q in body.preds[head] if it.edge_out.get((q, head)) is not None]
                if incoming and all(is_message_option(v) for v in incoming):
                    guarded = True
        if not guarded:
            return (False, "back edge from bb%d is not guarded by get_next_message returning Some" % s)
    # (a) the caller's bytes are fed once: a call inside the loop gets an empty slice on every trip but the first
    for bi, t in calls:
        Sc, cargs = args_at(ctx, body.key, bi)
        if Sc is None:
            continue
        ln = it.len_of_ref(Sc, cargs[1], it.op_type(t["args"][1]))
        d = Sc.dom(ln)
        if d.lo == d.hi == 0:
            continue
        in_loop = any(bi in blk for blk in body.loops.values())
        if not in_loop:
            continue
        if bi not in blocks:
            return (False, "get_next_message is also called in another loop with a slice that is not provably empty")
        # the state in which the call is reached on every trip but the first: one forward pass through the loop body from the
        # join of the back-edge states (which, at the fixpoint, cover every later trip)
        S2 = later_trip_state(it, body, head, bi)
        if S2 is None:
            continue          # the call is not reached again
        it.cur = (bi, len(body.blocks[bi]["stmts"]))
        it.counter = 0
        a2 = it.eval_op(S2, t["args"][1])
        ln2 = it.len_of_ref(S2, a2, it.op_type(t["args"][1]))
        d2 = S2.dom(ln2)
        if not (d2.lo == d2.hi == 0):
            return (False, "on a second trip round the loop the slice fed to get_next_message is not provably empty (len %s): the same bytes would be appended twice" % (d2,))
    return (True, "repeats only after Some(message); every repeated call of get_next_message passes an empty slice (%d call site(s))" % len(calls))


# ------------------------------------------------------------------------------------------ allocation sizes
ALLOC_SINKS = {
    "alloc::vec::from_elem": 1, "alloc::vec::Vec::with_capacity": 0, "bytes::bytes_mut::BytesMut::with_capacity": 0,
    "alloc::string::String::with_capacity": 0, "bytes::bytes_mut::BytesMut::reserve": 1, "alloc::vec::Vec::reserve": 1,
    "alloc::vec::Vec::reserve_exact": 1, "alloc::vec::Vec::resize": 1, "std::collections::hash::map::HashMap::with_capacity": 0,
    "alloc::collections::vec_deque::VecDeque::with_capacity": 0, "bytes::bytes_mut::BytesMut::resize": 1, "bytes::bytes_mut::BytesMut::zeroed": 0,
    "alloc::vec::Vec::with_capacity_in": 0,
}
MAX_ALLOC = 16777215


def allocation_sizes(env, rep, rule, bodies):
    ctx = env.ctx
    n = 0
    for b in bodies:
        for bi, t in b.calls():
            name = callee_name(t)
            if name not in ALLOC_SINKS:
                continue
            S, args = args_at(ctx, b.key, bi)
            if S is None:
                continue
            n += 1
            sz = args[ALLOC_SINKS[name]]
            d = S.dom(sz)
            key = "%s|%s|%s" % (b.pretty, short(name), stable(sz))
            if is_const(sz):
                rep.ok(rule, key, "constant size %s" % stable(sz), t["span"], nontrivial=False)
            elif d.hi <= MAX_ALLOC:
                rep.ok(rule, key, "size %s bounded by %s <= 16 MiB" % (stable(sz), d.hi), t["span"])
            elif held_length_only(sz):
                rep.ok(rule, key, "size %s is the length of data already held" % stable(sz), t["span"])
            else:
                rep.bad(rule, key, "allocation sized by %s in %s: not bounded by one maximum message and not the length of held data "
                                   "(a peer-declared count would let a few bytes reserve gigabytes)" % (stable(sz), d), t["span"])
    return n
