"""Semantic queries on the abstract state at the end of a replayed path (used as Extractor probes).

A rule that needs to know "under which condition on the object's state at entry is this path taken" should not look at how the
condition was written (match arm, ==, matches!, a helper returning bool): it asks the path's final state what it knows about
the *entry value* of the field.  Facts attach to values, entry values are never overwritten, so the answer is the same for
every way of writing the same guard."""
from ..absint import State, project, const_val, is_const, set_ty, sv_type, Dom


def adt_by_pretty(prog, pretty):
    for k, a in prog.adts.items():
        if k == pretty or a["pretty"] == pretty or a["pretty"].endswith("::" + pretty):
            return k, a
    return None, None


def field_proj(prog, adt_pretty, names):
    """projection ((f, idx, name), ...) for a path of named fields starting at struct adt_pretty; None if a field is missing"""
    proj = []
    cur = adt_pretty
    for i, n in enumerate(names):
        k, a = adt_by_pretty(prog, cur)
        if a is None or not a["variants"]:
            return None
        hit = None
        for idx, f in enumerate(a["variants"][0]["fields"]):
            if f["name"] == n:
                hit = (idx, f)
        if hit is None:
            return None
        proj.append(("f", hit[0], n))
        ty = hit[1].get("t") or {}
        cur = ty.get("adt") or ty.get("s", "").split("<")[0]
    return tuple(proj)


def entry_self(it):
    return State().read((it.L(1), ()))


def entry_param(it, body, name):
    """entry value of the parameter with this source name (None if there is none)"""
    for i in range(1, body.arg_count + 1):
        if body.locals[i].get("name") == name:
            return State().read((it.L(i), ()))
    return None


def entry_field(it, prog, adt_pretty, names):
    """the value the field self.<names> had when the function was entered"""
    proj = field_proj(prog, adt_pretty, names)
    if proj is None:
        return None
    return State().read((("P", entry_self(it)), proj))


def self_field_loc(it, prog, adt_pretty, names):
    proj = field_proj(prog, adt_pretty, names)
    if proj is None:
        return None
    return (("P", entry_self(it)), proj)


def growth(S, it, prog, adt_pretty, names):
    """current value of the integer field self.<names> minus its entry value, if that is a constant; else None"""
    loc = self_field_loc(it, prog, adt_pretty, names)
    if loc is None:
        return None
    b0, o0 = S.norm(State().read(loc))
    b1, o1 = S.norm(S.read(loc))
    return (o1 - o0) if b0 == b1 else None


def discr_values(S, sv, universe):
    """discriminant values the state allows for enum value sv"""
    d = S.dom(("discr", sv))
    return {x for x in universe if d.lo <= x <= d.hi and x not in d.excl}


def some_payload(sv):
    return project(sv, (("dc", 1, "Some"), ("f", 0, "0")))


def is_some(S, sv):
    d = S.dom(("discr", sv))
    return d.lo == d.hi == 1


def is_none(S, sv):
    d = S.dom(("discr", sv))
    return d.lo == d.hi == 0


def equal(S, a, b):
    if a is None or b is None:
        return False
    if a == b:
        return True
    return bool(S.prove_le(a, b, 0) and S.prove_le(b, a, 0))


def is_some_of(S, opt, x, ty="u32"):
    """the state proves  opt == Some(x)"""
    if opt is None or x is None:
        return False
    p = some_payload(opt)
    if sv_type(p) is None and not is_const(p):
        set_ty(p, ty)
    return is_some(S, opt) and equal(S, p, x)


def variant_index(prog, adt_pretty, name):
    k, a = adt_by_pretty(prog, adt_pretty)
    if a is None:
        return None
    for v in a["variants"]:
        if v["name"] == name:
            return v["vi"]
    return None


def byte_content(it, S, v, depth=0):
    """the bytes of a sequence value when every one of them is a known constant (a literal, a constant array, a vector built from
    such pieces by to_vec / extend_from_slice / push / concat, a constant sub-slice of one), else None"""
    from ..models import value_items
    from .. import interp as I
    if depth > 8 or not isinstance(v, tuple):
        return None
    if is_const(v):
        c = v[2]
        if isinstance(c, tuple) and c and c[0] == "b":
            return tuple(c[1])
        if isinstance(c, tuple) and c and c[0] == "s":
            return tuple(c[1].encode())
        return None
    h = v[0]
    if h == "ref":
        x = S.read(v[1])
        if I.root_is_promoted(v[1]):
            x = I.promoted_read(v[1], x)
        return byte_content(it, S, x, depth + 1)
    items = value_items(v)
    if items is not None:
        out = []
        for e in items:
            if isinstance(e, tuple) and e and e[0] == "splice":
                b = byte_content(it, S, e[1], depth + 1)
                if b is None:
                    return None
                out.extend(b)
            else:
                c = const_val(e)
                if not isinstance(c, int):
                    return None
                out.append(c & 0xFF)
        return tuple(out)
    if h == "upd":
        return byte_content(it, S, v[1], depth + 1)
    if h == "model" and v[1] in ("to_vec", "into_bytes"):
        return byte_content(it, S, v[2], depth + 1)
    if h == "model" and v[1] == "view":
        b = byte_content(it, S, v[2], depth + 1)
        st, ln = const_val(v[3]), const_val(v[4])
        if b is None or not isinstance(st, int) or not isinstance(ln, int) or st + ln > len(b):
            return None
        return b[st:st + ln]
    if h == "agg" and v[1] == "array":
        out = []
        for e in v[3]:
            c = const_val(e)
            if not isinstance(c, int):
                return None
            out.append(c & 0xFF)
        return tuple(out)
    return None
