"""C05 - the handshake completes under any fragmentation and hands back trailing bytes intact (DESIGN.md section 5, C05)."""
import re
from .common import *
from . import loops
from .. import grammar
from ..grammar import fmt_tok
from ..absint import *
from ..interp import stable
from .. import interp as I
from .chunk import sig

CHAIN = ["NeedToSendP0AndP1", "WaitingForPacket0", "WaitingForPacket1", "WaitingForPacket2", "Complete"]
CONSUMED = {"NeedToSendP0AndP1": [], "WaitingForPacket0": ["1"], "WaitingForPacket1": ["1536"], "WaitingForPacket2": ["1536", "rest"]}


def amount(tok):
    """bytes removed from the input buffer by a take token"""
    a = tok[2]
    if a.startswith("1@"):
        return "1"
    m = re.match(r"^0\.\.(\d+)$", a)
    if m:
        return m.group(1)
    if a.startswith("0..") and "input_buffer.len" in a:
        return "rest"
    return a


def run(env, rep):
    prog, ctx = env.prog, env.ctx
    rep.explanation = (
        "R1: the stage graph extracted from the dispatch in process_bytes and the constants each stage function stores is the chain "
        "NeedToSendP0AndP1 -> WaitingForPacket0 -(1 byte)-> WaitingForPacket1 -(1536)-> WaitingForPacket2 -(1536)-> Complete, with no "
        "backward edge and Complete stored only after the third consumption; R2: every consuming call is preceded by a proved "
        "length gate for its own size, and every Ok return that does not advance the stage (a suspension) leaves self untouched; "
        "R3: on the path that stores Complete the remaining_bytes returned are the rest of the input buffer (drain of the full "
        "range, collected), and process_bytes forwards exactly that value into its Completed result; R4: the responses are the "
        "version byte 3 followed by a 1536-byte packet (1537 bytes), and one 1536-byte packet.  R6: an error built by the handshake code is decided by the version byte, the stage (a call after completion) or a digest comparison - never by the number of bytes delivered or buffered.  Not decided: completion of two "
        "instances against each other under all interleavings.")
    pbk = body_by_pretty(prog, "handshake::Handshake::process_bytes")
    if pbk is None:
        rep.anchor_missing("C05.R1", "handshake::Handshake::process_bytes")
        return
    rep.fn(pbk.key)
    stage_adt = None
    for k, a in prog.adts.items():
        if a["pretty"] == "handshake::Stage":
            stage_adt = a
    hs = [a for k, a in prog.adts.items() if a["pretty"] == "handshake::Handshake"]
    hs_ty = "handshake::Handshake"
    if stage_adt is None or not hs:
        rep.anchor_missing("C05.R1", "handshake::Stage / handshake::Handshake")
        return
    names = {i: v["name"] for i, v in enumerate(stage_adt["variants"])}
    sf = None
    for i, f in enumerate(hs[0]["variants"][0]["fields"]):
        if f["name"] == "current_stage":
            sf = ("f", i, f["name"])
    heads = list(pbk.loops)
    if len(heads) != 1 or sf is None:
        rep.anchor_missing("C05.R1", "the stage loop of process_bytes")
        return
    edges, callee_of, problems = loops.stage_graph(env, pbk, heads[0], sf)
    g = {names.get(k, k): sorted(names.get(x, str(x)) for x in v) for k, v in edges.items()}
    want = {CHAIN[i]: [CHAIN[i + 1]] for i in range(4)}
    rep.check("C05.R1", "stage-chain", g == want and not problems,
              "stage graph is the chain %s" % " -> ".join(CHAIN),
              "the stage graph extracted from process_bytes is %s; the handshake needs the chain %s with no skipped, repeated or backward stage%s" % (
                  g, " -> ".join(CHAIN), ("; " + "; ".join(problems)) if problems else ""), pbk.span)
    rep.floor("C05.R1", "stages dispatched in process_bytes", len(callee_of), 4)
    # the loop repeats only while the stage changed
    sm = loops.stage_machine(env, pbk, heads[0])
    rep.check("C05.R1", "loop-stops-without-progress", sm is not None and sm[0], "process_bytes re-runs the dispatch only after a stage change" if sm else "-",
              (sm[1] if sm else "process_bytes' loop is not recognised as a stage machine"), pbk.span)
    # ------------------------------------------------------------------ per stage function
    n_susp = 0
    stage_fns = {}
    stage_traces = {}
    for k, ck in callee_of.items():
        sb = prog.bodies[ck]
        rep.fn(sb.key)
        stage = names.get(k, str(k))
        stage_fns[stage] = sb
        def probe(it_, S_):
            """where in the bytes that were buffered at entry the buffer stands now, and which part of them is handed back"""
            from ..models import span_of
            from . import facts
            loc = facts.self_field_loc(it_, prog, hs_ty, ["input_buffer"])
            if loc is None:
                return None
            len0 = facts.State().read((loc[0], loc[1] + (("len",),)))
            org, st, ln = span_of(it_, S_, loc)
            cur_len = S_.read((loc[0], loc[1] + (("len",),)))
            out = {"same": org == loc, "start": const_val(st), "empty": const_val(cur_len) == 0}
            rv = S_.read((it_.L(0), ()))
            for x in subterms(rv):
                if isinstance(x, tuple) and x[0] == "model" and x[1] == "span" and isinstance(x[2], tuple) and x[2][0] == "ref":
                    b_, off = S_.norm(x[4])
                    out["left_from"] = (x[2][1] == loc, const_val(x[3]), (b_ == S_.norm(len0)[0] and off - S_.norm(len0)[1]) if b_ is not None else None)
            return tuple(sorted(out.items()))
        tr = [sig(p) for p in grammar.trace(env, sb.key, "r", probe=probe).paths]
        stage_traces[stage] = tr
        adv_amounts = set()
        adv_spans = set()
        for p in tr:
            rets = [t for t in p if t[0] == "returns"]
            if not rets:
                continue
            stores = [i for i, t in enumerate(p) if t[0] == "store" and t[1] == "current_stage"]
            takes = [(i, amount(t)) for i, t in enumerate(p) if t[0] == "take" and t[1] == "input_buffer"]
            is_ok = rets[-1][1].startswith("Ok(")
            if stores:
                adv_amounts.add(tuple(a for _, a in takes))
                pr = [t for t in p if t[0] == "probe"]
                d = dict(pr[-1][1]) if pr and pr[-1][1] else {}
                adv_spans.add(("rest" if d.get("empty") and d.get("same") and (d.get("start") is None or d.get("start") >= 0) and stage == CHAIN[3] else d.get("start")) if d.get("same") else None)
                # Complete only after the consumption of this stage's packet
                val = p[stores[-1]][2]
                if val.endswith("Complete"):
                    first_take = takes[0][0] if takes else 10 ** 9
                    pr = [t for t in p if t[0] == "probe"]
                    d = dict(pr[-1][1]) if pr and pr[-1][1] else {}
                    consumed = first_take < stores[-1] or bool(d.get("empty"))
                    rep.check("C05.R1", "%s|complete-after-consumption" % stage, consumed and stage == CHAIN[3],
                              "Complete is stored after the peer's last packet was taken from the buffer",
                              "%s stores Complete %s" % (sb.pretty, "before consuming its packet" if stage == CHAIN[3] else "although it is not the last stage"), sb.span)
            elif is_ok:
                # a suspension: no effect on self
                fin = [t for t in p if t[0] == "final"]
                muts = [t for t in p if t[0] in ("mut", "store", "take")]
                n_susp += 1
                effects = (fin[-1][1] if fin else ()) or tuple((t[0], t[1]) for t in muts)
                rep.check("C05.R2", "%s|suspension-has-no-effect" % stage, not effects,
                          "returning without progress leaves the handshake untouched",
                          "%s can return Ok without advancing the stage after changing %s: the bytes consumed / state written on that path are lost when the call is repeated with more input" % (
                              sb.pretty, [e[0] if isinstance(e, tuple) else e for e in effects][:3]), sb.span)
        wantc = CONSUMED.get(stage)
        if wantc is not None:
            want_span = {"rest"} if "rest" in wantc else ({int(wantc[0])} if wantc else {0})
            rep.check("C05.R1", "%s|consumes" % stage, adv_amounts == {tuple(wantc)} or adv_spans == want_span,
                      "advancing from %s consumes %s byte(s)" % (stage, wantc or "no"),
                      "advancing from %s removes %s from the input buffer; the handshake needs exactly %s" % (stage, sorted(adv_amounts), wantc), sb.span)
        # gates: the consuming calls' preconditions are discharged
        it = ctx.interp(sb.key)
        for o in it.walk():
            if o.kind.startswith("precond:Vec::") or o.kind == "precond:slice-range":
                rep.check("C05.R2", "%s|gate|%s" % (stage, o.what), o.proved, "length gate before the consuming call: " + o.detail,
                          "a consuming call in %s is not guarded by a length check for its own size: %s" % (sb.pretty, o.detail), o.span)
    rep.floor("C05.R2", "suspension returns of the stage functions", n_susp, 3)
    # ------------------------------------------------------------------ R3 left-over bytes
    last = stage_fns.get(CHAIN[3])
    if last is None:
        rep.anchor_missing("C05.R3", "stage function of " + CHAIN[3])
    else:
        n_c = 0
        for p in stage_traces.get(CHAIN[3], []):
            rets = [t for t in p if t[0] == "returns"]
            if not rets or "Completed(" not in rets[-1][1]:
                continue
            n_c += 1
            inner = rets[-1][1]
            rest = inner.split("Completed(", 1)[1]
            rb = rest.rsplit(", ", 1)[-1] if ", " in rest else rest
            full = [t for t in p if t[0] == "mut" and t[1] == "drain" and t[2] == "input_buffer" and t[3] and t[3][0].startswith("RangeFull")]
            pr = [t for t in p if t[0] == "probe"]
            d = dict(pr[-1][1]) if pr and pr[-1][1] else {}
            lf = d.get("left_from")
            # the bytes handed back are exactly those that followed the 1536-byte packet in the buffer, and the buffer ends up empty
            by_span = bool(lf) and lf[0] and lf[1] == 1536 and lf[2] == -1536 and bool(d.get("empty"))
            rep.check("C05.R3", "%s|leftover-from-buffer" % last.pretty.split("::")[-1], ("collect(" in rb and "drain" in rb and len(full) == 1) or by_span,
                      "remaining_bytes = the rest of input_buffer (drain(..).collect())",
                      "on completion remaining_bytes is %s: bytes that followed the peer's last handshake packet must be handed back, in order, exactly once" % rb[:120], last.span)
        rep.floor("C05.R3", "completion paths of the last stage", n_c, 1)
    # process_bytes forwards the value: the vector extended with the stage result's Completed.remaining_bytes is the one returned
    it = ctx.interp(pbk.key)
    I.CUR_BODY[0] = pbk
    sink_local = None
    fed = False
    for bi, t in pbk.calls():
        if "Extend" in (t["callee"].get("orig_pretty") or "") or callee_name(t).endswith("::extend"):
            S, args = args_at(ctx, pbk.key, bi)
            if S is None:
                continue
            if contains(args[1], lambda x: x[0] in ("proj", "ld") and any(isinstance(e, tuple) and len(e) > 2 and e[2] == "remaining_bytes" for e in (x[2] if x[0] == "proj" else x[1][1]))):
                tgt = it.target(args[0])
                if tgt[0][0] == "L":
                    sink_local = tgt[0][1]
                    fed = True
    returned = False
    for bi in pbk.rpo:
        for si, st in enumerate(pbk.blocks[bi]["stmts"]):
            rv = st["rv"]
            if rv["k"] == "agg" and rv.get("variant") == "Completed" and rv["adt"].endswith("HandshakeProcessResult") and sink_local is not None:
                S = it.entry_states[bi].copy()
                for j, s2 in enumerate(pbk.blocks[bi]["stmts"][:si]):
                    it.cur = (bi, j)
                    it.transfer_stmt(S, s2)
                it.cur = (bi, si)
                idx = rv["fields"].index("remaining_bytes")
                v = it.eval_op(S, rv["ops"][idx])
                cur = S.read((it.L(sink_local), ()))
                returned = (v == cur) or (isinstance(v, tuple) and v[0] == "phi" and v[2][0] == it.L(sink_local))
    rep.check("C05.R3", "process_bytes-forwards-leftover", fed and returned,
              "process_bytes collects the stage's remaining_bytes and returns that vector as its own remaining_bytes",
              "process_bytes does not hand the stage function's remaining_bytes through to its Completed result (collected: %s, returned: %s): trailing application data would be dropped" % (fed, returned), pbk.span)
    # ------------------------------------------------------------------ R4 sizes
    gen = body_by_pretty(prog, "handshake::Handshake::generate_outbound_p0_and_p1")
    p1 = stage_fns.get(CHAIN[2])
    if gen is not None:
        rep.fn(gen.key)
        it = ctx.interp(gen.key)
        lens = set()
        for bi in gen.return_blocks:
            S = it.exit_state(bi)
            if S is None:
                continue
            v = S.read((it.L(0), ()))
            ln = project(v, (("dc", 0, "Ok"), ("f", 0, "0"), ("len",)))
            lens.add(const_val(ln) if const_val(ln) is not None else stable(ln))
        first = [t for p in grammar.trace(env, gen.key, "r").paths for t in p if t[0] == "call" and False]
        rep.check("C05.R4", "p0p1-size", lens == {1537}, "the first response is 1 + 1536 = 1537 bytes", "generate_outbound_p0_and_p1 returns %s bytes (expected 1537: version byte + packet 1)" % sorted(map(str, lens)), gen.span)
        # version byte
        vb = None
        for bi, t in gen.calls():
            if callee_name(t) == "alloc::boxed::box_assume_init_into_vec_unsafe":
                S = it.edge_out.get((bi, t["t"]))
                if S is not None:
                    v = S.read(it.resolve(S, Place(t["dest"])))
                    base = v[1] if isinstance(v, tuple) and v[0] == "upd" else v
                    if isinstance(base, tuple) and base[0] == "model" and base[1] == "vec!":
                        vb = [const_val(x) for x in base[2][3]]
        rep.check("C05.R4", "version-byte", vb == [3], "the response starts with the version byte 3", "the response starts with %s" % vb, gen.span)
    if p1 is not None:
        it = ctx.interp(p1.key)
        lens = set()
        for bi in p1.rpo:
            for si, st in enumerate(p1.blocks[bi]["stmts"]):
                rv = st["rv"]
                if rv["k"] == "agg" and rv.get("variant") == "InProgress" and rv["adt"].endswith("HandshakeProcessResult"):
                    S = it.entry_states[bi].copy()
                    for j, s2 in enumerate(p1.blocks[bi]["stmts"][:si]):
                        it.cur = (bi, j)
                        it.transfer_stmt(S, s2)
                    it.cur = (bi, si)
                    v = it.eval_op(S, rv["ops"][0])
                    ln = project(v, (("len",),))
                    # the suspension return answers with an empty vector; everything else must be one packet
                    if const_val(ln) != 0:
                        lens.add(const_val(ln) if const_val(ln) is not None else stable(ln))
        rep.check("C05.R4", "p2-size", lens == {1536}, "packet 2 (signed or echoed) is 1536 bytes", "the response to packet 1 has length %s (expected 1536)" % sorted(map(str, lens)), p1.span)

    # ------------------------------------------------------------------ R6 what the handshake refuses
    # "completes without error under every fragmentation": an error built by the handshake code is decided by the version byte, by the
    # stage (a call after completion) or - inside the digest search, whose failure the packet-1 stage answers with an echo - by a
    # digest comparison; never by how many bytes a call delivered or how many are buffered
    from ..framework import wants as _w
    if _w(rep, "C05.R6"):
        pbk = body_by_pretty(prog, "handshake::Handshake::process_bytes")
        n6 = 0
        if pbk is None:
            rep.anchor_missing("C05.R6", "handshake::Handshake::process_bytes")
        else:
            for k in sorted(prog.reachable_from([pbk.key])):
                hb = prog.bodies.get(k)
                if hb is None or hb.kind == "promoted" or "handshake" not in hb.key:
                    continue
                ex = grammar.Extractor(env, hb.key, "r")
                ex.run()
                seen = set()
                for p in ex.paths:
                    rets = [t for t in p if t[0] == "returns"]
                    if not rets or not str(rets[-1][1]).startswith("Err(HandshakeError::"):
                        continue
                    whens = [t for t in p if t[0] == "when"]
                    last = whens[-1][1] if whens else ""
                    err = re.sub(r"\(.*", "", str(rets[-1][1])[4:])
                    ok = bool(re.search(r"current_stage|^\(?elem\[0\]|seqeq\(|digest", last)) and "len" not in last
                    if (err, ok) in seen:
                        continue
                    seen.add((err, ok))
                    n6 += 1
                    rep.check("C05.R6", "%s|refuses:%s" % (hb.pretty.split("::")[-1], err.split("::")[-1]), ok,
                              "%s builds %s on a decision about %s" % (hb.pretty.split("::")[-1], err.split("::")[-1], "the stage" if "current_stage" in last else "the version byte" if "elem" in last else "a digest comparison"),
                              "%s builds the error %s on the decision [%s]: the handshake may refuse a wrong version byte or a call after completion, but must complete under every "
                              "fragmentation - however many bytes one call delivers or are buffered (trailing application data included)" % (hb.pretty, err, last[:120]), hb.span)
            rep.floor("C05.R6", "errors built by the handshake code", n6, 2)
    # ------------------------------------------------------------------ R5 the packet-1 stage answers every peer (C11 R4)
    from ..framework import PrefixReport, wants
    from . import C11
    if wants(rep, "C05.R5"):
        C11.run(env, PrefixReport(rep, "C11.", "C05.R5.", only=("C11.R4",)))


def _trace_local(env, b):
    ex = grammar.Extractor(env, b.key, "r")
    ex.all_local_calls = True
    ex.track_ext = True
    ex.track_local_muts = True
    ex.track_stores = True
    return ex.run()


def _local_of(s, p):
    return s
