"""C20 - RTMP timestamps as a wrap-around clock (DESIGN.md section 5, C20).

The functions of time.rs touch their two u32 inputs only through comparisons, differences and wrapping sums.  Their behaviour is
therefore decided on a finite partition of u32 x u32: the order of the two values (a < b, a = b, a > b) times the class of their
distance (1 .. 2^31-1, exactly 2^31, 2^31+1 .. 2^32-1).  Each cell is a conjunction of difference constraints; the abstract
interpreter is started with the cell as entry assumption, every path of the function under test is replayed with all local
callees followed in place, and the set of results the cell allows is read off.  No input is ever enumerated or executed."""
from .common import *
from .. import grammar
from ..absint import State, set_ty, const_val, is_const, sv_type
from ..interp import stable
from . import facts

H = 2 ** 31
W = 2 ** 32
CELLS = [("lt", "near"), ("lt", "anti"), ("lt", "far"), ("eq", None), ("gt", "near"), ("gt", "anti"), ("gt", "far")]
ORD_NAMES = {0: "Less", 1: "Equal", 2: "Greater"}


def cell_state(a, b, rel, dist):
    E = State()
    if rel == "eq":
        E.add_le(a, b, 0)
        E.add_le(b, a, 0)
        return E
    lo, hi = (a, b) if rel == "lt" else (b, a)      # hi - lo = the distance >= 1
    if dist == "near":
        E.add_le(lo, hi, -1)
        E.add_le(hi, lo, H - 1)
    elif dist == "anti":
        E.add_le(hi, lo, H)
        E.add_le(lo, hi, -H)
    else:
        E.add_le(lo, hi, -(H + 1))
    return E


def expected_order(rel, dist):
    """compare(a, b): a is later than b exactly when a is 1 .. 2^31-1 ahead of b modulo 2^32"""
    if rel == "eq":
        return 1
    if dist == "anti":
        return None
    if rel == "lt":
        return 0 if dist == "near" else 2
    return 2 if dist == "near" else 0


def operand_values(it, body):
    """the two u32 values a function of time.rs works on: a parameter that is a u32 / &u32 / RtmpTimestamp / &RtmpTimestamp"""
    out = []
    for i in range(1, body.arg_count + 1):
        t = body.locals[i]["t"]
        ref = False
        while t.get("k") == "ref":
            t = t["to"]
            ref = True
        p = State().read((it.L(i), ()))
        if t.get("k") == "uint" and t.get("s") == "u32":
            v = State().read((("P", p), ())) if ref else p
        elif t.get("k") == "adt" and t.get("s", "").endswith("RtmpTimestamp"):
            v = State().read((("P", p), (("f", 0, "value"),))) if ref else State().read((it.L(i), (("f", 0, "value"),)))
        else:
            continue
        set_ty(v, "u32")
        out.append(v)
    return out


def results_in_cell(env, body, E):
    """set of values the function can return when started in the cell (all local callees followed in place)"""
    ex = grammar.Extractor(env, body.key, "r", entry=E, max_paths=400)
    ex.inline = True
    ex.inline_depth = 6
    ex.inline_blocks = 120
    ex.inline_pred = lambda cb, t: True
    ex.probe = lambda it, S: S.read((it.L(0), ()))
    ex.run()
    vals = set()
    for p in ex.paths:
        if p and p[-1][0] == "end" and p[-1][1] == "diverge":
            vals.add(("diverges",))
            continue
        pr = [t for t in p if t[0] == "probe"]
        if pr:
            vals.add(pr[-1][1])
    return vals, ex.truncated


def unwrap(v):
    while isinstance(v, tuple) and v[0] == "upd":
        v = v[1]
    return v


def as_ordering(v):
    """variant index of an Ordering / Option<Ordering> constant, else None"""
    v = unwrap(v)
    if isinstance(v, tuple) and v[0] == "agg" and v[1] == "core::option::Option":
        if v[2] != 1:
            return "None"
        v = unwrap(v[3][0])
    if isinstance(v, tuple) and v[0] == "agg" and v[1] == "core::cmp::Ordering":
        return v[2]
    return None


def lin(S, sv, depth=0):
    """sv as (coefficients over opaque values, constant) when that is exact in state S; wrapping operations are resolved
    when the state determines how often they wrap"""
    c = const_val(sv)
    if isinstance(c, bool):
        c = 1 if c else 0
    if isinstance(c, int):
        return ({}, c)
    if not isinstance(sv, tuple) or depth > 8:
        return ({sv: 1}, 0)
    if sv[0] == "cast":
        d = S.dom(sv[2])
        from ..absint import dom_of_type
        tr = dom_of_type(sv[1])
        if d.lo >= tr.lo and d.hi <= tr.hi:
            return lin(S, sv[2], depth + 1)
        return ({sv: 1}, 0)
    if sv[0] == "bin" and sv[1] in ("Add", "Sub", "AddW", "SubW"):
        op, ty, a, b = sv[1], sv[2], sv[3], sv[4]
        la, lb = lin(S, a, depth + 1), lin(S, b, depth + 1)
        sign = 1 if op.startswith("Add") else -1
        co = dict(la[0])
        for k, v in lb[0].items():
            co[k] = co.get(k, 0) + sign * v
        co = {k: v for k, v in co.items() if v != 0}
        k0 = la[1] + sign * lb[1]
        if not op.endswith("W"):
            return (co, k0)
        # number of wraps: from the interval of the exact result
        exact = S.dom(("bin", op[:-1], "i128", a, b))
        from ..absint import dom_of_type
        tr = dom_of_type(ty)
        width = tr.hi - tr.lo + 1
        if exact.lo == -float("inf") or exact.hi == float("inf"):
            return ({canon_wrap(sv): 1}, 0)
        q1, q2 = (exact.lo - tr.lo) // width, (exact.hi - tr.lo) // width
        if q1 != q2:
            return ({canon_wrap(sv): 1}, 0)
        return (co, k0 - q1 * width)
    return ({sv: 1}, 0)


def canon_wrap(sv):
    if sv[1] == "AddW" and repr(sv[4]) < repr(sv[3]):
        return ("bin", "AddW", sv[2], sv[4], sv[3])
    return sv


def run(env, rep):
    prog = env.prog
    rep.explanation = (
        "The functions of time.rs are decided on a finite partition of u32 x u32 - order of the two values (a < b, a = b, a > b) "
        "times distance class (1..2^31-1, exactly 2^31, 2^31+1..2^32-1) - by starting the abstract interpreter with each cell as "
        "entry assumption and replaying every path with all local callees followed in place (no input is enumerated or run): "
        "R1 the Add / Sub implementations have no undischarged checked-arithmetic site, and in every cell their result is the sum / "
        "difference of the two values modulo 2^32 (linear normal form, wrap count resolved by the cell); R2 Ord, PartialOrd<Self>, "
        "PartialOrd<u32> and PartialOrd<RtmpTimestamp> for u32 return, in every cell, exactly one result, the same for all of "
        "them: Equal iff a = b, 'a later' iff a is 1..2^31-1 ahead of b modulo 2^32; at distance exactly 2^31 any answer is "
        "accepted as long as compare(a, b) and compare(b, a) are opposite (antisymmetry); the PartialEq impls between RtmpTimestamp "
        "and u32 return true exactly in the cell a = b; R3 (same evaluation) the boundary between natural and reversed order lies "
        "between distance 2^31-1 and 2^31+1 - a threshold off by one makes a cell yield two results.  Not decided: nothing of the "
        "ordering / arithmetic clauses beyond the trusted models of the integer operations; inverse-ness of + and - follows from "
        "both being exact modulo 2^32.")
    ts_key, ts = facts.adt_by_pretty(prog, "time::RtmpTimestamp")
    if ts is None:
        rep.anchor_missing("C20.R1", "struct time::RtmpTimestamp")
        return
    impls = {}
    for b in prog.bodies.values():
        if b.kind != "assoc" or not b.impl or not b.impl.get("trait"):
            continue
        tr = b.impl.get("trait_ref") or ""
        if "RtmpTimestamp" in tr or b.impl["self_ty"].endswith("RtmpTimestamp"):
            impls.setdefault(b.impl["trait"].split("::")[-1], []).append(b)
    # ------------------------------------------------------------------ R1 arithmetic
    arith = [b for t in ("Add", "Sub") for b in impls.get(t, []) if not is_derived(b)]
    rep.floor("C20.R1.impls", "Add / Sub implementations of RtmpTimestamp", len(arith), 4)
    panic_sites(env, rep, "C20.R1", [b.key for b in arith], "time arithmetic")
    from .. import interp as I
    for b in arith:
        rep.fn(b.key)
        it = env.ctx.interp(b.key)
        I.CUR_BODY[0] = b
        ops = operand_values(it, b)
        if len(ops) != 2:
            rep.cannot_analyse("C20.R1", "%s|operands" % b.pretty, "%s does not take two timestamp / u32 values" % b.pretty, b.span)
            continue
        a, c = ops
        opn = "AddW" if b.impl["trait"].endswith("Add") else "SubW"
        want = ("bin", opn, "u32", a, c)
        bad = []
        for rel in ("lt", "eq", "gt"):
            E = State()
            if rel == "lt":
                E.add_le(a, c, -1)
            elif rel == "eq":
                E.add_le(a, c, 0)
                E.add_le(c, a, 0)
            else:
                E.add_le(c, a, -1)
            vals, trunc = results_in_cell(env, b, E)
            if trunc or not vals:
                bad.append("%s: cannot enumerate the paths" % rel)
                continue
            for v in vals:
                v = unwrap(v)
                if not (isinstance(v, tuple) and v[0] == "agg" and isinstance(v[1], str) and v[1].endswith("RtmpTimestamp") and v[3]):
                    bad.append("%s: returns %s" % (rel, stable(v)[:80]))
                    continue
                got = v[3][0]
                if lin(E, got) != lin(E, want):
                    bad.append("for a %s b the result is %s, not (a %s b) mod 2^32" % ({"lt": "<", "eq": "=", "gt": ">"}[rel], stable(got)[:100], "+" if opn == "AddW" else "-"))
        rep.check("C20.R1", "%s|exact-mod-2^32" % b.pretty, not bad, "returns the %s of the two values modulo 2^32 in every cell" % ("sum" if opn == "AddW" else "difference"),
                  "%s: %s" % (b.pretty, "; ".join(sorted(set(bad)))), b.span)
    # ------------------------------------------------------------------ R2 / R3 ordering
    orderings = [b for tname in ("Ord", "PartialOrd") for b in impls.get(tname, []) if not is_derived(b) and b.name in ("cmp", "partial_cmp")]
    rep.floor("C20.R2", "ordering implementations involving RtmpTimestamp", len(orderings), 4)
    table = {}
    for b in orderings:
        rep.fn(b.key)
        it = env.ctx.interp(b.key)
        I.CUR_BODY[0] = b
        ops = operand_values(it, b)
        if len(ops) != 2:
            rep.cannot_analyse("C20.R2", "%s|operands" % b.pretty, "%s does not compare two timestamp / u32 values" % b.pretty, b.span)
            continue
        a, c = ops
        bad = []
        row = {}
        for rel, dist in CELLS:
            vals, trunc = results_in_cell(env, b, cell_state(a, c, rel, dist))
            got = {as_ordering(v) for v in vals}
            cell = "a %s b%s" % ({"lt": "<", "eq": "=", "gt": ">"}[rel], {"near": ", distance 1..2^31-1", "anti": ", distance exactly 2^31", "far": ", distance 2^31+1..2^32-1", None: ""}[dist])
            if trunc or not vals or None in got or "None" in got or len(got) != 1:
                bad.append("%s: the result is not determined by the cell (%s) - a comparison threshold cuts through it or the result is not a comparison of the two values" % (
                    cell, sorted(ORD_NAMES.get(g, str(g)) if g is not None else "an undetermined value" for g in got) or "no result"))
                continue
            g = next(iter(got))
            row[(rel, dist)] = g
            want = expected_order(rel, dist)
            if want is not None and g != want:
                bad.append("%s: returns %s, the wrap-around order requires %s" % (cell, ORD_NAMES[g], ORD_NAMES[want]))
        if ("lt", "anti") in row and ("gt", "anti") in row:
            if not (row[("lt", "anti")] in (0, 2) and row[("gt", "anti")] == 2 - row[("lt", "anti")]):
                bad.append("at distance exactly 2^31: compare(a, b) = %s and compare(b, a) = %s are not opposite (antisymmetry)" % (
                    ORD_NAMES[row[("lt", "anti")]], ORD_NAMES[row[("gt", "anti")]]))
        table[b.pretty] = row
        rep.check("C20.R2", "%s|order-by-cell" % b.pretty, not bad, "Equal iff a = b; later iff 1..2^31-1 ahead modulo 2^32; opposite answers at distance 2^31 (%d cells)" % len(CELLS),
                  "%s: %s" % (b.pretty, "; ".join(bad)), b.span)
    rows = {tuple(sorted((str(k), v) for k, v in r.items())) for r in table.values()}
    rep.check("C20.R2", "orderings-agree", len(rows) <= 1 and bool(table), "all ordering implementations give the same answer in every cell",
              "the ordering implementations disagree: %s" % {n: {"%s/%s" % k: ORD_NAMES.get(v) for k, v in r.items()} for n, r in table.items()})
    rep.exhaustive = True
    neq = 0
    for b in impls.get("PartialEq", []):
        if is_derived(b) or b.name != "eq":
            continue
        rep.fn(b.key)
        it = env.ctx.interp(b.key)
        I.CUR_BODY[0] = b
        ops = operand_values(it, b)
        if len(ops) != 2:
            continue
        neq += 1
        a, c = ops
        bad = []
        for rel in ("lt", "eq", "gt"):
            vals, trunc = results_in_cell(env, b, cell_state(a, c, rel, "near") if rel != "eq" else cell_state(a, c, "eq", None))
            got = set()
            for v in vals:
                cv = const_val(unwrap(v))
                got.add(None if cv is None else (1 if cv else 0))
            if trunc or got != {1 if rel == "eq" else 0}:
                bad.append("for a %s b it returns %s" % ({"lt": "<", "eq": "=", "gt": ">"}[rel], sorted(str(g) for g in got)))
        rep.check("C20.R2", "%s|eq" % b.pretty, not bad, "true exactly when the two values are equal", "%s: %s" % (b.pretty, "; ".join(bad)), b.span)
    rep.floor("C20.R2.eq", "PartialEq implementations between RtmpTimestamp and u32", neq, 2)
