"""C20 - RTMP timestamps as a wrap-around clock (DESIGN.md section 5, C20)."""
import re
from .common import *
from . import chunk
from .. import grammar
from ..grammar import fmt_tok


def run(env, rep):
    prog = env.prog
    rep.explanation = (
        "R1: the Add / Sub implementations of RtmpTimestamp (both right-hand types) contain no undischarged checked-arithmetic "
        "site on any path (they wrap); R2: Ord, PartialOrd<Self>, PartialOrd<u32> and PartialOrd<RtmpTimestamp> for u32 all return "
        "the result of the one comparison function, called with (left value, right value) in that order, and the two PartialEq "
        "directions compare exactly the two values; R3: inside the comparison function the branch between natural and reversed "
        "order partitions the absolute difference into [0, 2^31-1] | [2^31, 2^32-1] (computed from the guarding comparison, "
        "insensitive to <= C versus < C+1), the natural branch returns cmp(a, b) and the reversed branch cmp(b, a).  Not decided: "
        "the arithmetic identities and the order relation over u32 x u32 (including the antipodal distance 2^31).")
    ts = None
    for k, a in prog.adts.items():
        if a["pretty"] == "time::RtmpTimestamp":
            ts = k
    if ts is None:
        rep.anchor_missing("C20.R1", "struct time::RtmpTimestamp")
        return
    impls = {}
    for b in prog.bodies.values():
        if b.kind != "assoc" or not b.impl or not b.impl.get("trait"):
            continue
        tr = b.impl.get("trait_ref") or ""
        if "RtmpTimestamp" in tr or b.impl["self_ty"].endswith("RtmpTimestamp"):
            impls.setdefault(b.impl["trait"].split("::")[-1], []).append(b)
    # ------------------------------------------------------------------ R1
    arith = [b for t in ("Add", "Sub") for b in impls.get(t, []) if not is_derived(b)]
    rep.floor("C20.R1.impls", "Add / Sub implementations of RtmpTimestamp", len(arith), 4)
    bodies, n = panic_sites(env, rep, "C20.R1", [b.key for b in arith], "time arithmetic")
    # the results must be the wrapping sum / difference of the two values
    for b in arith:
        exp = "AddW" if b.impl["trait"].endswith("Add") else "SubW"
        rets = [t[1] for p in grammar.reads(env, b.key).paths for t in p if t[0] == "returns"]
        ok = len(rets) == 1 and re.match(r"^RtmpTimestamp\(\(load\(self\.value\) %s load\(other(\.value)?\)\)\)$" % exp, rets[0]) is not None
        rep.check("C20.R1", "%s|wrapping-result" % b.pretty, ok, "returns RtmpTimestamp(self.value %s other)" % exp,
                  "%s returns %s; expected the wrapping %s of the two values" % (b.pretty, rets, "sum" if exp == "AddW" else "difference"), b.span)
    # ------------------------------------------------------------------ R2
    cmpf = body_by_pretty(prog, "time::compare")
    if cmpf is None:
        rep.anchor_missing("C20.R2", "time::compare (the single comparison function)")
        return
    rep.fn(cmpf.key)
    n2 = 0
    for tname, wrap in (("Ord", False), ("PartialOrd", True)):
        for b in impls.get(tname, []):
            if is_derived(b) or b.name not in ("cmp", "partial_cmp"):
                continue
            rep.fn(b.key)
            n2 += 1
            paths = grammar.reads(env, b.key, all_local_calls=True).paths
            calls = [t for p in paths for t in p if t[0] == "call" and t[1] == "time::compare"]
            rets = [t[1] for p in paths for t in p if t[0] == "returns"]
            left_is_ts = b.impl["self_ty"].endswith("RtmpTimestamp")
            tr = b.impl.get("trait_ref") or ""
            right_is_ts = ("PartialOrd<u32>" not in tr) if left_is_ts else True
            a_want = r"&\*?load\(self\)\.value" if left_is_ts else r"(&\*?load\(self\)|load\(self\))"
            b_want = r"&\*?load\(other\)\.value" if right_is_ts else r"(&\*?load\(other\)|load\(other\))"
            okc = len(calls) == 1 and len(calls[0][2]) == 2 and re.match("^" + a_want + "$", calls[0][2][0]) and re.match("^" + b_want + "$", calls[0][2][1])
            okr = len(rets) == 1 and rets[0] in ("call(time::compare)", "Some(call(time::compare))")
            rep.check("C20.R2", "%s|uses-compare" % b.pretty, bool(okc and okr), "returns compare(left value, right value)",
                      "%s calls %s and returns %s; expected the result of compare(left value, right value)" % (
                          b.pretty, [(c[1], c[2]) for c in calls] or "no comparison function", rets), b.span)
    rep.floor("C20.R2", "ordering implementations involving RtmpTimestamp", n2, 4)
    neq = 0
    for b in impls.get("PartialEq", []):
        if is_derived(b) or b.name != "eq":
            continue
        rep.fn(b.key)
        neq += 1
        rets = [t[1] for p in grammar.reads(env, b.key).paths for t in p if t[0] == "returns"]
        ok = len(rets) == 1 and re.match(r"^\(load\(\*?load\((self|other)\)(\.value)?\) Eq load\(\*?load\((self|other)\)(\.value)?\)\)$", rets[0]) is not None \
            and rets[0].count(".value") == 1 and "self" in rets[0] and "other" in rets[0]
        rep.check("C20.R2", "%s|eq" % b.pretty, ok, "compares the timestamp's value with the integer", "%s returns %s" % (b.pretty, rets), b.span)
    rep.floor("C20.R2.eq", "PartialEq implementations between RtmpTimestamp and u32", neq, 2)
    # ------------------------------------------------------------------ R3
    paths = grammar.reads(env, cmpf.key).paths
    nat, rev = [], []
    for p in paths:
        r = [t[1] for t in p if t[0] == "returns"]
        iv = chunk.interval_from_decisions(p, "Sub")
        if r and re.match(r"^cmp\(load\(\*?load\(value1\)\),load\(\*?load\(value2\)\)\)$", r[-1]):
            nat.append(iv)
        elif r and re.match(r"^cmp\(load\(\*?load\(value2\)\),load\(\*?load\(value1\)\)\)$", r[-1]):
            rev.append(iv)
        else:
            nat.append(("?", r))
    rep.check("C20.R3", "threshold-partition", nat == [(0, 2147483647)] and rev == [(2147483648, 4294967295)],
              "natural order for |a-b| in [0, 2^31-1], reversed for [2^31, 2^32-1]",
              "compare uses natural order when the absolute difference is in %s and reversed order when in %s; the wrap-around clock needs [0, 2147483647] / [2147483648, 4294967295]" % (nat, rev), cmpf.span)
    # the quantity tested is max - min of the two values
    descs = {t[1] for p in paths for t in p if t[0] == "when"}
    okd = bool(descs) and all(re.match(r"^\(\(max\(load\(\*?load\(value[12]\)\),load\(\*?load\(value[12]\)\)\) Sub min\(load\(\*?load\(value[12]\)\),load\(\*?load\(value[12]\)\)\)\) (Le|Lt|Gt|Ge) \d+\)$", d) for d in descs)
    rep.check("C20.R3", "difference-is-max-minus-min", okd, "the tested quantity is max(a,b) - min(a,b)", "compare tests %s" % sorted(descs), cmpf.span)
