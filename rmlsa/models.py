"""Models of the std / bytes / byteorder functions the two crates call: transfer function,
panic precondition, effect.  Each entry cites the documented behaviour it encodes.
A model returns the result SV (or NORESULT when it wrote the destination itself, or None to fall
back to the default "unknown call" treatment)."""
import re
from .absint import *
from .interp import NORESULT, stable
from .loader import Place, op_place

MODELS = {}
PREFIX_MODELS = []


def model(*names):
    def deco(f):
        for n in names:
            MODELS[n] = f
        return f
    return deco


def model_for(callee, name):
    m = MODELS.get(name)
    if m is not None:
        return m
    orig = norm_name(callee.get("orig_pretty"))
    m = MODELS.get(orig)
    if m is not None:
        return m
    for pred, f in PREFIX_MODELS:
        if pred(name, callee):
            return f
    return None


def U(n):
    return K("usize", n)


def _is_unit_enum(it, adt):
    return adt is not None and it.ctx.unit_enums.get(adt, False)


# ----------------------------------------------------------------------------- panics (diverging)
PANIC_FUNCS = (
    "core::panicking::panic_fmt", "core::panicking::panic", "std::panicking::begin_panic",
    "core::panicking::panic_explicit", "core::panicking::unreachable_display", "core::panicking::panic_display",
    "core::option::unwrap_failed", "core::option::expect_failed", "core::result::unwrap_failed",
    "core::panicking::assert_failed", "std::rt::begin_panic", "core::panicking::panic_nounwind",
    "core::slice::index::slice_index_fail", "core::panicking::panic_bounds_check",
)


def is_panic_name(name):
    return name in PANIC_FUNCS or name.startswith("core::panicking::") or name.startswith("std::panicking::")


def _panic(it, S, t, callee, args):
    name = norm_name(callee.get("pretty"))
    it.oblige("panic", "panic|%s" % short(name), False, t["span"], "explicit panic call reachable", callee=name)
    S.dead = True
    return NORESULT


for _n in PANIC_FUNCS:
    MODELS[_n] = _panic
PREFIX_MODELS.append((lambda name, c: is_panic_name(name), _panic))


# ----------------------------------------------------------------------------- lengths
@model("alloc::vec::Vec::len", "alloc::string::String::len", "bytes::bytes::Bytes::len", "bytes::bytes_mut::BytesMut::len",
       "core::slice::<impl [T]>::len", "core::str::<impl str>::len", "alloc::collections::vec_deque::VecDeque::len")
def m_len(it, S, t, callee, args):
    return it.len_of_ref(S, args[0], it.op_type(t["args"][0]))


@model("alloc::vec::Vec::is_empty", "alloc::string::String::is_empty", "bytes::bytes::Bytes::is_empty", "bytes::bytes_mut::BytesMut::is_empty",
       "core::slice::<impl [T]>::is_empty", "core::str::<impl str>::is_empty")
def m_is_empty(it, S, t, callee, args):
    ln = it.len_of_ref(S, args[0], it.op_type(t["args"][0]))
    r = S.eval_cmp("Eq", ln, U(0))
    if r is not None:
        return K("bool", 1 if r else 0)
    return ("cmp", "Eq", ln, U(0))


def fresh_container(it, t, callee, lensv):
    R = ("call", it.site(), callee.get("path"))
    set_ty(R, tykey(Place(t["dest"]).ty))
    return it.with_len(R, lensv)


@model("alloc::vec::Vec::new", "bytes::bytes_mut::BytesMut::new", "bytes::bytes::Bytes::new", "alloc::string::String::new",
       "alloc::vec::Vec::with_capacity", "bytes::bytes_mut::BytesMut::with_capacity", "alloc::string::String::with_capacity")
def m_new_container(it, S, t, callee, args):
    R = fresh_container(it, t, callee, U(0))
    if "Vec" in norm_name(callee.get("pretty")):
        return ("upd", R[1], R[2] + (((("items",),), ("model", "seq", ())),))
    return R


@model("alloc::vec::from_elem")
def m_from_elem(it, S, t, callee, args):
    # vec![elem; n] has exactly n elements (std docs)
    return fresh_container(it, t, callee, args[1])


@model("alloc::slice::<impl [T]>::to_vec", "<alloc::vec::Vec<T> as core::convert::From<&[T]>>::from")
def m_to_vec(it, S, t, callee, args):
    ln = it.len_of_ref(S, args[0], it.op_type(t["args"][0]))
    R = ("model", "to_vec", it.deref_value(S, args[0], 1, it.op_type(t["args"][0])), ("site", it.site()))
    set_ty(R, tykey(Place(t["dest"]).ty))
    return it.with_len(R, ln)


@model("<bytes::bytes::Bytes as core::convert::From<alloc::vec::Vec<u8>>>::from", "bytes::bytes_mut::BytesMut::freeze")
def m_bytes_from(it, S, t, callee, args):
    ln = it.len_of_value(S, args[0], it.op_type(t["args"][0]))
    R = ("model", "into_bytes", args[0])
    set_ty(R, tykey(Place(t["dest"]).ty))
    return it.with_len(R, ln)


@model("<hmac::Hmac<D> as crypto_mac::NewMac>::new_varkey")
def m_hmac_new_varkey(it, S, t, callee, args):
    # "HMAC accepts keys of every length": the implementation of NewMac::new_varkey for Hmac<D> never returns InvalidKeyLength
    # (hmac crate documentation and source: shorter keys are padded, longer ones hashed)
    inner = set_ty(("fresh", it.site("hmac")), "hmac::Hmac")
    return ("agg", "core::result::Result", 0, (inner,))


@model("bytes::bytes::Bytes::copy_from_slice")
def m_bytes_copy_from_slice(it, S, t, callee, args):
    # a Bytes holding a copy of the slice (bytes docs): same content, same length
    ln = it.len_of_ref(S, args[0], it.op_type(t["args"][0]))
    inner = ("model", "to_vec", it.deref_value(S, args[0], 1, it.op_type(t["args"][0])), ("site", it.site()))
    R = ("model", "into_bytes", inner)
    set_ty(R, tykey(Place(t["dest"]).ty))
    return it.with_len(R, ln)


def set_len(it, S, loc, newlen):
    S.write((loc[0], loc[1] + (("len",),)), newlen)


def get_len(it, S, loc):
    lv = S.read((loc[0], loc[1] + (("len",),)))
    set_ty(lv, "usize")
    return lv


def plus(a, b):
    ca, cb = const_val(a), const_val(b)
    if ca is not None and cb is not None:
        return U(ca + cb)
    return ("bin", "Add", "usize", a, b)


def minus(a, b):
    ca, cb = const_val(a), const_val(b)
    if ca is not None and cb is not None and ca >= cb:
        return U(ca - cb)
    return ("bin", "Sub", "usize", a, b)


@model("alloc::vec::Vec::push")
def m_push(it, S, t, callee, args):
    loc = it.target(args[0])
    items = items_of(S, loc)
    if items is None:
        items = value_items(S.read(loc))
    set_len(it, S, loc, plus(get_len(it, S, loc), U(1)))
    set_items(S, loc, None if items is None else items + (args[1],))
    return K("()", "zst")


@model("alloc::vec::Vec::remove")
def m_remove(it, S, t, callee, args):
    # Vec::remove panics if index is out of bounds (std docs)
    loc = it.target(args[0])
    ln = get_len(it, S, loc)
    ix = args[1]
    proved = S.prove_lt(ix, ln)
    it.oblige("precond:Vec::remove", "Vec::remove|idx=%s|len=%s" % (stable(ix), stable(ln)), proved, t["span"],
              "index %s ; len %s" % (it.describe(S, ix), it.describe(S, ln)), callee="alloc::vec::Vec::remove")
    S.add_le(ix, ln, -1)
    set_len(it, S, loc, minus(ln, U(1)))
    if const_val(ix) == 0:
        v = take_front(it, S, loc, tykey(Place(t["dest"]).ty))
        if v is not None:
            return v
    else:
        front_unknown(S, loc)
    return None_result(it, t, callee)


def items_of(S, loc):
    """the vector at loc as a tuple of items in order - element values and ("splice", value) for a whole sequence spliced in -
    or None when its content is not known item by item"""
    v = S.read((loc[0], loc[1] + (("items",),)))
    if isinstance(v, tuple) and v[0] == "model" and v[1] == "seq":
        return v[2]
    return None


def set_items(S, loc, items):
    if items is None:
        S.mem.pop((loc[0], loc[1] + (("items",),)), None)
        S.write((loc[0], loc[1] + (("items",),)), ("model", "seq-unknown"))
    else:
        S.write((loc[0], loc[1] + (("items",),)), ("model", "seq", tuple(items)))


def value_items(v):
    """items of a vector value (as read from memory, sub-entries folded in)"""
    if isinstance(v, tuple) and v[0] == "upd":
        for p, sv in v[2]:
            if p == (("items",),) and isinstance(sv, tuple) and sv[0] == "model" and sv[1] == "seq":
                return sv[2]
        return value_items(v[1])
    if isinstance(v, tuple) and v[0] == "model" and v[1] == "vec!":
        return tuple(v[2][3])
    if isinstance(v, tuple) and v[0] == "model" and v[1] == "to_vec":
        return (("splice", v[2]),)
    return None


def span_of(it, S, loc):
    """(origin location, start, length): which part of which original byte sequence the vector at loc holds now"""
    v = S.read((loc[0], loc[1] + (("span",),)))
    if isinstance(v, tuple) and v[0] == "model" and v[1] == "span" and isinstance(v[2], tuple) and v[2][0] == "ref":
        return v[2][1], v[3], v[4]
    return loc, U(0), get_len(it, S, loc)


def span_value(org, start, ln):
    return ("model", "span", ("ref", org), start, ln)


def set_span(S, loc, org, start, ln):
    S.write((loc[0], loc[1] + (("span",),)), span_value(org, start, ln))


def front_of(S, loc):
    """number of elements already taken from the front of the sequence at loc (relative to its origin), or None if unknown"""
    v = S.read((loc[0], loc[1] + (("front",),)))
    c = const_val(v)
    if c is not None:
        return c if c >= 0 else None
    if isinstance(v, tuple) and v[0] == "ld" and v[2] != "entry":
        return None        # the container was changed by something that is not tracked
    return 0


def origin_of(S, loc):
    """the location whose original elements the sequence at loc still yields (an iterator made from a vector names the vector)"""
    v = S.read((loc[0], loc[1] + (("origin",),)))
    if isinstance(v, tuple) and v[0] == "ref":
        return v[1]
    return loc


def take_front(it, S, loc, ety):
    """the next element from the front: named by its position in the origin sequence"""
    k = front_of(S, loc)
    if k is None:
        return None
    org = origin_of(S, loc)
    S.write((loc[0], loc[1] + (("front",),)), U(k + 1))
    v = ("elem", it.site("front"), k, org)
    set_ty(v, ety)
    return v


def front_unknown(S, loc):
    S.write((loc[0], loc[1] + (("front",),)), K("isize", -1))


def None_result(it, t, callee):
    R = ("call", it.site(), callee.get("path"))
    set_ty(R, tykey(Place(t["dest"]).ty))
    return R


@model("alloc::vec::Vec::insert")
def m_insert(it, S, t, callee, args):
    loc = it.target(args[0])
    ln = get_len(it, S, loc)
    ix = args[1]
    proved = S.prove_le(ix, ln, 0)
    it.oblige("precond:Vec::insert", "Vec::insert|idx=%s|len=%s" % (stable(ix), stable(ln)), proved, t["span"],
              "index %s ; len %s" % (it.describe(S, ix), it.describe(S, ln)), callee="alloc::vec::Vec::insert")
    set_len(it, S, loc, plus(ln, U(1)))
    return K("()", "zst")


@model("alloc::vec::Vec::pop", "alloc::string::String::pop")
def m_pop(it, S, t, callee, args):
    loc = it.target(args[0])
    ln = get_len(it, S, loc)
    new = ("call", it.site("len"), "len-after-pop")
    set_ty(new, "usize")
    S.write((loc[0], loc[1] + (("len",),)), new)
    S.add_le(new, ln, 0)
    return None_result(it, t, callee)


@model("alloc::vec::Vec::clear", "bytes::bytes_mut::BytesMut::clear", "alloc::string::String::clear")
def m_clear(it, S, t, callee, args):
    loc = it.target(args[0])
    org, st, ln = span_of(it, S, loc)
    set_len(it, S, loc, U(0))
    set_span(S, loc, org, plus(st, ln), U(0))
    return K("()", "zst")


@model("alloc::vec::Vec::truncate", "bytes::bytes_mut::BytesMut::truncate")
def m_truncate(it, S, t, callee, args):
    loc = it.target(args[0])
    ln = get_len(it, S, loc)
    set_len(it, S, loc, ("min", "usize", ln, args[1]))
    return K("()", "zst")


@model("alloc::vec::Vec::append")
def m_append(it, S, t, callee, args):
    a, b = it.target(args[0]), it.target(args[1])
    la, lb = get_len(it, S, a), get_len(it, S, b)
    items = items_of(S, a)
    if items is None:
        items = value_items(S.read(a))
    src = S.read(b)
    set_len(it, S, a, plus(la, lb))
    set_len(it, S, b, U(0))
    set_items(S, a, None if items is None else items + (("splice", src),))
    set_items(S, b, ())
    return K("()", "zst")


@model("alloc::vec::Vec::extend_from_slice", "bytes::bytes_mut::BytesMut::extend_from_slice", "alloc::string::String::push_str")
def m_extend_from_slice(it, S, t, callee, args):
    a = it.target(args[0])
    la = get_len(it, S, a)
    lb = it.len_of_ref(S, args[1], it.op_type(t["args"][1]))
    items = items_of(S, a)
    if items is None:
        items = value_items(S.read(a))
    src = args[1] if is_const(args[1]) else it.deref_value(S, args[1], 1, it.op_type(t["args"][1]))
    set_len(it, S, a, plus(la, lb))
    set_items(S, a, None if items is None else items + (("splice", src),))
    return K("()", "zst")


@model("alloc::slice::<impl [T]>::concat")
def m_concat(it, S, t, callee, args):
    # [a, b, ..].concat(): the elements' contents one after the other (std docs)
    outer = args[0] if is_const(args[0]) else it.deref_value(S, args[0], 1, it.op_type(t["args"][0]))
    while isinstance(outer, tuple) and outer[0] == "upd":
        outer = outer[1]
    if isinstance(outer, tuple) and outer[0] == "model" and outer[1] == "view" and const_val(outer[3]) == 0:
        outer = outer[2]
        while isinstance(outer, tuple) and outer[0] == "upd":
            outer = outer[1]
    if not (isinstance(outer, tuple) and outer[0] == "agg" and outer[1] == "array"):
        return None
    items, total = [], U(0)
    for e in outer[3]:
        if is_const(e):
            v, ln = e, it.len_of_ref(S, e, {"k": "ref", "to": {"k": "slice"}})
        elif isinstance(e, tuple) and e[0] == "ref":
            v = it.deref_value(S, e, 1)
            ln = it.len_of_ref(S, e, {"k": "ref", "to": {"k": "slice"}})
        else:
            return None
        items.append(("splice", v))
        total = plus(total, ln)
    R = fresh_container(it, t, callee, total)
    return ("upd", R[1], R[2] + (((("items",),), ("model", "seq", tuple(items))),))


@model("<alloc::vec::Vec<T, A> as core::iter::traits::collect::Extend<&'a T>>::extend",
       "<alloc::vec::Vec<T, A> as core::iter::traits::collect::Extend<T>>::extend")
def m_extend(it, S, t, callee, args):
    a = it.target(args[0])
    la = get_len(it, S, a)
    items = items_of(S, a)
    if items is None:
        items = value_items(S.read(a))
    src = args[1]
    it.havoc_args(S, t, args, skip=(0,))
    new = ("call", it.site("len"), "len-after-extend")
    set_ty(new, "usize")
    S.write((a[0], a[1] + (("len",),)), new)
    S.add_le(la, new, 0)
    # everything the source yields, in order, after what was there
    set_items(S, a, None if items is None else items + (("splice", src),))
    return K("()", "zst")


def range_bounds(it, S, rv, ln):
    """(start, end) of a range argument value against a container of length ln; None if not a range"""
    if not (isinstance(rv, tuple) and rv[0] == "agg" and isinstance(rv[1], str)):
        return None
    adt = rv[1]
    f = rv[3]
    if adt == "core::ops::range::Range":
        return (f[0], f[1])
    if adt == "core::ops::range::RangeTo":
        return (U(0), f[0])
    if adt == "core::ops::range::RangeFrom":
        return (f[0], ln)
    if adt == "core::ops::range::RangeFull":
        return (U(0), ln)
    if adt == "core::ops::range::RangeInclusive":
        return None
    if adt == "core::ops::range::RangeToInclusive":
        return (U(0), plus(f[0], U(1)))
    return None


def check_range(it, S, t, what, rng, ln, callee):
    start, end = rng
    p1 = S.prove_le(start, end, 0)
    p2 = S.prove_le(end, ln, 0)
    it.oblige("precond:" + what, "%s|start=%s|len=%s" % (what, stable(start), stable(ln)), p1 and p2, t["span"],
              "range %s .. %s ; len %s ; start<=end %s ; end<=len %s" % (it.describe(S, start), it.describe(S, end), it.describe(S, ln), p1, p2), callee=callee)
    S.add_le(start, end, 0)
    S.add_le(end, ln, 0)


@model("alloc::vec::Vec::drain")
def m_drain(it, S, t, callee, args):
    # Vec::drain panics if the range is out of bounds; the drained elements are removed even if
    # the iterator is not consumed (std docs)
    loc = it.target(args[0])
    ln = get_len(it, S, loc)
    rng = range_bounds(it, S, args[1], ln)
    if rng is None:
        return None
    check_range(it, S, t, "Vec::drain", rng, ln, "alloc::vec::Vec::drain")
    count = minus(rng[1], rng[0])
    org, st, _ = span_of(it, S, loc)
    before = S.read(loc)
    set_len(it, S, loc, minus(ln, count))
    if const_val(rng[0]) == 0:
        set_span(S, loc, org, plus(st, rng[1]), minus(ln, count))
    else:
        S.mem.pop((loc[0], loc[1] + (("span",),)), None)
    R = ("call", it.site(), callee.get("path"))
    set_ty(R, tykey(Place(t["dest"]).ty))
    return ("upd", R, (((("len",),), count), ((("src",),), before), ((("span",),), span_value(org, plus(st, rng[0]), count))))


def index_common(it, S, t, callee, args, owned=False):
    cont_ty = it.op_type(t["args"][0])
    ln = it.len_of_ref(S, args[0], cont_ty)
    loc = it.target(args[0])
    ix = args[1]
    name = short(norm_name(callee.get("pretty")))
    rng = range_bounds(it, S, ix, ln)
    if rng is not None:
        check_range(it, S, t, "slice-range", rng, ln, "index(range)")
        view = (("V", it.site()), ())
        S.write((view[0], (("len",),)), minus(rng[1], rng[0]))
        S.mem[(view[0], (("of",),))] = ("ref", loc)
        S.mem[(view[0], (("start",),))] = rng[0]
        if owned:
            R = ("model", "slice-of", S.read(loc), rng[0], rng[1])
            return it.with_len(R, minus(rng[1], rng[0]))
        return ("ref", view)
    ity = it.op_type(t["args"][1])
    if ity.get("k") == "uint":
        proved = S.prove_lt(ix, ln)
        it.oblige("precond:index", "index|idx=%s|len=%s" % (stable(ix), stable(ln)), proved, t["span"],
                  "index %s ; len %s" % (it.describe(S, ix), it.describe(S, ln)), callee="index")
        S.add_le(ix, ln, -1)
        ci = const_val(ix)
        return ("ref", (loc[0], loc[1] + ((("ix", ci) if ci is not None else ("ix",)),)))
    return None


@model("<alloc::vec::Vec<T, A> as core::ops::index::Index<I>>::index", "<alloc::vec::Vec<T, A> as core::ops::index::IndexMut<I>>::index_mut",
       "core::slice::index::<impl core::ops::index::Index<I> for [T]>::index", "core::slice::index::<impl core::ops::index::IndexMut<I> for [T]>::index_mut",
       "core::array::<impl core::ops::index::Index<I> for [T; N]>::index", "core::array::<impl core::ops::index::IndexMut<I> for [T; N]>::index_mut")
def m_index(it, S, t, callee, args):
    return index_common(it, S, t, callee, args)


@model("core::slice::<impl [T]>::first", "core::slice::<impl [T]>::first_mut", "core::slice::<impl [T]>::get", "core::slice::<impl [T]>::get_mut",
       "alloc::vec::Vec::first", "alloc::vec::Vec::get")
def m_slice_get(it, S, t, callee, args):
    # first() / get(i) / get(range): Some(reference into the slice) iff the index / range is in bounds, else None - never panics (std docs)
    cont_ty = it.op_type(t["args"][0])
    ln = it.len_of_ref(S, args[0], cont_ty)
    loc = it.target(args[0])
    name = norm_name(callee.get("pretty"))
    R = ("call", it.site(), callee.get("path"))
    set_ty(R, tykey(Place(t["dest"]).ty))
    d = ("discr", R)
    if name.endswith("::first") or name.endswith("::first_mut"):
        ix = U(0)
        rng = None
    else:
        ix = args[1]
        rng = range_bounds(it, S, ix, ln)
        ity = it.op_type(t["args"][1])
        if rng is None and ity.get("k") != "uint":
            it.havoc_args(S, t, args)
            return R
    if rng is not None:
        # Some iff start <= end <= len
        view = (("V", it.site()), ())
        S.write((view[0], (("len",),)), minus(rng[1], rng[0]))
        S.mem[(view[0], (("of",),))] = ("ref", loc)
        S.mem[(view[0], (("start",),))] = rng[0]
        payload = ("ref", view)
        inb = S.prove_le(rng[1], ln, 0) and S.prove_le(rng[0], rng[1], 0)
        it.cond[(d, 1)] = [("le", rng[1], ln, 0), ("le", rng[0], rng[1], 0)]
        if const_val(rng[0]) == 0:
            it.cond[(d, 0)] = [("le", ln, rng[1], -1)]
        out = S.prove_le(ln, rng[1], -1)
    else:
        if sv_type(ix) is None and not is_const(ix):
            set_ty(ix, "usize")
        ci = const_val(ix)
        payload = ("ref", (loc[0], loc[1] + ((("ix", ci) if ci is not None else ("ix",)),)))
        inb = S.prove_le(ix, ln, -1)
        out = S.prove_le(ln, ix, 0)
        it.cond[(d, 1)] = [("le", ix, ln, -1)]
        it.cond[(d, 0)] = [("le", ln, ix, 0)]
    if inb:
        S.set_dom(d, Dom(1, 1))
    elif out:
        S.set_dom(d, Dom(0, 0))
    return ("upd", R, (((("dc", 1, "Some"), ("f", 0, "0")), payload),))


@model("bytes::bytes::Bytes::slice")
def m_bytes_slice(it, S, t, callee, args):
    return index_common(it, S, t, callee, args, owned=True)


@model("bytes::bytes_mut::BytesMut::split_to", "bytes::bytes::Bytes::split_to")
def m_split_to(it, S, t, callee, args):
    # BytesMut::split_to panics if at > len (bytes docs); afterwards self holds [at, len)
    loc = it.target(args[0])
    ln = get_len(it, S, loc)
    n = args[1]
    proved = S.prove_le(n, ln, 0)
    it.oblige("precond:split_to", "split_to|at=%s|len=%s" % (stable(n), stable(ln)), proved, t["span"],
              "at %s ; len %s" % (it.describe(S, n), it.describe(S, ln)), callee="bytes::BytesMut::split_to")
    S.add_le(n, ln, 0)
    src = S.read(loc)
    set_len(it, S, loc, minus(ln, n))
    R = ("model", "split_to", src, n, ("site", it.site()))
    set_ty(R, tykey(Place(t["dest"]).ty))
    return it.with_len(R, n)


@model("bytes::bytes_mut::BytesMut::split_off", "alloc::vec::Vec::split_off")
def m_split_off(it, S, t, callee, args):
    loc = it.target(args[0])
    ln = get_len(it, S, loc)
    n = args[1]
    proved = S.prove_le(n, ln, 0)
    it.oblige("precond:split_off", "split_off|at=%s|len=%s" % (stable(n), stable(ln)), proved, t["span"],
              "at %s ; len %s" % (it.describe(S, n), it.describe(S, ln)), callee="split_off")
    S.add_le(n, ln, 0)
    org, st, _ = span_of(it, S, loc)
    set_len(it, S, loc, n)
    set_span(S, loc, org, st, n)
    R = ("call", it.site(), callee.get("path"))
    set_ty(R, tykey(Place(t["dest"]).ty))
    return ("upd", R, (((("len",),), minus(ln, n)), ((("span",),), span_value(org, plus(st, n), minus(ln, n)))))


@model("bytes::buf::buf_impl::Buf::advance", "<bytes::bytes_mut::BytesMut as bytes::buf::buf_impl::Buf>::advance")
def m_advance(it, S, t, callee, args):
    loc = it.target(args[0])
    ln = get_len(it, S, loc)
    n = args[1]
    proved = S.prove_le(n, ln, 0)
    it.oblige("precond:advance", "advance|cnt=%s|len=%s" % (stable(n), stable(ln)), proved, t["span"],
              "cnt %s ; len %s" % (it.describe(S, n), it.describe(S, ln)), callee="advance")
    S.add_le(n, ln, 0)
    set_len(it, S, loc, minus(ln, n))
    return K("()", "zst")


@model("bytes::bytes_mut::BytesMut::reserve", "alloc::vec::Vec::reserve")
def m_reserve(it, S, t, callee, args):
    return K("()", "zst")


@model("<bytes::bytes_mut::BytesMut as bytes::buf::buf_mut::BufMut>::remaining_mut")
def m_remaining_mut(it, S, t, callee, args):
    # bytes 1.x (BufMut for BytesMut): usize::MAX - len ; a pure observer of the buffer
    bufv = it.deref_value(S, args[0], 1)
    R = ("model", "remaining_mut", bufv)
    set_ty(R, "usize")
    return R


@model("core::slice::<impl [T]>::split_at", "core::slice::<impl [T]>::split_at_mut")
def m_split_at(it, S, t, callee, args):
    # split_at panics if mid > len (std docs)
    ln = it.len_of_ref(S, args[0], it.op_type(t["args"][0]))
    mid = args[1]
    proved = S.prove_le(mid, ln, 0)
    it.oblige("precond:split_at", "split_at|mid=%s|len=%s" % (stable(mid), stable(ln)), proved, t["span"],
              "mid %s ; len %s" % (it.describe(S, mid), it.describe(S, ln)), callee="split_at")
    S.add_le(mid, ln, 0)
    v1 = (("V", it.site("a")), ())
    v2 = (("V", it.site("b")), ())
    S.write((v1[0], (("len",),)), mid)
    S.write((v2[0], (("len",),)), minus(ln, mid))
    return ("agg", "tuple", 0, (("ref", v1), ("ref", v2)))


@model("core::slice::<impl [T]>::copy_from_slice")
def m_copy_from_slice(it, S, t, callee, args):
    # copy_from_slice panics if the two slices have different lengths (std docs)
    la = it.len_of_ref(S, args[0], it.op_type(t["args"][0]))
    lb = it.len_of_ref(S, args[1], it.op_type(t["args"][1]))
    proved = S.prove_eq(la, lb)
    it.oblige("precond:copy_from_slice", "copy_from_slice|dst=%s|src=%s" % (stable(la), stable(lb)), proved, t["span"],
              "dst len %s ; src len %s" % (it.describe(S, la), it.describe(S, lb)), callee="copy_from_slice")
    loc = it.target(args[0])
    # what was copied where: the destination's storage remembers (start, length, source) of every region copy
    src = it.deref_value(S, args[1], 2, it.op_type(t["args"][1]))
    under, start = loc, U(0)
    if loc[0][0] == "V" and not loc[1]:
        of = S.mem.get((loc[0], (("of",),)))
        if isinstance(of, tuple) and of[0] == "ref":
            under = of[1]
            start = S.mem.get((loc[0], (("start",),)), U(0))
    old = S.read((under[0], under[1] + (("regions",),)))
    regions = old[2] if isinstance(old, tuple) and old[0] == "model" and old[1] == "regions" else ()
    if under is loc:
        S.havoc(loc, it.site())
        set_len(it, S, loc, la)
    else:
        keep_len = S.mem.get((under[0], under[1] + (("len",),)))
        S.havoc(under, it.site())
        if keep_len is not None:
            S.write((under[0], under[1] + (("len",),)), keep_len)
    S.write((under[0], under[1] + (("regions",),)), ("model", "regions", regions + ((start, la, src),)))
    return K("()", "zst")


# ----------------------------------------------------------------------------- views (Deref & friends)
@model("<alloc::vec::Vec<T, A> as core::ops::deref::Deref>::deref", "<alloc::vec::Vec<T, A> as core::ops::deref::DerefMut>::deref_mut",
       "<alloc::string::String as core::ops::deref::Deref>::deref", "alloc::string::String::as_str", "alloc::string::String::as_bytes",
       "<alloc::string::String as core::convert::AsRef<str>>::as_ref", "<bytes::bytes::Bytes as core::ops::deref::Deref>::deref",
       "<bytes::bytes_mut::BytesMut as core::ops::deref::Deref>::deref", "<bytes::bytes_mut::BytesMut as core::ops::deref::DerefMut>::deref_mut",
       "core::str::<impl str>::as_bytes", "<generic_array::GenericArray<T, N> as core::ops::deref::Deref>::deref",
       "alloc::vec::Vec::as_slice", "alloc::vec::Vec::as_mut_slice", "<alloc::vec::Vec<T, A> as core::convert::AsRef<[T]>>::as_ref",
       "<bytes::bytes::Bytes as core::convert::AsRef<[u8]>>::as_ref", "<bytes::bytes_mut::BytesMut as core::convert::AsRef<[u8]>>::as_ref",
       "<alloc::string::String as core::borrow::Borrow<str>>::borrow")
def m_view(it, S, t, callee, args):
    a = args[0]
    if isinstance(a, tuple) and a[0] == "ref":
        return a
    if is_const(a):
        return a
    return ("ref", it.target(a))


# ----------------------------------------------------------------------------- value copies
@model("<bytes::bytes::Bytes as core::clone::Clone>::clone", "<alloc::string::String as core::clone::Clone>::clone")
def m_clone_value(it, S, t, callee, args):
    v = it.deref_value(S, args[0], 1, it.op_type(t["args"][0]))
    return v


@model("core::clone::Clone::clone")
def m_clone_generic(it, S, t, callee, args):
    # derived Clone of a field-less enum / Copy scalars: the same value
    ty = it.op_type(t["args"][0])
    inner = ty.get("to", ty)
    if inner.get("k") in ("uint", "int", "bool", "char") or (inner.get("k") == "adt" and _is_unit_enum(it, inner.get("adt"))):
        v = it.deref_value(S, args[0], 1, ty)
        if sv_type(v) is None and isinstance(v, tuple) and v[0] not in ("agg", "ref", "upd", "vagg"):
            set_ty(v, tykey(inner))
        return v
    return None


@model("<T as alloc::string::ToString>::to_string", "alloc::str::<impl alloc::borrow::ToOwned for str>::to_owned",
       "<alloc::string::String as core::convert::From<&str>>::from")
def m_to_string(it, S, t, callee, args):
    a = args[0]
    R = ("model", "to_string", a)
    set_ty(R, tykey(Place(t["dest"]).ty))
    return R


@model("alloc::str::<impl str>::to_lowercase")
def m_to_lowercase(it, S, t, callee, args):
    return set_ty(("model", "to_lowercase", it.deref_value(S, args[0], 1) if not is_const(args[0]) else args[0], ("site", it.site())), tykey(Place(t["dest"]).ty))


@model("core::mem::replace")
def m_replace(it, S, t, callee, args):
    loc = it.target(args[0])
    old = S.read(loc)
    if sv_type(old) is None and isinstance(old, tuple) and old[0] == "ld":
        set_ty(old, tykey(Place(t["dest"]).ty))
    S.write(loc, args[1])
    return old


@model("core::mem::take")
def m_take(it, S, t, callee, args):
    # returns the old value and leaves Default::default(): the empty container / None / 0 for the std types used here
    loc = it.target(args[0])
    old = S.read(loc)
    ty = Place(t["dest"]).ty
    s_ = ty.get("s", "")
    S.havoc(loc, it.site())
    if ty.get("k") == "adt" and ty.get("adt") == "core::option::Option":
        S.write(loc, ("agg", "core::option::Option", 0, ()))
    elif s_.split("<")[0] in ("std::vec::Vec", "alloc::vec::Vec", "bytes::BytesMut", "bytes::bytes_mut::BytesMut", "bytes::Bytes", "bytes::bytes::Bytes", "std::string::String", "alloc::string::String"):
        R = ("call", it.site("default"), "default")
        set_ty(R, tykey(ty))
        S.write(loc, ("upd", R, (((("len",),), U(0)),)))
    elif ty.get("k") in ("uint", "int"):
        S.write(loc, K(tykey(ty), 0))
    elif ty.get("k") == "bool":
        S.write(loc, K("bool", 0))
    return old


@model("core::option::Option::take")
def m_option_take(it, S, t, callee, args):
    # Option::take = mem::replace(self, None)
    loc = it.target(args[0])
    old = S.read(loc)
    if sv_type(old) is None and isinstance(old, tuple) and old[0] == "ld":
        set_ty(old, tykey(Place(t["dest"]).ty))
    S.write(loc, ("agg", "core::option::Option", 0, ()))
    return old


@model("core::mem::swap")
def m_swap(it, S, t, callee, args):
    a, b = it.target(args[0]), it.target(args[1])
    va, vb = S.read(a), S.read(b)
    S.write(a, vb)
    S.write(b, va)
    return K("()", "zst")


@model("core::hint::must_use", "core::convert::identity", "<T as core::convert::From<T>>::from", "<T as core::convert::Into<U>>::into")
def m_identity(it, S, t, callee, args):
    if norm_name(callee.get("pretty")).endswith("::into") and "From<T>" not in (callee.get("pretty") or ""):
        return None
    return args[0]


@model("<I as core::iter::traits::collect::IntoIterator>::into_iter")
def m_into_iter_identity(it, S, t, callee, args):
    return args[0]


# ----------------------------------------------------------------------------- min / max / small numerics
@model("core::cmp::min", "core::cmp::max", "core::cmp::Ord::min", "core::cmp::Ord::max")
def m_minmax(it, S, t, callee, args):
    which = "min" if norm_name(callee.get("pretty")).endswith("min") else "max"
    a, b = args
    ty = it.op_type(t["args"][0])
    if ty.get("k") == "ref":
        va, vb = it.deref_value(S, a, 1, ty), it.deref_value(S, b, 1, it.op_type(t["args"][1]))
        inner = tykey(ty["to"])
        if sv_type(va) is None:
            set_ty(va, inner)
        if sv_type(vb) is None:
            set_ty(vb, inner)
        view = (("V", it.site()), ())
        S.write(view, _minmax_value(S, which, inner, va, vb))
        return ("ref", view)
    return _minmax_value(S, which, tykey(ty), a, b)


def _minmax_value(S, which, ty, a, b):
    # when the order of the two values is known the result is one of them (std: max returns the second argument on equality)
    if S.prove_le(a, b, 0):
        return b if which == "max" else a
    if S.prove_le(b, a, -1):
        return a if which == "max" else b
    return (which, ty, a, b)


@model("core::num::<impl u16>::max_value", "core::num::<impl u32>::max_value", "core::num::<impl u8>::max_value",
       "core::num::<impl usize>::max_value", "core::num::<impl u64>::max_value")
def m_max_value(it, S, t, callee, args):
    ty = tykey(Place(t["dest"]).ty)
    return K(ty, ty_range(ty)[1])


def _arith(op):
    def f(it, S, t, callee, args):
        ty = tykey(Place(t["dest"]).ty)
        return ("bin", op, ty, args[0], args[1])
    return f


for _t in ("u8", "u16", "u32", "u64", "usize", "i32", "i64"):
    MODELS["core::num::<impl %s>::wrapping_sub" % _t] = _arith("SubW")
    MODELS["core::num::<impl %s>::wrapping_add" % _t] = _arith("AddW")
    MODELS["core::num::<impl %s>::wrapping_mul" % _t] = _arith("MulW")


def _saturating(op):
    def f(it, S, t, callee, args):
        ty = tykey(Place(t["dest"]).ty)
        r = ty_range(ty)
        inner = ("bin", op + "W", ty, args[0], args[1])
        R = ("model", "saturating_" + op, args[0], args[1])
        set_ty(R, ty)
        if op == "Add":
            S.add_le(args[0], R, 0)
            S.add_le(args[1], R, 0)
        else:
            S.add_le(R, args[0], 0)
            # unsigned a.saturating_sub(b) is 0 exactly when a <= b: tests of the result against zero carry that fact
            a, b = args[0], args[1]
            zero, one = K(ty, 0), K(ty, 1)
            le, gt = [("le", a, b, 0)], [("le", b, a, -1)]
            for node, when_true in ((("cmp", "Eq", R, zero), le), (("cmp", "Ne", R, zero), gt), (("cmp", "Gt", R, zero), gt),
                                    (("cmp", "Le", R, zero), le), (("cmp", "Lt", R, one), le), (("cmp", "Ge", R, one), gt)):
                it.cond[(node, 1)] = when_true
                it.cond[(node, 0)] = gt if when_true is le else le
        return R
    return f


for _t in ("u8", "u16", "u32", "u64", "usize"):
    MODELS["core::num::<impl %s>::saturating_add" % _t] = _saturating("Add")
    MODELS["core::num::<impl %s>::saturating_sub" % _t] = _saturating("Sub")


def _checked(op):
    def f(it, S, t, callee, args):
        # checked_sub returns Some(a - b) iff b <= a ; checked_add Some(a+b) iff no overflow (std docs)
        ty = tykey(it.op_type(t["args"][0]))
        a, b = args
        R = ("call", it.site(), callee.get("path"))
        set_ty(R, tykey(Place(t["dest"]).ty))
        payload = ("bin", op, ty, a, b)
        d = ("discr", R)
        if op == "Sub":
            it.cond[(d, 1)] = [("le", b, a, 0)]
            it.cond[(d, 0)] = [("le", a, b, -1)]
            r = S.eval_cmp("Le", b, a)
            if r is True:
                S.set_dom(d, Dom(1, 1))
            elif r is False:
                S.set_dom(d, Dom(0, 0))
        else:
            S.set_dom(d, Dom(0, 1))
        return ("upd", R, (((("dc", 1, "Some"), ("f", 0, "0")), payload),))
    return f


for _t in ("u8", "u16", "u32", "u64", "usize"):
    MODELS["core::num::<impl %s>::checked_sub" % _t] = _checked("Sub")
    MODELS["core::num::<impl %s>::checked_add" % _t] = _checked("Add")
    MODELS["core::num::<impl %s>::checked_mul" % _t] = _checked("Mul")


@model("<core::num::wrapping::Wrapping<u32> as core::ops::arith::Add>::add", "<core::num::wrapping::Wrapping<u32> as core::ops::arith::Sub>::sub")
def m_wrapping_op(it, S, t, callee, args):
    op = "AddW" if norm_name(callee.get("pretty")).endswith("::add") else "SubW"
    a = project(args[0], (("f", 0, "0"),))
    b = project(args[1], (("f", 0, "0"),))
    return ("agg", "core::num::wrapping::Wrapping", 0, (("bin", op, "u32", a, b),))


@model("<&u32 as core::ops::arith::Sub<&u32>>::sub", "<&usize as core::ops::arith::Sub<&usize>>::sub", "<&u32 as core::ops::arith::Sub<u32>>::sub",
       "<u32 as core::ops::arith::Sub<&u32>>::sub")
def m_ref_sub(it, S, t, callee, args):
    # the forwarding impls of Sub for references perform the primitive subtraction (checked when
    # overflow checks are on); treated as checked
    a, b = it.deref_value(S, args[0], 1, it.op_type(t["args"][0])), it.deref_value(S, args[1], 1, it.op_type(t["args"][1]))
    ty = tykey(Place(t["dest"]).ty)
    for x in (a, b):
        if sv_type(x) is None:
            set_ty(x, ty)
    proved = S.prove_le(b, a, 0)
    it.oblige("precond:ref-sub", "ref-sub|%s|%s" % (stable(a), stable(b)), proved, t["span"],
              "%s - %s" % (it.describe(S, a), it.describe(S, b)), callee="<&T as Sub<&T>>::sub")
    S.add_le(b, a, 0)
    return ("bin", "Sub", ty, a, b)


@model("core::cmp::impls::<impl core::cmp::Ord for u32>::cmp", "core::cmp::impls::<impl core::cmp::Ord for usize>::cmp",
       "core::cmp::impls::<impl core::cmp::Ord for u64>::cmp", "core::cmp::impls::<impl core::cmp::Ord for u8>::cmp")
def m_int_cmp(it, S, t, callee, args):
    # total order on the integers: a pure function of the two values, in this argument order
    a = it.deref_value(S, args[0], 1, it.op_type(t["args"][0]))
    b = it.deref_value(S, args[1], 1, it.op_type(t["args"][1]))
    for x in (a, b):
        if sv_type(x) is None and not is_const(x):
            inner = it.op_type(t["args"][0])
            while inner.get("k") == "ref":
                inner = inner["to"]
            set_ty(x, tykey(inner))
    if S.eval_cmp("Lt", a, b) is True:
        return ORDERING(0)
    if S.eval_cmp("Eq", a, b) is True:
        return ORDERING(1)
    if S.eval_cmp("Lt", b, a) is True:
        return ORDERING(2)
    R = ("model", "cmp", a, b)
    set_ty(R, tykey(Place(t["dest"]).ty))
    return R


def ORDERING(vi):
    return ("agg", "core::cmp::Ordering", vi, ())


@model("core::cmp::Ordering::reverse")
def m_ordering_reverse(it, S, t, callee, args):
    v = args[0]
    if isinstance(v, tuple) and v[0] == "agg" and v[1] == "core::cmp::Ordering":
        return ORDERING(2 - v[2])
    if isinstance(v, tuple) and v[0] == "model" and v[1] == "cmp":
        return ("model", "cmp", v[3], v[2])
    R = ("model", "reverse", v)
    set_ty(R, tykey(Place(t["dest"]).ty))
    return R


_INT_CMP = re.compile(r"^core::cmp::impls::<impl core::cmp::(Ord|PartialOrd) for (u8|u16|u32|u64|usize|i8|i16|i32|i64|isize)>::(cmp|partial_cmp)$")


def _int_cmp_any(it, S, t, callee, args):
    m = _INT_CMP.match(norm_name(callee.get("pretty")))
    r = m_int_cmp(it, S, t, callee, args)
    if m.group(3) == "partial_cmp":
        if isinstance(r, tuple) and r[0] == "agg":
            return ("agg", "core::option::Option", 1, (r,))
        return None
    return r


PREFIX_MODELS.append((lambda name, c: _INT_CMP.match(name) is not None, _int_cmp_any))


_INT_PARTIAL_ORD = re.compile(r"^(?:core::cmp::impls::<impl core::cmp::PartialOrd(?:<&B>)? for (?:&A|u8|u16|u32|u64|usize|i8|i16|i32|i64|isize)>|core::cmp::PartialOrd)::(lt|le|gt|ge)$")


def _int_partial_ord(it, S, t, callee, args):
    # comparison operators of the primitive integers (through any number of references)
    op = {"lt": "Lt", "le": "Le", "gt": "Gt", "ge": "Ge"}[_INT_PARTIAL_ORD.match(norm_name(callee.get("pretty"))).group(1)]
    ty = it.op_type(t["args"][0])
    inner = ty
    while inner.get("k") == "ref":
        inner = inner["to"]
    if inner.get("k") not in ("uint", "int"):
        return None
    a = it.deref_value(S, args[0], 3, ty)
    b = it.deref_value(S, args[1], 3, it.op_type(t["args"][1]))
    for x in (a, b):
        if sv_type(x) is None and not is_const(x):
            set_ty(x, tykey(inner))
    r = S.eval_cmp(op, a, b)
    if r is not None:
        return K("bool", 1 if r else 0)
    return ("cmp", op, a, b)


PREFIX_MODELS.append((lambda name, c: _INT_PARTIAL_ORD.match(name) is not None, _int_partial_ord))


def _overflowing(op):
    def f(it, S, t, callee, args):
        # (wrapped result, did it overflow) - std documentation of overflowing_add / overflowing_sub
        ty = tykey(it.op_type(t["args"][0]))
        w = ("bin", op + "W", ty, args[0], args[1])
        flag = ("ovf", op, ty, args[0], args[1])
        return ("agg", "tuple", 0, (w, flag))
    return f


for _t in ("u8", "u16", "u32", "u64", "usize"):
    MODELS["core::num::<impl %s>::overflowing_add" % _t] = _overflowing("Add")
    MODELS["core::num::<impl %s>::overflowing_sub" % _t] = _overflowing("Sub")


# ----------------------------------------------------------------------------- Option / Result / Try
@model("<core::result::Result<T, E> as core::ops::try_trait::Try>::branch")
def m_try_result(it, S, t, callee, args):
    return ("try", args[0], "R")


@model("<core::option::Option<T> as core::ops::try_trait::Try>::branch")
def m_try_option(it, S, t, callee, args):
    return ("try", args[0], "O")


def _from_residual(it, S, t, callee, args):
    R = ("call", it.site(), callee.get("path"))
    set_ty(R, tykey(Place(t["dest"]).ty))
    is_result = "Result" in (callee.get("pretty") or "")
    S.set_dom(("discr", R), Dom(1, 1) if is_result else Dom(0, 0))
    return R


PREFIX_MODELS.append((lambda name, c: name.endswith("::from_residual"), _from_residual))


_FROM_BYTES = re.compile(r"^core::num::<impl (u16|u32|u64|usize|i16|i32|i64)>::from_(be|le)_bytes$")


def _from_bytes(it, S, t, callee, args):
    # the integer whose bytes are the array's elements in the given order; leading (be) / trailing (le) zero constants narrow it
    from .interp import assemble_bytes
    m = _FROM_BYTES.match(norm_name(callee.get("pretty")))
    ty, order = m.group(1), m.group(2)
    v = args[0]
    while isinstance(v, tuple) and v[0] == "upd":
        v = v[1]
    if not (isinstance(v, tuple) and v[0] == "agg" and v[1] == "array"):
        return None
    elems = list(v[3])
    if order == "le":
        elems.reverse()
    while elems and const_val(elems[0]) == 0:
        elems.pop(0)
    if all(const_val(e) is not None for e in elems):
        val = 0
        for e in elems:
            val = (val << 8) | (const_val(e) & 0xFF)
        return K(ty, val)
    n = len(elems)
    expr = None
    for i, e in enumerate(elems):
        term = ("bin", "Shl", ty, ("cast", ty, e), K("u32", 8 * (n - 1 - i)))
        expr = term if expr is None else ("bin", "BitOr", ty, expr, term)
    asm = assemble_bytes(expr) if expr is not None else None
    if asm is None:
        # not the bytes 0..n-1 of one sequence (e.g. from_le_bytes([b[1], b[2]])): the integer is still this expression over them
        if expr is not None and all(isinstance(e, tuple) for e in elems):
            set_ty(expr, ty)
            S.set_dom(expr, Dom(0, 2 ** (8 * n) - 1))
            return expr
        return None
    # the array lists the bytes most significant first after the reversal above, whatever the call's byte order
    R = ("model", "uint-from-bytes", asm[0] if order == "be" else {"be": "le", "le": "be"}[asm[0]], asm[1], ("ref", asm[2]), it.site())
    set_ty(R, ty)
    S.set_dom(R, Dom(0, 2 ** (8 * asm[1]) - 1))
    return R


PREFIX_MODELS.append((lambda name, c: _FROM_BYTES.match(name) is not None, _from_bytes))


_TO_BYTES = re.compile(r"^core::num::<impl (u8|u16|u32|u64|u128|usize|i8|i16|i32|i64)>::to_(be|le|ne)_bytes$")


def _to_bytes(it, S, t, callee, args):
    # the N bytes of the integer in the given byte order (std documentation)
    m = _TO_BYTES.match(norm_name(callee.get("pretty")))
    ty, order = m.group(1), m.group(2)
    n = {"u8": 1, "i8": 1, "u16": 2, "i16": 2, "u32": 4, "i32": 4, "u64": 8, "i64": 8, "usize": 8, "u128": 16}[ty]
    c = const_val(args[0])
    if isinstance(c, int) and not isinstance(c, bool) and order in ("be", "le"):
        bs = [(c >> (8 * i)) & 0xFF for i in range(n)]
        if order == "be":
            bs.reverse()
        return ("agg", "array", 0, tuple(K("u8", b) for b in bs))
    R = ("model", "int-bytes", order, ty, args[0])
    set_ty(R, tykey(Place(t["dest"]).ty))
    return ("upd", R, (((("len",),), U(n)),))


PREFIX_MODELS.append((lambda name, c: _TO_BYTES.match(name) is not None, _to_bytes))


@model("core::f64::<impl f64>::to_be_bytes", "core::f64::<impl f64>::to_le_bytes", "core::f32::<impl f32>::to_be_bytes", "core::f32::<impl f32>::to_le_bytes")
def m_float_to_bytes(it, S, t, callee, args):
    # f.to_be_bytes() == f.to_bits().to_be_bytes() (std documentation)
    name = norm_name(callee.get("pretty"))
    order = "be" if "to_be_bytes" in name else "le"
    ity, n = ("u64", 8) if "f64" in name else ("u32", 4)
    bits = ("model", "float-bits", args[0])
    set_ty(bits, ity)
    R = ("model", "int-bytes", order, ity, bits)
    set_ty(R, tykey(Place(t["dest"]).ty))
    return ("upd", R, (((("len",),), U(n)),))


@model("core::f64::<impl f64>::to_bits", "core::f32::<impl f32>::to_bits")
def m_to_bits(it, S, t, callee, args):
    R = ("model", "float-bits", args[0])
    set_ty(R, tykey(Place(t["dest"]).ty))
    return R


_TRY_FROM = re.compile(r"^core::convert::num::(?:ptr_try_from_impls::)?<impl core::convert::TryFrom<(u8|u16|u32|u64|usize|i8|i16|i32|i64|isize)> for (u8|u16|u32|u64|usize|i8|i16|i32|i64|isize)>::try_from$")


def _try_from(it, S, t, callee, args):
    # Ok(the same number) iff it fits the target type, else Err (std documentation): a lossless conversion by construction
    m = _TRY_FROM.match(norm_name(callee.get("pretty")))
    src, to = m.group(1), m.group(2)
    v = args[0]
    if sv_type(v) is None and not is_const(v):
        set_ty(v, src)
    r = ty_range(to)
    R = ("call", it.site(), callee.get("path"))
    set_ty(R, tykey(Place(t["dest"]).ty))
    d = ("discr", R)
    lo, hi = K(src, r[0]), K(src, r[1])
    it.cond[(d, 0)] = [("le", v, hi, 0), ("le", lo, v, 0)]
    dv = S.dom(v)
    if dv.lo >= r[0] and dv.hi <= r[1]:
        S.set_dom(d, Dom(0, 0))
    elif dv.lo > r[1] or dv.hi < r[0]:
        S.set_dom(d, Dom(1, 1))
    elif dv.lo >= r[0]:
        it.cond[(d, 1)] = [("le", hi, v, -1)]
    payload = ("cast", to, v)
    set_ty(payload, to)
    return ("upd", R, (((("dc", 0, "Ok"), ("f", 0, "0")), payload),))


PREFIX_MODELS.append((lambda name, c: _TRY_FROM.match(name) is not None, _try_from))


_NUM_FROM = re.compile(r"^core::convert::num::<impl core::convert::From<(u8|u16|u32|u64|i8|i16|i32|i64|bool|usize|isize)> for (u8|u16|u32|u64|u128|i8|i16|i32|i64|i128|usize|isize|f32|f64)>::from$")


def _num_from(it, S, t, callee, args):
    # lossless numeric conversions: the same value in the wider type (std: From for primitive numbers is `as` of a lossless cast)
    m = _NUM_FROM.match(norm_name(callee.get("pretty")))
    to = m.group(2)
    a = args[0]
    if to in ("f32", "f64"):
        return set_ty(("fcast", to, a), to)
    ca = const_val(a)
    if ca is not None:
        return K(to, ca)
    return set_ty(("cast", to, a), to)


PREFIX_MODELS.append((lambda name, c: _NUM_FROM.match(name) is not None, _num_from))


@model("core::option::Option::is_some", "core::option::Option::is_none", "core::result::Result::is_ok", "core::result::Result::is_err")
def m_is_variant(it, S, t, callee, args):
    name = norm_name(callee.get("pretty"))
    ty = it.op_type(t["args"][0])
    v = it.deref_value(S, args[0], 1, ty)
    if ty.get("k") == "ref" and sv_type(v) is None:
        set_ty(v, tykey(ty["to"]))
    d = it.discr_of(S, v, ty.get("to", ty))
    want = {"is_some": 1, "is_none": 0, "is_ok": 0, "is_err": 1}[name.split("::")[-1]]
    c = const_val(d)
    if c is not None:
        return K("bool", 1 if c == want else 0)
    r = S.eval_cmp("Eq", d, K("isize", want))
    if r is not None:
        return K("bool", 1 if r else 0)
    return ("cmp", "Eq", d, K("isize", want))


@model("core::option::Option::unwrap", "core::option::Option::expect", "core::result::Result::unwrap", "core::result::Result::expect")
def m_unwrap(it, S, t, callee, args):
    name = norm_name(callee.get("pretty"))
    is_opt = "Option" in name
    v = args[0]
    ty = it.op_type(t["args"][0])
    d = it.discr_of(S, v, ty)
    want = 1 if is_opt else 0
    dd = S.dom(d)
    proved = dd.lo == dd.hi == want
    it.oblige("unwrap", "unwrap|%s" % stable(v), proved, t["span"], "%s must be %s" % (it.describe(S, d), "Some" if is_opt else "Ok"), callee=name)
    S.assume(d, want)
    vname = "Some" if is_opt else "Ok"
    return project(v, (("dc", want, vname), ("f", 0, "0")))


@model("core::option::Option::unwrap_or")
def m_unwrap_or(it, S, t, callee, args):
    v = args[0]
    d = it.discr_of(S, v, it.op_type(t["args"][0]))
    dd = S.dom(d)
    if dd.lo == dd.hi == 1:
        return project(v, (("dc", 1, "Some"), ("f", 0, "0")))
    if dd.lo == dd.hi == 0:
        return args[1]
    return None


@model("core::option::Option::as_ref", "core::option::Option::as_mut")
def m_as_ref(it, S, t, callee, args):
    # Option<&T> with the same discriminant as the pointee option
    v = it.deref_value(S, args[0], 1, it.op_type(t["args"][0]))
    loc = it.target(args[0])
    R = ("model", "as_ref", v)
    set_ty(R, tykey(Place(t["dest"]).ty))
    d = ("discr", v)
    S.add_le(("discr", R), d, 0)
    S.add_le(d, ("discr", R), 0)
    return ("upd", R, (((("dc", 1, "Some"), ("f", 0, "0")), ("ref", (loc[0], loc[1] + (("dc", 1, "Some"), ("f", 0, "0"))))),))


def _apply_fn_item(it, S, t, fn_op, x):
    """result of calling the function item fn_op (a constant operand) on x, for the few functions that are pure value maps"""
    k = fn_op.get("k") if isinstance(fn_op, dict) else None
    name = ""
    if k:
        name = (k.get("t") or {}).get("s", "")
    m = re.search(r"\{(.*)\}$", name)
    fname = m.group(1) if m else ""
    if fname.endswith("Ordering::reverse"):
        if isinstance(x, tuple) and x[0] == "agg" and x[1] == "core::cmp::Ordering":
            return ORDERING(2 - x[2])
        return ("model", "reverse", x)
    if re.search(r"[Oo]ption::Option(::<.*>)?::Some$", fname) or fname.endswith("Option::Some"):
        return ("agg", "core::option::Option", 1, (x,))
    return None


@model("core::option::Option::map")
def m_option_map(it, S, t, callee, args):
    # None -> None, Some(x) -> Some(f(x)); decided here only for function items that are pure value maps
    v = args[0]
    while isinstance(v, tuple) and v[0] == "upd" and isinstance(v[1], tuple) and v[1][0] == "agg":
        v = v[1]
    if isinstance(v, tuple) and v[0] == "agg" and v[1] == "core::option::Option":
        if v[2] == 0:
            return ("agg", "core::option::Option", 0, ())
        y = _apply_fn_item(it, S, t, t["args"][1], v[3][0])
        if y is not None:
            return ("agg", "core::option::Option", 1, (y,))
    return None


@model("core::result::Result::map")
def m_result_map(it, S, t, callee, args):
    # Ok(x) -> Ok(f(x)), Err(e) -> Err(e); decided here only for function items that are pure value maps (Some, From::from ..)
    if len(args) < 2 or not (isinstance(t["args"][1], dict) and "k" in t["args"][1]):
        return None
    v = args[0]
    w = v
    while isinstance(w, tuple) and w[0] == "upd" and isinstance(w[1], tuple) and w[1][0] == "agg":
        w = w[1]
    if isinstance(w, tuple) and w[0] == "agg" and w[1] == "core::result::Result" and w[2] is not None:
        if w[2] == 1:
            return v
        y = _apply_fn_item(it, S, t, t["args"][1], w[3][0])
        if y is not None:
            return ("agg", "core::result::Result", 0, (y,))
        return None
    okp = project(v, (("dc", 0, "Ok"), ("f", 0, "0")))
    y = _apply_fn_item(it, S, t, t["args"][1], okp)
    if y is None:
        return None
    R = ("call", it.site(), callee.get("path"))
    set_ty(R, tykey(Place(t["dest"]).ty))
    dv, dr = it.discr_of(S, v, it.op_type(t["args"][0])), ("discr", R)
    for val in (0, 1):
        it.cond[(dr, val)] = [("dom", dv, Dom(val, val))]
    d = S.dom(dv)
    S.set_dom(dr, Dom(max(d.lo, 0), min(d.hi, 1)))
    return ("upd", R, (((("dc", 0, "Ok"), ("f", 0, "0")), y), ((("dc", 1, "Err"), ("f", 0, "0")), project(v, (("dc", 1, "Err"), ("f", 0, "0"))))))


@model("core::ops::range::RangeInclusive::new")
def m_range_inclusive_new(it, S, t, callee, args):
    return ("agg", "core::ops::range::RangeInclusive", 0, (args[0], args[1], K("bool", 0)))


@model("core::ops::range::RangeInclusive::contains", "core::ops::range::Range::contains")
def m_range_contains(it, S, t, callee, args):
    # (a..=b).contains(&x)  <=>  a <= x <= b ;  (a..b).contains(&x)  <=>  a <= x < b   (std documentation; integer ranges only)
    incl = "RangeInclusive" in norm_name(callee.get("pretty"))
    rng = it.deref_value(S, args[0], 2, it.op_type(t["args"][0]))
    x = it.deref_value(S, args[1], 2, it.op_type(t["args"][1]))
    w = rng
    while isinstance(w, tuple) and w[0] == "upd":
        w = w[1]
    if not (isinstance(w, tuple) and w[0] == "agg" and isinstance(w[1], str) and w[1].startswith("core::ops::range::Range") and len(w[3]) >= 2):
        return None
    ity = it.op_type(t["args"][1])
    while ity.get("k") == "ref":
        ity = ity["to"]
    if ity.get("k") not in ("uint", "int"):
        return None
    a, b = w[3][0], w[3][1]
    for v in (a, b, x):
        if sv_type(v) is None and not is_const(v):
            set_ty(v, tykey(ity))
    k = 0 if incl else -1
    if S.prove_le(a, x, 0) and S.prove_le(x, b, k):
        return K("bool", 1)
    if S.prove_le(x, a, -1) or S.prove_le(b, x, k - 1):
        return K("bool", 0)
    R = ("model", "range-contains", w[1], a, b, x)
    set_ty(R, "bool")
    it.cond[(R, 1)] = [("le", a, x, 0), ("le", x, b, k)]
    neg = []
    tr = ty_range(tykey(ity))
    # one-sided when the other bound is the end of the type (or already known to hold)
    if S.prove_le(a, x, 0):
        neg = [("le", b, x, k - 1)]
    elif S.prove_le(x, b, k):
        neg = [("le", x, a, -1)]
    if neg:
        it.cond[(R, 0)] = neg
    S.set_dom(R, Dom(0, 1))
    return R


@model("core::result::Result::map_err")
def m_result_map_err(it, S, t, callee, args):
    # Ok(x) -> Ok(x), Err(e) -> Err(f(e)): the success value passes through unchanged whatever f is (the closure is analysed as
    # its own body; it only sees the error)
    v = args[0]
    w = v
    while isinstance(w, tuple) and w[0] == "upd" and isinstance(w[1], tuple) and w[1][0] == "agg":
        w = w[1]
    if isinstance(w, tuple) and w[0] == "agg" and w[1] == "core::result::Result" and w[2] == 0:
        return v
    R = ("call", it.site(), callee.get("path"))
    set_ty(R, tykey(Place(t["dest"]).ty))
    dv, dr = it.discr_of(S, v, it.op_type(t["args"][0])), ("discr", R)
    # facts that were conditional on the original's variant hold for the mapped value's variant as well
    for val in (0, 1):
        it.cond[(dr, val)] = [("dom", dv, Dom(val, val))] + list(it.cond.get((dv, val), []))
    d = S.dom(dv)
    S.set_dom(dr, Dom(max(d.lo, 0), min(d.hi, 1)))
    it.havoc_args(S, t, args[1:]) if False else None
    return ("upd", R, (((("dc", 0, "Ok"), ("f", 0, "0")), project(v, (("dc", 0, "Ok"), ("f", 0, "0")))),))


@model("core::option::Option::ok_or", "core::option::Option::ok_or_else")
def m_ok_or(it, S, t, callee, args):
    # Some(v) -> Ok(v), None -> Err(e) (std documentation)
    v = args[0]
    R = ("call", it.site(), callee.get("path"))
    set_ty(R, tykey(Place(t["dest"]).ty))
    dv, dr = ("discr", v), ("discr", R)
    if isinstance(v, tuple) and v[0] == "agg" and v[2] is not None:
        S.set_dom(dr, Dom(0, 0) if v[2] == 1 else Dom(1, 1))
    else:
        if sv_type(v) is None:
            set_ty(v, tykey(it.op_type(t["args"][0])))
        it.cond[(dr, 0)] = [("dom", dv, Dom(1, 1))]
        it.cond[(dr, 1)] = [("dom", dv, Dom(0, 0))]
        d = S.dom(dv)
        if d.lo == d.hi:
            S.set_dom(dr, Dom(1 - d.lo, 1 - d.lo))
    if norm_name(callee.get("pretty")).endswith("ok_or_else"):
        # the error value is whatever the closure builds (analysed as its own body); the success value passes through
        return ("upd", R, (((("dc", 0, "Ok"), ("f", 0, "0")), project(v, (("dc", 1, "Some"), ("f", 0, "0")))),))
    return ("upd", R, (((("dc", 0, "Ok"), ("f", 0, "0")), project(v, (("dc", 1, "Some"), ("f", 0, "0")))),
                       ((("dc", 1, "Err"), ("f", 0, "0")), args[1])))


# ----------------------------------------------------------------------------- equality
def _promoted_local_const(it, v):
    """a load of a local of a promoted body (the referent inside a promoted `&Some(&0)`) is the constant that body assigns to it"""
    if isinstance(v, tuple) and v[0] == "ld" and v[2] == "entry" and v[1][0][0] == "L" and not v[1][1] and len(v[1][0]) > 2:
        pb = it.ctx.prog.bodies.get(v[1][0][2])
        if pb is not None and pb.kind == "promoted":
            hits = []
            for bl in pb.blocks:
                for st in bl["stmts"]:
                    pl = st["place"]
                    if pl.get("l") == v[1][0][1] and not pl.get("p"):
                        hits.append(st["rv"])
            if len(hits) == 1 and hits[0]["k"] == "use" and "k" in hits[0]["a"]:
                c = hits[0]["a"]["k"]
                if "int" in c:
                    return K(tykey(c["t"]), int(c["int"]))
                if "bool" in c:
                    return K("bool", 1 if c["bool"] else 0)
    return v


def m_eq_generic(it, S, t, callee, args):
    name = norm_name(callee.get("pretty"))
    neg = name.endswith("::ne")
    ty = it.op_type(t["args"][0])
    a = it.deref_value(S, args[0], 3, ty)
    b = it.deref_value(S, args[1], 3, it.op_type(t["args"][1]))
    inner = ty
    while inner.get("k") == "ref":
        inner = inner["to"]
    k = inner.get("k")
    opn = "Ne" if neg else "Eq"
    if k == "adt" and _is_unit_enum(it, inner.get("adt")):
        da = it.discr_of(S, a, inner)
        db = it.discr_of(S, b, inner)
        r = S.eval_cmp(opn, da, db)
        if r is not None:
            return K("bool", 1 if r else 0)
        return ("cmp", opn, da, db)
    if k in ("uint", "int", "bool", "char"):
        for x in (a, b):
            if sv_type(x) is None:
                set_ty(x, tykey(inner))
        r = S.eval_cmp(opn, a, b)
        if r is not None:
            return K("bool", 1 if r else 0)
        return ("cmp", opn, a, b)
    if k == "adt" and inner.get("adt") == "core::option::Option":
        # Option<T> equality for a scalar T: both None, or both Some with equal payloads (derived PartialEq)
        g = (inner.get("s") or "")
        m = re.match(r"^(?:std|core)::option::Option<(u8|u16|u32|u64|usize|i8|i16|i32|i64|isize|bool|char)>$", g)
        mref = re.match(r"^(?:std|core)::option::Option<&(?:'\w+ )?(u8|u16|u32|u64|usize|i8|i16|i32|i64|isize|bool|char)>$", g) if not m else None
        if mref:
            # Option<&T>: equal iff both None or both Some with equal referents; what the rules need is the variant: a comparison
            # with a known Some(..) that comes out true proves the other side is Some (e.g. first() == Some(&0) proves len >= 1)
            da, db = it.discr_of(S, a, inner), it.discr_of(S, b, inner)
            ca, cb = const_val(da), const_val(db)
            if ca is None and S.dom(da).lo == S.dom(da).hi:
                ca = S.dom(da).lo
            if cb is None and S.dom(db).lo == S.dom(db).hi:
                cb = S.dom(db).lo
            if ca is not None and cb is not None and ca != cb:
                return K("bool", 1 if neg else 0)
            if ca is not None and cb is not None and ca == 0:
                return K("bool", 0 if neg else 1)
            R = ("model", "option-ref-eq", a, it.deref_value(S, b, 2) if False else b)      # a pure observer: a term over the two values
            set_ty(R, "bool")
            eq_val = 0 if neg else 1
            if (ca is None) != (cb is None):
                known, d_other = (cb, da) if cb is not None else (ca, db)
                if known == 1:
                    facts_ = [("dom", d_other, Dom(1, 1))]
                    # ... and the two referents are equal
                    pa, pb = project(a, (("dc", 1, "Some"), ("f", 0, "0"))), project(b, (("dc", 1, "Some"), ("f", 0, "0")))
                    try:
                        va, vb = it.deref_value(S, pa, 1), it.deref_value(S, pb, 1)
                    except Exception as e_:
                        va = vb = None
                    va, vb = _promoted_local_const(it, va), _promoted_local_const(it, vb)
                    if va is not None and vb is not None:
                        for x in (va, vb):
                            if sv_type(x) is None and not is_const(x):
                                set_ty(x, mref.group(1))
                        facts_ += [("le", va, vb, 0), ("le", vb, va, 0)]
                    it.cond[(R, eq_val)] = facts_
                elif False:
                    it.cond[(R, eq_val)] = [("dom", d_other, Dom(1, 1))]
                else:
                    it.cond[(R, eq_val)] = [("dom", d_other, Dom(0, 0))]
                    it.cond[(R, 1 - eq_val)] = [("dom", d_other, Dom(1, 1))]
            S.set_dom(R, Dom(0, 1))
            return R
        if m:
            da, db = it.discr_of(S, a, inner), it.discr_of(S, b, inner)
            pa, pb = project(a, (("dc", 1, "Some"), ("f", 0, "0"))), project(b, (("dc", 1, "Some"), ("f", 0, "0")))
            for x in (pa, pb):
                if sv_type(x) is None and not is_const(x):
                    set_ty(x, m.group(1))
            ca, cb = const_val(da), const_val(db)
            if ca is None and S.dom(da).lo == S.dom(da).hi:
                ca = S.dom(da).lo
            if cb is None and S.dom(db).lo == S.dom(db).hi:
                cb = S.dom(db).lo
            if ca is not None and cb is not None:
                if ca != cb:
                    return K("bool", 1 if neg else 0)
                if ca == 0:
                    return K("bool", 0 if neg else 1)
                r = S.eval_cmp(opn, pa, pb)
                if r is not None:
                    return K("bool", 1 if r else 0)
                return ("cmp", opn, pa, pb)
            R = ("call", it.site(), "option-eq")
            set_ty(R, "bool")
            known, other, d_other = (cb, a, da) if cb is not None else (ca, b, db)
            eq_val = 0 if neg else 1
            if known == 1:
                it.cond[(R, eq_val)] = [("dom", d_other, Dom(1, 1)), ("le", pa, pb, 0), ("le", pb, pa, 0)]
            elif known == 0:
                it.cond[(R, eq_val)] = [("dom", d_other, Dom(0, 0))]
                it.cond[(R, 1 - eq_val)] = [("dom", d_other, Dom(1, 1))]
            S.set_dom(R, Dom(0, 1))
            return R
    if k in ("array", "slice") or (k == "adt" and inner.get("adt") in ("alloc::vec::Vec", "bytes::bytes::Bytes")):
        # equality of two sequences: a symbolic truth value over the two values compared
        e = ("seqeq", a, b)
        set_ty(e, "bool")
        return ("not", e) if neg else e
    if k == "str" or (k == "adt" and inner.get("adt") == "alloc::string::String"):
        sa = args[0] if not (isinstance(args[0], tuple) and args[0][0] == "ref" and it.op_type(t["args"][0])["to"].get("k") == "ref") else it.deref_value(S, args[0], 1)
        sb = args[1] if not (isinstance(args[1], tuple) and args[1][0] == "ref" and it.op_type(t["args"][1])["to"].get("k") == "ref") else it.deref_value(S, args[1], 1)
        e = ("streq", sa, sb)
        return ("not", e) if neg else e
    return None


for _n in ("core::cmp::PartialEq::ne", "core::cmp::PartialEq::eq", "core::cmp::impls::<impl core::cmp::PartialEq<&B> for &A>::eq",
           "core::cmp::impls::<impl core::cmp::PartialEq<&B> for &A>::ne", "core::str::traits::<impl core::cmp::PartialEq for str>::eq",
           "core::str::traits::<impl core::cmp::PartialEq for str>::ne", "<alloc::string::String as core::cmp::PartialEq<str>>::eq",
           "<alloc::string::String as core::cmp::PartialEq<&str>>::eq", "<alloc::string::String as core::cmp::PartialEq>::eq",
           "<core::option::Option<T> as core::cmp::PartialEq>::eq", "<core::option::Option<T> as core::cmp::PartialEq>::ne",
           "core::array::equality::<impl core::cmp::PartialEq<[U; N]> for [T; N]>::eq", "core::array::equality::<impl core::cmp::PartialEq<[U; N]> for [T; N]>::ne",
           "core::slice::cmp::<impl core::cmp::PartialEq<[U]> for [T]>::eq", "core::slice::cmp::<impl core::cmp::PartialEq<[U]> for [T]>::ne"):
    MODELS[_n] = m_eq_generic


def _derived_local_eq(name, callee):
    return False


# ----------------------------------------------------------------------------- iterators
@model("core::iter::range::<impl core::iter::traits::iterator::Iterator for core::ops::range::Range<A>>::next")
def m_range_next(it, S, t, callee, args):
    # Range::next yields start (then start += 1) while start < end, else None (std docs)
    loc = it.target(args[0])
    start = S.read((loc[0], loc[1] + (("f", 0, "start"),)))
    end = S.read((loc[0], loc[1] + (("f", 1, "end"),)))
    dty = Place(t["dest"]).ty
    R = ("call", it.site(), callee.get("path"))
    set_ty(R, tykey(dty))
    P = project(R, (("dc", 1, "Some"), ("f", 0, "0")))
    ity = None
    gens = callee.get("generics") or []
    if gens and gens[0] in ("usize", "u32", "u64", "u8", "u16", "i32", "i64", "isize"):
        ity = gens[0]
        TYINFO.setdefault(ity, {"s": ity, "k": "uint" if ity[0] == "u" else "int", "bits": {"usize": 64, "isize": 64}.get(ity, int(ity[1:]) if ity[1:].isdigit() else 64)})
        set_ty(P, ity)
        set_ty(start, ity)
        set_ty(end, ity)
    d = ("discr", R)
    it.cond[(d, 1)] = [("le", start, P, 0), ("le", P, end, -1)]
    it.cond[(d, 0)] = [("le", end, start, 0)]
    new_start = ("call", it.site("start"), "range-start-after-next")
    if ity:
        set_ty(new_start, ity)
    S.write((loc[0], loc[1] + (("f", 0, "start"),)), new_start)
    S.add_le(start, new_start, 0)
    it.cond[(d, 1)] = it.cond[(d, 1)] + [("le", new_start, P, 1), ("le", P, new_start, -1)]
    r = S.eval_cmp("Lt", start, end)
    if r is True:
        S.set_dom(d, Dom(1, 1))
    elif r is False:
        S.set_dom(d, Dom(0, 0))
    return R


@model("<alloc::vec::Vec<T, A> as core::iter::traits::collect::IntoIterator>::into_iter")
def m_vec_into_iter(it, S, t, callee, args):
    # the iterator yields exactly len(v) items: the vector's elements from front to back
    ln = it.len_of_value(S, args[0], it.op_type(t["args"][0]))
    R = ("call", it.site(), callee.get("path"))
    set_ty(R, tykey(Place(t["dest"]).ty))
    subs = [((("len",),), ln)]
    pl = op_place(t["args"][0])
    if pl is not None:
        loc = it.resolve(S, pl)
        k = front_of(S, loc)
        org = origin_of(S, loc)
        if org == loc:
            # a vector that was moved here from somewhere else is named by where it came from (the parameter, the field)
            base = args[0]
            while isinstance(base, tuple) and base[0] == "upd":
                base = base[1]
            if isinstance(base, tuple) and base[0] == "ld":
                org = base[1]
        subs.append(((("origin",),), ("ref", org)))
        subs.append(((("front",),), U(k) if k is not None else K("isize", -1)))
    return ("upd", R, tuple(subs))


@model("core::slice::<impl [T]>::iter")
def m_slice_iter(it, S, t, callee, args):
    # yields references to the slice's elements in order, exactly len of them
    v = it.deref_value(S, args[0], 1, it.op_type(t["args"][0]))
    ln = it.len_of_ref(S, args[0], it.op_type(t["args"][0]))
    R = ("model", "slice-iter", v)
    set_ty(R, tykey(Place(t["dest"]).ty))
    return it.with_len(R, ln)


@model("core::iter::traits::iterator::Iterator::map")
def m_iter_map(it, S, t, callee, args):
    # lazy: the same number of items, each passed through the closure when consumed
    src, clo = args[0], args[1]
    if isinstance(clo, tuple) and clo[0] == "agg" and isinstance(clo[1], tuple) and clo[1][0] == "closure":
        R = ("model", "iter-map", src, clo[1][1])
        set_ty(R, tykey(Place(t["dest"]).ty))
        return it.with_len(R, project(src, (("len",),)))
    return None


@model("core::iter::traits::iterator::Iterator::sum")
def m_iter_sum(it, S, t, callee, args):
    # the sum of bytes widened by a pure cast closure: between 0 and 255 * len (overflow of the sum type is an obligation)
    v = args[0]
    while isinstance(v, tuple) and v[0] == "upd":
        v = v[1]
    if isinstance(v, tuple) and v[0] == "model" and v[1] == "iter-map":
        inner = v[2]
        while isinstance(inner, tuple) and inner[0] == "upd":
            inner = inner[1]
        tmpl = it.ctx.ret_expr(v[3]) if v[3] in it.prog.bodies else None
        pure_widen = isinstance(tmpl, tuple) and tmpl[0] == "cast" and isinstance(tmpl[2], tuple) and tmpl[2][0] == "ld" and tmpl[2][1][0][0] == "P"
        if pure_widen and isinstance(inner, tuple) and inner[0] == "model" and inner[1] == "slice-iter":
            ln = project(args[0], (("len",),))
            ty = tykey(Place(t["dest"]).ty)
            R = ("model", "sum-of-bytes", inner[2])
            set_ty(R, ty)
            cl = const_val(ln)
            if cl is None:
                cl = S.dom(ln).hi
            hi = 255 * cl if isinstance(cl, int) and cl < 2 ** 40 else None
            r = ty_range(ty)
            if hi is not None and r is not None:
                it.oblige("overflow:Sum", "sum|%s" % stable(R), hi <= r[1], t["span"], "sum of %s bytes is at most %s" % (cl, hi), callee="Iterator::sum")
                S.set_dom(R, Dom(0, min(hi, r[1])))
            return R
    return None


@model("core::slice::<impl [T]>::chunks")
def m_chunks(it, S, t, callee, args):
    # <[T]>::chunks(n) panics if n == 0; yields ceil(len / n) non-empty sub-slices of at most n items, in order (std docs)
    n = args[1]
    sl = it.deref_value(S, args[0], 1, it.op_type(t["args"][0]))
    ln = it.len_of_value(S, sl, None)
    if sv_type(n) is None:
        set_ty(n, "usize")
    proved = S.prove_le(U(1), n, 0)
    it.oblige("precond:chunks", "chunks|size=%s" % stable(n), proved, t["span"], "chunk size %s" % it.describe(S, n), callee="<[T]>::chunks")
    S.add_le(U(1), n, 0)
    cnt = ("model", "chunk-count", ln, n)
    set_ty(cnt, "usize")
    S.add_le(cnt, ln, 0)          # ceil(len / n) <= len for n >= 1
    if S.prove_le(U(1), ln, 0):
        S.add_le(U(1), cnt, 0)
    elif S.prove_le(ln, U(0), 0):
        S.add_le(cnt, U(0), 0)
    R = ("model", "chunks", sl, n)
    set_ty(R, tykey(Place(t["dest"]).ty))
    return it.with_len(R, cnt)


@model("core::iter::traits::iterator::Iterator::collect")
def m_collect(it, S, t, callee, args):
    # collects exactly the items the iterator yields, in order
    R = ("model", "collect", args[0])
    set_ty(R, tykey(Place(t["dest"]).ty))
    ln = project(args[0], (("len",),))
    sp = project(args[0], (("span",),))
    if isinstance(sp, tuple) and sp[0] == "model" and sp[1] == "span":
        return ("upd", R, (((("len",),), ln), ((("span",),), sp)))
    return it.with_len(R, ln)


@model("core::iter::traits::iterator::Iterator::enumerate")
def m_enumerate(it, S, t, callee, args):
    # Enumerate yields as many items as the wrapped iterator
    ln = project(args[0], (("len",),))
    R = ("model", "enumerate", args[0])
    set_ty(R, tykey(Place(t["dest"]).ty))
    return it.with_len(R, ln)


@model("<core::iter::adapters::enumerate::Enumerate<I> as core::iter::traits::iterator::Iterator>::next",
       "<alloc::vec::into_iter::IntoIter<T, A> as core::iter::traits::iterator::Iterator>::next")
def m_counted_next(it, S, t, callee, args):
    # Some while items remain, None when exhausted
    loc = it.target(args[0])
    ln = S.read((loc[0], loc[1] + (("len",),)))
    set_ty(ln, "usize")
    R = ("call", it.site(), callee.get("path"))
    set_ty(R, tykey(Place(t["dest"]).ty))
    d = ("discr", R)
    it.cond[(d, 1)] = [("le", U(1), ln, 0)]
    it.cond[(d, 0)] = [("le", ln, U(0), 0)]
    if S.prove_le(U(1), ln, 0):
        S.set_dom(d, Dom(1, 1))
    elif S.prove_le(ln, U(0), 0):
        S.set_dom(d, Dom(0, 0))
    new = ("call", it.site("len"), "remaining-after-next")
    set_ty(new, "usize")
    S.write((loc[0], loc[1] + (("len",),)), new)
    S.add_le(new, ln, 0)
    it.havoc_args(S, t, args, skip=(0,))
    if "IntoIter" in norm_name(callee.get("pretty")) and isinstance(S.read((loc[0], loc[1] + (("origin",),))), tuple) and S.read((loc[0], loc[1] + (("origin",),)))[0] == "ref":
        m = re.match(r"^(?:core|std)::option::Option<(.*)>$", Place(t["dest"]).ty.get("s", ""))
        v = take_front(it, S, loc, m.group(1) if m else None)
        if v is not None:
            return ("upd", R, (((("dc", 1, "Some"), ("f", 0, "0")), v),))
    return R


# ----------------------------------------------------------------------------- hash maps
@model("std::collections::hash::map::HashMap::get", "std::collections::hash::map::HashMap::contains_key")
def m_map_get(it, S, t, callee, args):
    # pure observer: equal map value and equal key give the same result
    mapv = it.deref_value(S, args[0], 1, it.op_type(t["args"][0]))
    key = it.deref_value(S, args[1], 2, it.op_type(t["args"][1]))
    which = norm_name(callee.get("pretty")).split("::")[-1]
    R = ("model", "HashMap::" + which, mapv, key)
    set_ty(R, tykey(Place(t["dest"]).ty))
    return R


@model("std::collections::hash::map::HashMap::get_mut")
def m_map_get_mut(it, S, t, callee, args):
    loc = it.target(args[0])
    mapv = S.read(loc)
    key = it.deref_value(S, args[1], 2, it.op_type(t["args"][1]))
    R = ("model", "HashMap::get_mut", mapv, key, ("site", it.site()))
    set_ty(R, tykey(Place(t["dest"]).ty))
    S.havoc(loc, it.site())
    return R


@model("std::collections::hash::map::HashMap::remove")
def m_map_remove(it, S, t, callee, args):
    loc = it.target(args[0])
    mapv = S.read(loc)
    key = it.deref_value(S, args[1], 2, it.op_type(t["args"][1]))
    R = ("model", "HashMap::remove", mapv, key, ("site", it.site()))
    set_ty(R, tykey(Place(t["dest"]).ty))
    S.havoc(loc, it.site())
    return R


@model("std::collections::hash::map::HashMap::insert")
def m_map_insert(it, S, t, callee, args):
    loc = it.target(args[0])
    S.havoc(loc, it.site())
    R = ("call", it.site(), callee.get("path"))
    set_ty(R, tykey(Place(t["dest"]).ty))
    return R


# ----------------------------------------------------------------------------- cursor
@model("std::io::cursor::Cursor::new")
def m_cursor_new(it, S, t, callee, args):
    return ("agg", "std::io::cursor::Cursor", 0, (args[0], K("u64", 0)))


@model("std::io::cursor::Cursor::into_inner")
def m_cursor_into_inner(it, S, t, callee, args):
    return project(args[0], (("f", 0, "inner"),))


# ----------------------------------------------------------------------------- byteorder
def _read_model(bits):
    def f(it, S, t, callee, args):
        R = ("call", it.site(), callee.get("path"))
        dty = Place(t["dest"]).ty
        set_ty(R, tykey(dty))
        it.havoc_args(S, t, args)
        P = project(R, (("dc", 0, "Ok"), ("f", 0, "0")))
        S.set_dom(P, Dom(0, (1 << bits) - 1))
        return R
    return f


for _name, _bits in (("read_u8", 8), ("read_u16", 16), ("read_u24", 24), ("read_u32", 32), ("read_u48", 48), ("read_u64", 64)):
    MODELS["byteorder::io::ReadBytesExt::" + _name] = _read_model(_bits)


@model("byteorder::io::WriteBytesExt::write_u24")
def m_write_u24(it, S, t, callee, args):
    # byteorder: write_u24 -> ByteOrder::write_uint(buf, n, 3), which asserts pack_size(n) <= 3
    n = args[1]
    d = S.dom(n)
    proved = d.hi <= 0xFFFFFF and d.lo >= 0
    it.oblige("precond:write_u24", "write_u24|%s" % stable(n), proved, t["span"], "value %s must be < 2^24" % it.describe(S, n), callee="byteorder::WriteBytesExt::write_u24")
    S.set_dom(n, Dom(0, 0xFFFFFF))
    it.havoc_args(S, t, args)
    R = ("call", it.site(), callee.get("path"))
    set_ty(R, tykey(Place(t["dest"]).ty))
    return R


@model("std::io::Read::read")
def m_io_read(it, S, t, callee, args):
    # io::Read::read returns Ok(n) with n <= buf.len()
    R = ("call", it.site(), callee.get("path"))
    set_ty(R, tykey(Place(t["dest"]).ty))
    ln = it.len_of_ref(S, args[1], it.op_type(t["args"][1]))
    it.havoc_args(S, t, args)
    P = project(R, (("dc", 0, "Ok"), ("f", 0, "0")))
    set_ty(P, "usize")
    S.add_le(P, ln, 0)
    return R


# ----------------------------------------------------------------------------- vec![a, b, c]
@model("alloc::boxed::box_assume_init_into_vec_unsafe")
def m_vec_macro(it, S, t, callee, args):
    # expansion of vec![..]: the array aggregate was written through the box's pointer; the vector
    # has exactly the array's elements in source order
    box = args[0]
    base = box
    while isinstance(base, tuple) and base[0] in ("upd", "proj"):
        base = base[1]
    found = None
    for (root, proj), v in S.mem.items():
        if root[0] == "P" and isinstance(v, tuple) and v[0] == "agg" and v[1] == "array":
            x = root[1]
            while isinstance(x, tuple) and x[0] in ("proj", "upd", "cast"):
                x = x[1] if x[0] != "cast" else x[2]
            if x == base:
                found = v
    if found is None:
        return None
    R = ("model", "vec!", found)
    set_ty(R, tykey(Place(t["dest"]).ty))
    return it.with_len(R, U(len(found[3])))


# ----------------------------------------------------------------------------- callees trusted not to panic
# (documented behaviour: no panic other than allocation failure / capacity overflow, which the
# property's memory clause treats separately).  Anything reached from the analysed entry points
# that is neither modelled above nor listed here makes the rule report "cannot analyse".
TRUSTED_NOPANIC = {
    "<&'a alloc::vec::Vec<T, A> as core::iter::traits::collect::IntoIterator>::into_iter": "iterator construction",
    "<&'a std::collections::hash::map::HashMap<K, V, S, A> as core::iter::traits::collect::IntoIterator>::into_iter": "iterator construction",
    "<alloc::vec::Vec<T, A> as core::iter::traits::collect::IntoIterator>::into_iter": "iterator construction",
    "<alloc::vec::drain::Drain<'_, T, A> as core::iter::traits::iterator::Iterator>::next": "iterator step",
    "<core::iter::adapters::enumerate::Enumerate<I> as core::iter::traits::iterator::Iterator>::next": "iterator step (count overflow needs 2^64 items)",
    "<core::slice::iter::Iter<'a, T> as core::iter::traits::iterator::Iterator>::next": "iterator step",
    "<std::collections::hash::map::Drain<'a, K, V, A> as core::iter::traits::iterator::Iterator>::next": "iterator step",
    "<std::collections::hash::map::Iter<'a, K, V> as core::iter::traits::iterator::Iterator>::next": "iterator step",
    "<alloc::vec::into_iter::IntoIter<T, A> as core::iter::traits::iterator::Iterator>::next": "iterator step",
    "<alloc::string::String as core::ops::arith::Add<&str>>::add": "string concatenation",
    "<hmac::Hmac<D> as crypto_mac::Mac>::finalize": "hmac crate (trusted)",
    "<hmac::Hmac<D> as crypto_mac::Mac>::update": "hmac crate (trusted)",
    "<hmac::Hmac<D> as crypto_mac::NewMac>::new_varkey": "hmac crate: returns a Result, accepts every key length",
    "crypto_mac::Output::into_bytes": "hmac crate (trusted)",
    "alloc::boxed::Box::new_uninit": "allocation (vec! expansion)",
    "alloc::boxed::box_assume_init_into_vec_unsafe": "vec! expansion",
    "alloc::fmt::format": "formatting of Display values",
    "alloc::string::String::from_utf8": "returns a Result",
    "byteorder::io::ReadBytesExt::read_f64": "returns an io::Result",
    "byteorder::io::WriteBytesExt::write_f64": "returns an io::Result",
    "byteorder::io::WriteBytesExt::write_u16": "returns an io::Result",
    "byteorder::io::WriteBytesExt::write_u32": "returns an io::Result",
    "byteorder::io::WriteBytesExt::write_u8": "returns an io::Result",
    "core::cmp::impls::<impl core::cmp::Ord for u32>::cmp": "total order on u32",
    "core::fmt::Arguments::new": "format_args! expansion",
    "core::fmt::rt::Argument::new_display": "format_args! expansion",
    "core::iter::traits::iterator::Iterator::collect": "collect into Vec",
    "core::iter::traits::iterator::Iterator::enumerate": "adapter construction",
    "core::option::Option::map": "calls the closure, which is analysed as its own body",
    "core::option::Option::ok_or": "no panic",
    "core::option::Option::unwrap_or_else": "calls the closure, which is analysed as its own body",
    "core::option::Option::unwrap_or": "no panic",
    "core::result::Result::map": "calls the closure / constructor, no panic",
    "core::result::Result::map_err": "calls the closure, no panic",
    "core::str::<impl str>::ends_with": "no panic",
    "core::time::Duration::as_secs": "no panic",
    "core::time::Duration::subsec_nanos": "no panic",
    "rand::rng::Rng::gen": "rand crate (trusted; OS entropy failure is an environment fault)",
    "rand::rngs::thread::thread_rng": "rand crate (trusted)",
    "std::collections::hash::map::HashMap::drain": "no panic",
    "std::collections::hash::map::HashMap::new": "no panic",
    "std::collections::hash::map::HashMap::with_capacity": "allocation sized by a constant",
    "std::io::Read::read_exact": "returns an io::Result (reader is a Cursor / caller supplied)",
    "std::io::Write::write_all": "returns an io::Result (writer is a Vec / Cursor)",
    "std::io::error::Error::new": "no panic",
    "std::time::SystemTime::elapsed": "returns a Result",
    "std::time::SystemTime::now": "no panic",
}
