"""Thorough tier additions: the checker is run on scratch copies of the tree with one change applied each -
reverted fix: commits and the seeded changes under /verif/seeded must make the property's rule fire, the
behaviour-preserving variants under /verif/selftest/benign must leave every rule silent.  The outcome describes the
checker, is written into the evidence and printed as SELFTEST lines, and never changes the exit status (which
reflects only the tree under test).  A patch that no longer applies to the tree under test is reported as skipped."""
import json, os, re, shutil, subprocess, sys, tempfile

VERIF = os.path.dirname(os.path.dirname(os.path.abspath(__file__)))


def sh(cmd, cwd=None):
    p = subprocess.run(cmd, shell=True, cwd=cwd, stdout=subprocess.PIPE, stderr=subprocess.STDOUT, text=True)
    return p.returncode, p.stdout


def make_scratch(repo):
    d = tempfile.mkdtemp(prefix="rml-selftest.")
    # a copy of the working tree without build output
    sh("rsync -a --exclude target --exclude .git %s/ %s/" % (repo, d))
    sh("git init -q && git add -A && git -c user.email=s@t -c user.name=s commit -qm base", cwd=d)
    return d


def reset(d):
    sh("git checkout -q -- . && git clean -fdq", cwd=d)


def run_check(prop, scratch):
    env = dict(os.environ)
    p = subprocess.run([os.path.join(VERIF, "check"), prop, "--repo", scratch, "--no-evidence"], cwd=VERIF, stdout=subprocess.PIPE, stderr=subprocess.STDOUT, text=True, env=env)
    rules = sorted(set(re.findall(r"^  rule (\S+) at", p.stdout, re.M)))
    return p.returncode, rules, p.stdout


def candidates(prop):
    out = []
    bdir = os.path.join(VERIF, "selftest", "break")
    for f in sorted(os.listdir(bdir)) if os.path.isdir(bdir) else []:
        if f.endswith(".fixdiff") and ("-" + prop + ".") in f:
            out.append(("revert", f, os.path.join(bdir, f), True))
        elif f.endswith(".patch") and f.startswith(prop + "-"):
            out.append(("break", f, os.path.join(bdir, f), False))
    sdir = os.path.join(VERIF, "seeded")
    for d in sorted(os.listdir(sdir)) if os.path.isdir(sdir) else []:
        if d.startswith(prop + "-") and os.path.exists(os.path.join(sdir, d, "patch.diff")):
            out.append(("seeded", d, os.path.join(sdir, d, "patch.diff"), False))
    return out


def benign(prop):
    """behaviour-preserving variants written against this property's anchors (the full cross product of all variants and all
    properties is run by tools/regress.py, not on every thorough run)"""
    bdir = os.path.join(VERIF, "selftest", "benign")
    if not os.path.isdir(bdir):
        return []
    return [(f, os.path.join(bdir, f)) for f in sorted(os.listdir(bdir)) if f.endswith((".diff", ".patch")) and f.startswith(prop + "-")]


def run(props, repo, env):
    scratch = make_scratch(repo)
    try:
        for prop in props:
            res = {"fired": [], "missed": [], "silent": [], "false_alarms": [], "skipped": []}
            for kind, name, path, reverse in candidates(prop):
                reset(scratch)
                rc, out = sh("git apply %s %s" % ("-R" if reverse else "", path), cwd=scratch)
                if rc != 0:
                    res["skipped"].append("%s:%s (does not apply to this tree)" % (kind, name))
                    print("SELFTEST-SKIPPED property=%s %s:%s" % (prop, kind, name))
                    continue
                rc, rules, _ = run_check(prop, scratch)
                if rc == 1 and rules:
                    res["fired"].append({"change": "%s:%s" % (kind, name), "rules": rules})
                    print("SELFTEST-FIRED property=%s %s:%s rules=%s" % (prop, kind, name, ",".join(rules)))
                else:
                    res["missed"].append("%s:%s" % (kind, name))
                    print("SELFTEST-MISSED property=%s %s:%s (the checker did not report this change)" % (prop, kind, name))
            for name, path in benign(prop):
                reset(scratch)
                rc, out = sh("git apply %s" % path, cwd=scratch)
                if rc != 0:
                    res["skipped"].append("benign:%s (does not apply to this tree)" % name)
                    continue
                rc, rules, _ = run_check(prop, scratch)
                if rc == 0:
                    res["silent"].append(name)
                else:
                    res["false_alarms"].append({"change": name, "rules": rules})
                    print("SELFTEST-FALSE-ALARM property=%s benign:%s rules=%s" % (prop, name, ",".join(rules)))
            print("SELFTEST property=%s fired=%d missed=%d benign-silent=%d false-alarms=%d skipped=%d" % (
                prop, len(res["fired"]), len(res["missed"]), len(res["silent"]), len(res["false_alarms"]), len(res["skipped"])))
            ev_path = os.path.join(VERIF, "evidence", "%s.json" % prop)
            try:
                ev = json.load(open(ev_path))
                ev["coverage"]["selftest"] = res
                json.dump(ev, open(ev_path, "w"), indent=1, default=str)
            except Exception as e:
                print("SELFTEST: could not record results in %s: %s" % (ev_path, e))
    finally:
        shutil.rmtree(scratch, ignore_errors=True)
