"""Thorough tier additions: checker self-tests.  Their outcome describes the checker, never the tree under
test, and does not change the exit status."""


def run(props, repo, env):
    print("SELFTEST: (thorough-tier self-tests are run by tools/selftest.py; see DESIGN.md section 7)")
