use rml_rtmp::chunk_io::{ChunkSerializer, ChunkDeserializer};
use rml_rtmp::messages::{MessagePayload, RtmpMessage};
use rml_rtmp::sessions::*;
use rml_rtmp::time::RtmpTimestamp;
use rml_amf0::Amf0Value;
use bytes::Bytes;
use std::collections::HashMap;
use std::panic::{catch_unwind, AssertUnwindSafe};

fn cmd(name:&str, tid:f64, obj:Amf0Value, args:Vec<Amf0Value>, sid:u32, ser:&mut ChunkSerializer)->Vec<u8>{
    let m = RtmpMessage::Amf0Command{command_name:name.to_string(),transaction_id:tid,command_object:obj,additional_arguments:args};
    let p = m.into_message_payload(RtmpTimestamp::new(0), sid).unwrap();
    ser.serialize(&p,false,false).unwrap().bytes
}

fn main(){
    let which = std::env::args().nth(1).unwrap();
    match which.as_str(){
    "zero" => {
        let mut s = ChunkSerializer::new();
        let p = MessagePayload{timestamp:RtmpTimestamp::new(5),type_id:8,message_stream_id:1,data:Bytes::new()};
        let pk = s.serialize(&p,false,false).unwrap();
        println!("zero-length packet bytes = {}", pk.bytes.len());
    }
    "play_order" => {
        let (mut srv, _init) = ServerSession::new(ServerSessionConfig::new()).unwrap();
        let mut ser = ChunkSerializer::new();
        let mut props = HashMap::new(); props.insert("app".to_string(), Amf0Value::Utf8String("live".into()));
        let r = srv.handle_input(&cmd("connect",1.0,Amf0Value::Object(props),vec![],0,&mut ser)).unwrap();
        let rid = match &r[0]{ ServerSessionResult::RaisedEvent(ServerSessionEvent::ConnectionRequested{request_id,..})=>*request_id, _=>panic!()};
        let mut out: Vec<Vec<u8>> = vec![];
        for x in _init { if let ServerSessionResult::OutboundResponse(p)=x { out.push(p.bytes);} }
        for x in srv.accept_request(rid).unwrap(){ if let ServerSessionResult::OutboundResponse(p)=x { out.push(p.bytes);} }
        for x in srv.handle_input(&cmd("createStream",2.0,Amf0Value::Null,vec![],0,&mut ser)).unwrap(){ if let ServerSessionResult::OutboundResponse(p)=x { out.push(p.bytes);} }
        let r = srv.handle_input(&cmd("play",0.0,Amf0Value::Null,vec![Amf0Value::Utf8String("key".into())],1,&mut ser)).unwrap();
        let rid = match &r[0]{ ServerSessionResult::RaisedEvent(ServerSessionEvent::PlayStreamRequested{request_id,..})=>*request_id, _=>panic!()};
        let mark = out.len();
        for x in srv.accept_request(rid).unwrap(){ if let ServerSessionResult::OutboundResponse(p)=x { out.push(p.bytes);} }
        let mut de = ChunkDeserializer::new();
        for (i,b) in out.iter().enumerate(){
            let mut inp:&[u8]=&b[..];
            loop { match de.get_next_message(inp).unwrap(){ None=>break, Some(p)=>{
                let m = p.to_rtmp_message().unwrap();
                if let RtmpMessage::SetChunkSize{size}=m { de.set_max_chunk_size(size as usize).unwrap(); }
                if i>=mark { println!("pkt{} type={} msid={} ts={} {:?}", i-mark, p.type_id, p.message_stream_id, p.timestamp.value, match m { RtmpMessage::Amf0Command{additional_arguments,..}=>format!("{:?}",additional_arguments.get(0).and_then(|a| a.clone().get_object_properties()).and_then(|mut o|o.remove("code"))), o=>format!("{:?}",o)}); }
                inp=&[]; }}}
        }
    }
    "cmd_short" => {
        let (mut srv, _)= ServerSession::new(ServerSessionConfig::new()).unwrap();
        let mut ser = ChunkSerializer::new();
        let data = rml_amf0::serialize(&vec![Amf0Value::Utf8String("connect".into())]).unwrap();
        let p = MessagePayload{timestamp:RtmpTimestamp::new(0),type_id:20,message_stream_id:0,data:Bytes::from(data)};
        let b = ser.serialize(&p,false,false).unwrap().bytes;
        let r = catch_unwind(AssertUnwindSafe(|| srv.handle_input(&b).map(|_|())));
        println!("short command: {:?}", r.is_err());
    }
    "setdataframe" => {
        let (mut srv, _)= ServerSession::new(ServerSessionConfig::new()).unwrap();
        let mut ser = ChunkSerializer::new();
        let data = rml_amf0::serialize(&vec![Amf0Value::Utf8String("@setDataFrame".into())]).unwrap();
        let p = MessagePayload{timestamp:RtmpTimestamp::new(0),type_id:18,message_stream_id:0,data:Bytes::from(data)};
        let b = ser.serialize(&p,false,false).unwrap().bytes;
        let r = catch_unwind(AssertUnwindSafe(|| srv.handle_input(&b).map(|_|())));
        println!("setDataFrame alone panics: {:?}", r.is_err());
    }
    "shorter_len" => {
        // type0 header announcing 300 bytes, one 128-byte chunk, then a type-1 header on same csid announcing 10 bytes
        let mut b = vec![0x04, 0,0,0, 0,0x01,0x2c, 9, 1,0,0,0]; b.extend(vec![0u8;128]);
        b.extend(vec![0x44, 0,0,0, 0,0,10, 9]); b.extend(vec![0u8;10]);
        let mut de = ChunkDeserializer::new();
        let r = catch_unwind(AssertUnwindSafe(|| { let mut i:&[u8]=&b; loop { match de.get_next_message(i){Ok(None)=>break,Ok(Some(_))=>{i=&[];},Err(e)=>{println!("err {:?}",e);break}} } }));
        println!("shorter length panics: {:?}", r.is_err());
    }
    "ext_ts" => {
        // type0 with ts field 0xFFFFFF + ext, then type-1 delta header with field 0xFFFFFF and ext < 0xFFFFFF
        let mut b = vec![0x04, 0xff,0xff,0xff, 0,0,1, 9, 1,0,0,0, 0x01,0,0,0, 7];
        b.extend(vec![0x44, 0xff,0xff,0xff, 0,0,1, 9, 0,0,0,5, 7]);
        let mut de = ChunkDeserializer::new();
        let r = catch_unwind(AssertUnwindSafe(|| { let mut i:&[u8]=&b; loop { match de.get_next_message(i){Ok(None)=>break,Ok(Some(m))=>{println!("msg ts {}",m.timestamp.value); i=&[];},Err(e)=>{println!("err {:?}",e);break}} } }));
        println!("ext ts underflow panics: {:?}", r.is_err());
    }
    "amf_name" => {
        let mut props = HashMap::new(); props.insert("a".repeat(65536+3), Amf0Value::Null);
        let bytes = rml_amf0::serialize(&vec![Amf0Value::Object(props)]);
        match bytes { Ok(b)=>{ let r = rml_amf0::deserialize(&mut std::io::Cursor::new(b)); println!("long name: encode ok, decode = {:?}", r.map(|v| format!("{:?}", v).len())); }, Err(e)=>println!("long name refused {:?}",e)}
        let mut props = HashMap::new(); props.insert("".to_string(), Amf0Value::Null);
        let bytes = rml_amf0::serialize(&vec![Amf0Value::Object(props)]).unwrap();
        println!("empty name: bytes {:?} decode = {:?}", bytes, rml_amf0::deserialize(&mut std::io::Cursor::new(bytes.clone())));
    }
    "nest" => {
        let n: usize = std::env::args().nth(2).unwrap().parse().unwrap();
        let mut b = Vec::new(); for _ in 0..n { b.extend_from_slice(&[0x0a,0,0,0,1]); }
        let r = rml_amf0::deserialize(&mut std::io::Cursor::new(b));
        println!("nest {} -> ok={}", n, r.is_ok());
    }
    "chunk0" => {
        let mut s = ChunkSerializer::new();
        let r = s.set_max_chunk_size(0, RtmpTimestamp::new(0));
        println!("set_max_chunk_size(0) accepted: {}", r.is_ok());
        // next serialize would loop forever; do not call it
    }
    "ackwrap" => {
        let (mut srv, _)= ServerSession::new(ServerSessionConfig::new()).unwrap();
        let mut ser = ChunkSerializer::new();
        let p = RtmpMessage::WindowAcknowledgement{size:u32::MAX}.into_message_payload(RtmpTimestamp::new(0),0).unwrap();
        let b = ser.serialize(&p,false,false).unwrap().bytes;
        srv.handle_input(&b).unwrap();
        println!("window set");
    }
    _=>{}
    }
}
