use rml_rtmp::chunk_io::ChunkDeserializer;
fn main(){
    // message A on csid 4: video, 200 bytes of 0xAA; message B on csid 5: audio, 10 bytes of 0xBB, sent between A's two chunks
    let mut b = vec![0x04, 0,0,10, 0,0,200, 9, 1,0,0,0]; b.extend(vec![0xAAu8;128]);
    b.extend(vec![0x05, 0,0,20, 0,0,10, 8, 1,0,0,0]); b.extend(vec![0xBBu8;10]);
    b.push(0xC4); b.extend(vec![0xAAu8;72]);
    let mut de = ChunkDeserializer::new();
    let mut i:&[u8]=&b;
    loop { match de.get_next_message(i){ Ok(None)=>break, Ok(Some(m))=>{ println!("msg type={} ts={} len={} all_same={}", m.type_id, m.timestamp.value, m.data.len(), m.data.iter().all(|x| *x==m.data[0])); i=&[]; }, Err(e)=>{println!("err {:?}",e);break} } }
}
