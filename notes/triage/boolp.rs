fn main(){
    let r = rml_amf0::deserialize(&mut std::io::Cursor::new(vec![0x01u8,0x02])).unwrap();
    println!("01 02 -> {:?}", r);
    let r = rml_amf0::deserialize(&mut std::io::Cursor::new(vec![0x09u8,0x05])).unwrap();
    println!("09 05 -> {:?}", r);
    let r = rml_amf0::deserialize(&mut std::io::Cursor::new(vec![0x0au8,0,0,0,3,5]));
    println!("0A 00000003 05 -> {:?}", r);
}
