// NOT a seed demo.  Aside found while preparing C18 seeds: this test FAILS ON THE UNCHANGED TREE.
// accept_publish_request serializes the StreamBegin packet and only then builds the onStatus
// payload, whose description embeds the stream key.  With a stream key of 65,487..65,535 bytes the
// description no longer fits an AMF0 short string, the accept returns Err, and the already
// serialized StreamBegin is never handed out.  The next StreamBegin on that message stream is then
// compressed against a header the peer never saw.  (accept_play_request has the same shape: reset
// and StreamBegin are serialized before the NetStream.Play.Start payload is built.)
// Run as rtmp/tests/aside.rs: cargo test --offline -p rml_rtmp --test aside

extern crate bytes;
extern crate rml_rtmp;

use rml_rtmp::chunk_io::{ChunkDeserializer, ChunkSerializer, Packet};
use rml_rtmp::messages::{MessagePayload, RtmpMessage, UserControlEventType};
use rml_rtmp::rml_amf0::Amf0Value;
use rml_rtmp::sessions::{
    ServerSession, ServerSessionConfig, ServerSessionEvent, ServerSessionResult,
};
use rml_rtmp::time::RtmpTimestamp;
use std::collections::HashMap;

/// The remote end of the connection: it sees the returned packets, in order, and nothing else.
struct Peer {
    deserializer: ChunkDeserializer,
}

impl Peer {
    fn new() -> Peer {
        Peer {
            deserializer: ChunkDeserializer::new(),
        }
    }

    fn receive(&mut self, packets: &[Packet]) -> Vec<(MessagePayload, RtmpMessage)> {
        let mut wire = Vec::new();
        for packet in packets {
            wire.extend_from_slice(&packet.bytes[..]);
        }

        let mut messages = Vec::new();
        let mut input = &wire[..];
        loop {
            let payload = match self
                .deserializer
                .get_next_message(input)
                .expect("peer failed to parse the chunk stream")
            {
                Some(payload) => payload,
                None => break,
            };

            input = &[];
            let message = payload
                .to_rtmp_message()
                .expect("peer received a malformed message");
            if let RtmpMessage::SetChunkSize { size } = message {
                self.deserializer.set_max_chunk_size(size as usize).unwrap();
            }

            messages.push((payload, message));
        }

        messages
    }
}

struct Harness {
    session: ServerSession,
    peer: Peer,
    client_serializer: ChunkSerializer,
}

fn split(results: Vec<ServerSessionResult>) -> (Vec<Packet>, Vec<ServerSessionEvent>) {
    let mut packets = Vec::new();
    let mut events = Vec::new();
    for result in results {
        match result {
            ServerSessionResult::OutboundResponse(packet) => packets.push(packet),
            ServerSessionResult::RaisedEvent(event) => events.push(event),
            ServerSessionResult::UnhandleableMessageReceived(_) => (),
        }
    }

    (packets, events)
}

impl Harness {
    /// A session with an accepted connection on app "live"
    fn connected() -> Harness {
        let (session, initial) = ServerSession::new(ServerSessionConfig::new()).unwrap();
        let mut harness = Harness {
            session,
            peer: Peer::new(),
            client_serializer: ChunkSerializer::new(),
        };

        let (packets, _) = split(initial);
        harness.peer.receive(&packets);

        let mut properties = HashMap::new();
        properties.insert("app".to_string(), Amf0Value::Utf8String("live".to_string()));
        let (packets, events) = harness.send(
            RtmpMessage::Amf0Command {
                command_name: "connect".to_string(),
                transaction_id: 1.0,
                command_object: Amf0Value::Object(properties),
                additional_arguments: vec![],
            },
            0,
        );
        harness.peer.receive(&packets);

        let request_id = match events[..] {
            [ServerSessionEvent::ConnectionRequested { request_id, .. }] => request_id,
            _ => panic!("unexpected events for connect: {:?}", events),
        };

        let (packets, _) = split(harness.session.accept_request(request_id).unwrap());
        harness.peer.receive(&packets);
        harness
    }

    /// The client sends one message, the session's reaction is returned
    fn send(
        &mut self,
        message: RtmpMessage,
        message_stream_id: u32,
    ) -> (Vec<Packet>, Vec<ServerSessionEvent>) {
        let payload = message
            .into_message_payload(RtmpTimestamp::new(0), message_stream_id)
            .unwrap();
        let packet = self
            .client_serializer
            .serialize(&payload, false, false)
            .unwrap();
        split(self.session.handle_input(&packet.bytes[..]).unwrap())
    }

    fn create_stream(&mut self) -> u32 {
        let (packets, _) = self.send(
            RtmpMessage::Amf0Command {
                command_name: "createStream".to_string(),
                transaction_id: 2.0,
                command_object: Amf0Value::Null,
                additional_arguments: vec![],
            },
            0,
        );

        let messages = self.peer.receive(&packets);
        assert_eq!(messages.len(), 1, "one answer to createStream expected");
        assert_eq!(
            messages[0].0.message_stream_id, 0,
            "createStream is answered on message stream 0"
        );

        match messages[0].1 {
            RtmpMessage::Amf0Command {
                ref command_name,
                ref additional_arguments,
                ..
            } if command_name == "_result" => match additional_arguments[0] {
                Amf0Value::Number(x) => x as u32,
                _ => panic!("createStream result without a stream id"),
            },
            ref x => panic!("unexpected answer to createStream: {:?}", x),
        }
    }

    /// The client asks to publish on the given message stream; the request id is returned
    fn request_publish(&mut self, message_stream_id: u32, stream_key: &str) -> u32 {
        let (packets, events) = self.send(
            RtmpMessage::Amf0Command {
                command_name: "publish".to_string(),
                transaction_id: 0.0,
                command_object: Amf0Value::Null,
                additional_arguments: vec![
                    Amf0Value::Utf8String(stream_key.to_string()),
                    Amf0Value::Utf8String("live".to_string()),
                ],
            },
            message_stream_id,
        );
        self.peer.receive(&packets);

        match events[..] {
            [ServerSessionEvent::PublishStreamRequested { request_id, .. }] => request_id,
            _ => panic!("unexpected events for publish: {:?}", events),
        }
    }

    fn delete_stream(&mut self, stream_id: u32) {
        let (packets, _) = self.send(
            RtmpMessage::Amf0Command {
                command_name: "deleteStream".to_string(),
                transaction_id: 0.0,
                command_object: Amf0Value::Null,
                additional_arguments: vec![Amf0Value::Number(stream_id as f64)],
            },
            0,
        );
        self.peer.receive(&packets);
    }

    /// The client pings, the peer must see the pong: shows the chunk stream is still in sync
    fn ping_round_trip(&mut self) {
        let (packets, _) = self.send(
            RtmpMessage::UserControl {
                event_type: UserControlEventType::PingRequest,
                stream_id: None,
                buffer_length: None,
                timestamp: Some(RtmpTimestamp::new(1234)),
            },
            0,
        );

        let messages = self.peer.receive(&packets);
        assert_eq!(messages.len(), 1, "one pong expected, got {:?}", messages);
        assert_eq!(messages[0].0.message_stream_id, 0, "pong on message stream 0");
        assert_eq!(
            messages[0].1,
            RtmpMessage::UserControl {
                event_type: UserControlEventType::PingResponse,
                stream_id: None,
                buffer_length: None,
                timestamp: Some(RtmpTimestamp::new(1234)),
            }
        );
    }
}

fn is_command(message: &RtmpMessage, name: &str) -> bool {
    match *message {
        RtmpMessage::Amf0Command {
            ref command_name, ..
        } => command_name == name,
        _ => false,
    }
}


#[test]
fn accept_that_fails_on_a_long_stream_key_must_not_desync_the_peer() {
    let mut harness = Harness::connected();
    let stream_id = harness.create_stream();

    let long_key: String = std::iter::repeat('k').take(65_500).collect();
    let request = harness.request_publish(stream_id, &long_key);
    assert!(harness.session.accept_request(request).is_err());

    let request = harness.request_publish(stream_id, "key");
    let (packets, _) = split(harness.session.accept_request(request).unwrap());
    let messages = harness.peer.receive(&packets);
    assert_eq!(messages.len(), 2, "peer saw: {:?}", messages);
    assert_eq!(messages[0].0.message_stream_id, stream_id);
    assert!(is_command(&messages[1].1, "onStatus"));
    harness.ping_round_trip();
}
